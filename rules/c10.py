"""C10 - Regenerated profile text preserves every token (grammar-level analysis).

R1/R2/R5/R7/R9/R10 work on the compiled grammar (R7, R10: on its terminal table, R10 also on the LALR table).  R3 and R8 are about the Python side of the round
trip and locate their subjects by role:

* the *renderer* is the function of c2profile.py that calls `.reconstruct(...)` on a lark `Reconstructor(...)` or on an
  instance of a package class whose single-inheritance chain ends in lark's Reconstructor (what such a class overrides is
  R11's subject; a constructor of its own makes the parser argument unlocated: undecided)
  (`C2Profile.as_text` if it still does; temporaries, a module-level reconstructor, positional or keyword arguments do
  not matter); the *reader* is the function that assigns a `.parse(...)` result to a `.tree` attribute
  (`C2Profile.from_text`);
* the *parser object* both use is identified by the module-level NAME it is bound to (followed through `ALIAS = NAME`):
  a name that neither function rebinds and all of whose bindings in the module's own scope are lark `Lark(...)` /
  `Lark.open(...)` / `Lark.open_from_package(...)` constructions - wherever the binding stands (a plain statement, inside
  `with open(...) as fh:`, under `try` / `if`) and whichever of these constructors is used (`_module_bindings`; function
  and class bodies are other scopes, a `global NAME` in a function counts as a binding the rule cannot follow).  Renderer
  and reader must use the same name.  A module-level name bound to anything else (a loader function's result ...) ->
  the parser object is not located: undecided, unless another condition of the same obligation (source text handed to
  `parse` unchanged, own tree, reconstruction returned as it is) is violated.  A parser that is not a module-level name
  (built inside the function) is located and is not the module's parser: violated;
* the *post-processor* is whatever callable is handed to that call as `postproc` (a nested function, a module-level
  function, a method, a lambda, a `functools.partial`) - not a function of a particular name;
* token preservation by the post-processor is an inductive argument over ONE arbitrary iteration of its loop over the
  item stream (`_Flow`): W = buffer at the loop head ++ [item drawn], n = len(W) a symbol.  For every path through the
  loop body (branch outcomes symbolic, inner loops summarised from one walk of their body with a symbolic position):
    (i)   the item is appended to the line buffer unchanged (value flow; no transforming string operation on its text);
    (ii)  tokens(yielded on the path) ++ buffer at the end == W - so a path either yields nothing and keeps W buffered, or
          yields all of W once, in order (segment arithmetic on polynomials in n) and resets the buffer;
    (iii) everything else that is yielded is whitespace (or a constant `{`/`}`/`;` where the branch tests of the path
          say the item at that place is that delimiter), and two words are never fused;
    (iv)  the paths that keep the buffer are not taken for an item that can end a sentence of the grammar (LAST set of
          `start`, computed from the rules; the item's possible lexemes are the grammar's terminal vocabulary refined by
          the literals the code compares the item with) - so nothing is buffered when the stream ends.
  The rule looks at what flows into `yield`, not at how the loop is written: an early `continue`, an index loop with the
  last element split off, `yield from` of a prepared list, a join, a concatenated or hoisted separator, an extracted
  helper generator give the same verdict.

* R7 (comments and whitespace stay ignored in every parser state): lark's lalr lexers try the terminals of a state as one
  alternation ordered by (priority, width, pattern length, name) and the first alternative that matches wins; the
  ignored terminals are offered in every state.  A non-ignored terminal T of a reachable rule that is tried BEFORE an
  ignored terminal I and has a word that begins a word of I (decided on the syntax trees: I has the shape F C* / C+, some
  word of T lies inside F C*) takes the text away from I wherever the parser can expect T: a comment there is handed to
  the parser instead of being skipped.  Violated only when such a word is established; tried-before with a possibly
  common first character but no established word -> undecided; first characters disjoint, or I tried first -> discharged.
  (That I wins from T - the unchanged grammar's `"#" "dns_resolver"` production can never be lexed - is NOT a condition
  of this rule: it makes a production unreachable, it does not make an accepted profile print differently.)
* R8 (the tree the parser produced is the tree that is printed): in the reader, in the renderer, in the package functions
  they hand the tree to, and in any other function of c2profile.py that obtains a parse tree / parsed profile, nothing
  that MAY BE A PART of the tree (may-alias value flow through attributes, items, iteration, unpacking, navigation
  methods, constructor arguments, calls of package functions; fresh collections of parts are told apart from parts) is
  the target of a mutator call, an item/slice store or delete, a store to `.children`/`.data`, an in-place `+=`.
  The builder API (`set_option` ...: methods that never see a parser result) is not concerned.  A part handed to lark's
  `visit`/`transform` dispatch -> undecided.

* R9 (every statement form of the profile language is still accepted in its block context): the compiled grammar is turned
  into its language view - block context (stack of enclosing block keywords) -> the terminal sequences of the statement
  forms accepted there (`set verb <STRING> ;`, `header <STRING> <STRING> ;`, `metadata { }`, `http-get <STRING> { }`) -
  looking through everything that leaves no token (rule names, `?`/`_` rules, unit productions, lark's repetition helpers,
  the steps/termination wrapper, alternative order, shared rule or one copy per block; nonterminals outside the braces are
  replaced by the finitely many token sequences they derive, the OPTION terminal by its words).  The view is compared
  completely with the reference table `_LANGUAGE` (34 contexts, 320 forms).  A reference form missing from its context is
  a statement the parser now rejects and a tree the reconstructor cannot print -> violated (reported once, at the outermost
  context: the contexts inside a lost block are not listed again).  Further forms are no concern.  A production the view
  cannot render (recursion / a block outside braces, too many alternatives) makes the contexts at and below it that miss a
  form undecided.

* R10 (every keyword / option word is lexed whole - the assumption under which R9 may replace a terminal by its words):
  python's alternation is leftmost-first; lark joins the string alternatives of ONE terminal longest-first and tries the
  terminals of a state in the order (priority, width, pattern length, name).  (a) in the compiled pattern of a terminal
  that is a finite alternation of literals no word stands behind a proper prefix of itself (order of the syntax tree,
  depth first) - sub-terminals inside a terminal are ordered per group only, a hand-written regexp not at all; (b) no
  state of the LALR table accepts two non-ignored terminals of which the one tried first has a word that is a proper
  prefix of a word of the other.  A regexp terminal with an alternation that is not a finite set of literals -> undecided
  (STRING is R6's subject).
* R11 (every node is printed by lark's tree matcher): the class of the reconstructor object is lark's own, or a package
  subclass that overrides nothing of lark's Reconstructor API, or one whose `_reconstruct(tree)` override hands the same
  node to the inherited method on every emitting path.  A shortcut path (an emission that is not that delegation) is judged
  by case analysis over the grammar's tree names against the literals its dominating tests compare `tree.data` with: some
  admitted name has a production with filtered terminals, all tests of the path are understood and the emission is
  computed from the node alone -> violated (the filtered tokens are not in the node; a node NAME is shared by
  productions of different rules, only the matcher tells them apart).  A test the rule does not understand, an emission
  using other data, a path without emission, other overridden API methods -> undecided.

Undecided (never violated): no reconstruct call / no post-processor function can be located, or the post-processor has
a form the value flow does not recognise (`_Undecided`, `_Unk` values: several buffers, a pipeline of generators, zip or
comprehension based emission, `try`/`with`/general `while`).  Nothing of /repo is imported or executed.

Technique (numbers: RULES_GUIDE "What counts as static here", ALLOWED 1-6)
  R1  6 (compiled grammar as a table: rules grouped by (tree name, kept symbols), complete comparison of the filtered
      keyword sequences of each group); trusted: lark's TreeMatcher merge rule.
  R2  6 (terminal table: kind and name of every used terminal, the %ignore set) + 1/6 (constant keyword arguments of the
      Lark.open call read from the AST).
  R3  1 (locating renderer / reader / post-processor / parser object by role: resolved callees, argument binding of the
      lark API, single-definition substitution, the binding sites of a module-level name in the module's own scope);
      3 (path-wise value flow with symbolic terms; the loop over the stream and every
      inner loop analysed once with symbolic loop-carried values; structural / polynomial-normal-form comparison of
      segment bounds; argument binding into package helpers, lambda, functools.partial); 2 (both outcomes of a test are
      followed unless the facts of the path decide it; facts added per outcome); 4 (small abstract domains: integer
      polynomials over n / loop positions with the linear prover `_ge0`, whitespace-ness of strings, list length;
      lemmas L1 loop-position bounds, L2 `a + b*n >= 0 for n >= 1 iff b >= 0 and a + b >= 0`, L3 slices clip and
      `s[:c] ++ s[c:] == s`, L4 range/enumerate visit positions in order, LT which str operations keep the text, LX
      `{` `}` `;` are self-delimiting - checked against the terminal table); 5 (the item's lexeme set: case analysis over
      the grammar's terminal vocabulary against the literals the post-processor compares with); 6 (LAST(start) by
      fixpoint over the compiled rules; regexp terminals inspected as syntax trees; constant folding of constant
      expressions such as `" " * 4`, `frozenset("{};")`).  Assumptions A1 (the stream is a sentence of the grammar), A2
      (line length is unbounded).  No stream, line length or item text is ever chosen by the checker.
  R5  6 (every block rule of the compiled grammar has an alternative with an empty body).
  R9  6 (the compiled production table folded into the table block context -> statement forms by one walk over the
      productions from `start`, memoised per (nonterminal, context); regexp terminals that are a finite alternation of
      literals read off their syntax tree; complete comparison with the reference table `_LANGUAGE` of this module) +
      5 (the vocabulary is the grammar's own productions and the reference table).  No profile text is formed, lexed or
      parsed.
  R6  imported C12.R4 (regex syntax tree of the STRING terminal) - see rules/c12.py.
  R7  6 (compiled terminal table: priority, width, pattern of every terminal, compared completely in lark's documented
      lexer order; regexp terminals and string terminals inspected as syntax trees: first-character classes, the shape
      F C* of an ignored terminal, existence of a word of another terminal inside F C* by a walk over its tree with a
      two-valued state) + 5 (the terminal vocabulary is the grammar's own).  No text is lexed, no sample string is formed.
  R10 6 (compiled terminal table: the words of every terminal in the order of its regex syntax tree, lark's documented
      terminal order, the action table of the compiled LALR parser for `which terminals does one state accept`; words
      compared with each other for the proper-prefix relation) + 5 (the vocabulary is the grammar's own).  No text is
      lexed, no `re` is run.
  R11 1 (class of the reconstructor object by resolved callee and base classes; method names compared with the attribute
      names of lark's Reconstructor class) + 2 (dominating branch tests of an emission, CFG reachability of the exit
      avoiding the emissions) + 5 (case analysis over the tree names of the compiled grammar against the literals the
      tests compare the node name with) + 3 (locals computed from the node alone: def-use fixpoint) + 6 (filtered
      terminals of the productions that share a tree name).
  R8  1 (reader / renderer by role, resolved callees, argument binding) + 3 (def-use / may-alias value flow over names and
      dotted paths, flow-insensitive fixpoint per function, summaries of package callees per abstract argument kinds);
      the abstract domain has three values (part of the tree / fresh collection of parts / profile holding a tree).

R12  (round 8, seeded C10o) keyword literals are matched case-sensitively: every string terminal that occurs filtered-out in a
     production and contains a cased character has no `i` flag - the parser does not keep the token and the reconstructor writes
     the grammar's spelling, so a case-insensitive keyword accepts sources whose keyword sequence the regenerated text does not
     reproduce although the re-parsed tree is identical.  Technique: query over the terminal table and the productions of the
     compiled grammar (lark as loader), one obligation per keyword literal, instance floor 137.
"""

from __future__ import annotations

import ast
import copy
import itertools
from collections import defaultdict
from fractions import Fraction

from csverif.absint import SymPoly
from csverif.astutil import assignments_to, compare_parts, dotted, kwarg, params, src, strip_cast
from csverif.grammar import Grammar
from csverif.loader import Func
from csverif.q import inline

MOD = "c2profile"


def run(ctx):
    rep = ctx.rep
    rep.explanation = (
        "Static analysis of the compiled Lark grammar c2profile.lark (loaded with the options of the Lark.open call in "
        "c2profile.py): the reachable expanded rules are grouped by the key lark's Reconstructor/TreeMatcher matches a tree "
        "node on - (tree name = alias or origin, sequence of non-filtered symbols); every group must have exactly one "
        "sequence of filtered keyword tokens, otherwise the second keyword is printed as the first. Exhaustive over the "
        "finite rule set. Plus terminal kinds (kept regexp terminals are named, filtered terminals are plain strings), and a "
        "token-preservation proof of the whitespace post-processor handed to Reconstructor.reconstruct: an inductive "
        "argument over ONE arbitrary iteration of its loop over the item stream, by path-wise value flow with symbolic terms "
        "(line length n and loop positions are symbols, the buffer is the segment W[0:n-1] of the items drawn, inner loops "
        "are summarised from one walk of their body; nothing is executed and no input stream is chosen): on every path "
        "yielded items ++ buffer == W, each item unchanged, once, in order, words kept apart; the paths that keep the "
        "buffer are not taken for the symbols a sentence of the grammar can end with (LAST set of `start`, computed from "
        "the rules). Plus (R9) the language view of the compiled grammar (block context -> terminal sequences of the statement forms accepted there, looking through rule names, "
        "inline / unit productions and repetition helpers) covers the reference table of the profile language: every block, variant form, option, data-transform, execute and "
        "BeaconGate statement is still accepted where it was. Plus as_text/from_text use the same parser on the profile's own tree / source. Plus (R7) the ignored "
        "terminals (comments, whitespace) keep lexical precedence: no terminal of a reachable rule that lark's lexer tries "
        "earlier (order: priority, width, pattern length, name; first match wins) has a word that begins a comment / "
        "whitespace word - decided on the terminal table and regex syntax trees. Plus (R8) no function that obtains the "
        "parser's tree (reader, renderer, what they call, any other function of c2profile.py that gets a parsed profile) "
        "structurally modifies a part of it - a may-alias value flow from the `.parse(...)` result / the profile's `.tree` to "
        "mutator calls, item stores / deletes and `.children` / `.data` stores. Plus (R10) every keyword / option word is lexed whole: in the compiled pattern of an alternation terminal "
        "(OPTION) no word stands behind a proper prefix of itself in python's leftmost-first order, and no state of the LALR table accepts two terminals of which the one lark's lexer tries first has a "
        "word that is a proper prefix of a word of the other. Plus (R11) the reconstructor object is lark's Reconstructor, or a package subclass whose per-node step `_reconstruct` hands every node to the "
        "inherited tree matcher; a shortcut path that is taken for a node name with a production whose keywords are filtered out of the tree is a violation."
    )
    rep.not_decided = ["text equality for all sentences of the language", "whitespace handling by the lexer",
                       "R3: which parser object a module-level name denotes when it is not bound (only) to lark `Lark(...)` / `Lark.open(...)` constructions (result of a loader function, "
                       "rebinding through `global`): undecided",
                       "post-processors of another shape than `buffer the items of a line, write the line out on a terminator` (several buffers, a pipeline of generators, "
                       "zip/comprehension based emission, try/with/while forms): undecided, never violated",
                       "feasibility of a path whose branch tests the analysis treats as opaque (membership of a constant in the buffer, predicates on the item text): both outcomes are followed",
                       "R7: terminals with regex flags, ignored terminals of another shape than F C* / C+ when a terminal that may start alike is tried before them (undecided); whether an ignored "
                       "terminal shadows a production (the `\"#\" \"dns_resolver\"` line can never be lexed: it is printed as a comment and read as one)",
                       "R8: modifications of the tree by code outside the package that is handed a part of it (lark's visit / transform dispatch: undecided; other library calls: trusted not to "
                       "modify), by methods the application calls between from_text and as_text (builder API), through a `tree` property / __setattr__ hook, or through aliases kept in containers"]
    rep.not_decided.append("R9: statement forms the grammar accepts beyond the reference table (additions are not judged); the ORDER constraints inside a block (steps before the termination "
                           "statement of a data transform); productions the language view cannot render (a block or recursion outside the braces of a production): undecided")
    rep.not_decided.append("R10: regexp terminals with an alternation that is not a finite set of literals (undecided); lexing of STRING (R6)")
    rep.not_decided.append("R11: overrides of other methods of lark's Reconstructor API than `_reconstruct`, a subclass with several bases or a constructor of its own, shortcut paths guarded by tests "
                           "other than comparisons of `tree.data` with literals or emitting data that is not computed from the node: undecided")
    rep.trusted_base = ["lark 1.3.1 grammar loader and its TreeMatcher grouping rule (lark/tree_matcher.py: rules equal on (origin, kept expansion) are merged, first wins)",
                        "lark 1.3.1 Reconstructor.reconstruct(tree, postproc=None, insert_spaces=True): the item stream (one str per terminal of the matched rules, in sentence order) is passed "
                        "through postproc and joined; with insert_spaces a space is put between two consecutive non-empty yielded strings whose facing characters are identifier characters",
                        "reference table `_LANGUAGE` in rules/c10.py: the statement forms of the Malleable C2 profile language per block context (34 contexts, 320 forms) as supported by the "
                        "grammar this checker was written against - the meaning of `every statement form the grammar supports` in the property",
                        "CPython ast; python's sre parser for the syntax tree of regexp terminals",
                        "python `re`: an alternation takes the first alternative (in pattern order, depth first) with which the rest of the pattern matches - for a terminal that is a finite "
                        "alternation of literals, the first word in that order that is a prefix of the text (R10)",
                        "lark 1.3.1 contextual lexer: the scanner of a parser state holds the terminals the state's action table accepts plus the ignored ones (lark/lexer.py ContextualLexer); "
                        "lark's compiled LALR action table (parser.parser._parse_table.states) is read as data",
                        "lark 1.3.1 Reconstructor._reconstruct(tree) is the per-node step: it is called for the root and, recursively through `self._reconstruct`, for every subtree; the parser "
                        "does not store filtered-out terminals in the tree (R11)",
                        "lark 1.3.1 lexer (lark/lexer.py): BasicLexer sorts the terminals by (-priority, -max_width, -len(pattern), name) and its Scanner joins them into one alternation, so the "
                        "first terminal in that order that matches at a position wins; the contextual lexer does the same per parser state with the terminals the state accepts plus the ignored ones",
                        "lark Tree / Token API: a Tree's tokens live in `.children` (recursively) and `.data`; Tree.copy() shares the children list; Token is an immutable str; "
                        "what lark's Reconstructor itself does with the tree it is handed is outside R8",
                        "assumption A1: the stream handed to the post-processor is a sentence of c2profile.lark (it is produced from a tree the same grammar matched), so it ends with a symbol of LAST(start)",
                        "assumption A2: the number of items between two terminators is not bounded by a constant (a constant-bounded slice of the line buffer is not the whole buffer)",
                        "lemma L1: a polynomial linear in a loop position j, 0 <= j <= count-1, is minimal at j=0 (positive coefficient) or j=count-1 (negative coefficient)",
                        "lemma L2: a + b*n >= 0 for every line length n >= 1 iff b >= 0 and a + b >= 0",
                        "lemma L3: python slicing clips, so s[:c] ++ s[c:] == s for every c; s[a:b] with 0 <= a <= b <= len(s) proved is the segment [a, b)",
                        "lemma L4: for i in range(a, b) with a <= b visits a, a+1, ..., b-1 in order; enumerate(s, k) pairs position j with s[j] and index j+k",
                        "lemma LT: an item of the stream is a non-empty lexeme; str(x) and '{}'/'%s'/f'{x}' formatting without conversion or format spec return the text of a str unchanged; "
                        "str methods strip/replace/lower/... , slicing and repr may change it",
                        "lemma LX (checked against the terminal table): the characters `{`, `}`, `;` occur in no terminal other than themselves and the quote-delimited STRING, hence a `{`/`}`/`;` "
                        "next to any text is a lexeme of its own; a whitespace-only string repeated any number of times is whitespace or empty"]
    rep.exhaustive = True
    g = Grammar(ctx.repo)
    rep.extra["lark_options"] = {k: v for k, v in g.options.items()}
    rep.count("expanded_rules", len(g.rules), floor=240)
    rep.count("tree_names", len({r.tree_name for r in g.rules}), floor=155)
    rep.count("terminals", len(g.terminals), floor=140)
    r1(ctx, g)
    r2(ctx, g)
    r3(ctx, g)
    r5(ctx, g)
    r9(ctx, g)
    r7(ctx, g)
    r10(ctx, g)
    r11(ctx, g)
    r8(ctx, g)
    r12(ctx, g)
    # the STRING terminal decides where a literal ends: its regex structure (C12.R4) is a necessary condition for every
    # valid profile to lex into the tokens written
    from rules import c12

    ctx.import_obligations("R6", c12.r4)


def r1(ctx, g: Grammar):
    groups = defaultdict(list)
    for r in g.rules:
        groups[(r.tree_name, r.kept)].append(r)
    n = 0
    for (name, kept), rs in sorted(groups.items(), key=lambda kv: (kv[0][0], str(kv[0][1]))):
        if name.startswith("__"):
            continue
        n += 1
        variants = sorted({r.filtered for r in rs})
        ok = len(variants) == 1
        kept_s = " ".join(k for k, _t in kept) or "<empty>"
        detail = (f"{len(rs)} production(s) share tree name {name!r} and kept symbols [{kept_s}]; keyword sequences: "
                  + " | ".join(" ".join(v) for v in variants))
        if not ok:
            first = min(rs, key=lambda r: r.order)
            detail += f" -> the reconstructor prints every such node as `{' '.join(first.filtered)}`"
        ctx.rep.ob("R1", "GRAM", f"c2profile.lark::{name}::[{kept_s}]", ok, detail, "dissect/cobaltstrike/c2profile.lark", 0, nontrivial=len(rs) > 1)
    ctx.rep.count("reconstruction_groups", n, floor=150)


def r2(ctx, g: Grammar):
    used = set()
    for r in g.rules:
        for s in r.expansion:
            if s.is_term:
                used.add((s.name, s.filter_out))
    for name, filt in sorted(used):
        kind, val = g.terminals.get(name, ("?", None))
        if filt:
            ok = kind == "str"
            ctx.rep.ob("R2", "GRAM", f"c2profile.lark::terminal {name}", ok, f"filtered terminal is a plain string {val!r} (re-insertable)" if ok else f"filtered terminal {name} is a regexp: its text cannot be re-inserted",
                       "dissect/cobaltstrike/c2profile.lark", 0, nontrivial=False)
        else:
            ok = not name.startswith("_") and not name.startswith("__ANON")
            ctx.rep.ob("R2", "GRAM", f"c2profile.lark::terminal {name}", ok, f"kept terminal {name} ({kind}) is named: its text survives in the tree" if ok else f"kept terminal {name} is anonymous/filtered by name",
                       "dissect/cobaltstrike/c2profile.lark", 0)
    kept_terms = sorted(n for n, f in used if not f)
    ctx.ob("R2", "GRAM", "c2profile.lark", "kept terminals", kept_terms == ["OPTION", "STRING"], f"terminals kept in the tree: {kept_terms} (OPTION and STRING carry all variable text)")
    o = g.options
    ctx.ob("R2", "GRAM", "c2profile.py::Lark.open", "options", o.get("parser") == "lalr" and o.get("maybe_placeholders") is False and not o.get("keep_all_tokens"),
           f"parser options {o}: the Reconstructor requires maybe_placeholders=False")
    ctx.ob("R2", "GRAM", "c2profile.lark", "%ignore", g.ignored == {"WS", "SH_COMMENT", "NEWLINE"}, f"ignored terminals {sorted(g.ignored)} (whitespace and comments only)")



def _own_nodes(fn):
    """All nodes of a function's own body in source order: nested defs / lambdas / classes are yielded but not entered
    (csverif.astutil.body_walk enters a def that is a direct child of the body)."""
    stack = list(reversed(fn.body)) if isinstance(getattr(fn, "body", None), list) else [fn.body]
    while stack:
        n = stack.pop()
        yield n
        if isinstance(n, (ast.FunctionDef, ast.AsyncFunctionDef, ast.ClassDef, ast.Lambda)):
            continue
        stack.extend(reversed(list(ast.iter_child_nodes(n))))


_FN_INDEX = {}


def _fn_index(fn):
    """(own node ids, nested defs by name, is-generator) of a function node, cached."""
    hit = _FN_INDEX.get(id(fn))
    if hit is None or hit[0] is not fn:
        nodes = list(_own_nodes(fn))
        nested = {}
        for n in nodes:
            if isinstance(n, ast.FunctionDef):
                nested[n.name] = n
        gen = not isinstance(fn, ast.Lambda) and any(isinstance(n, (ast.Yield, ast.YieldFrom)) for n in nodes)
        hit = (fn, {id(n) for n in nodes}, nested, gen, {})
        _FN_INDEX[id(fn)] = hit
    return hit


def _own_assignments(fn, name):
    idx = _fn_index(fn)
    if name not in idx[4]:
        idx[4][name] = [(st, v) for st, v in assignments_to(fn, name) if id(st) in idx[1]]
    return idx[4][name]


def _is_generator(node) -> bool:
    return _fn_index(node)[3]



# =====================================================================================================================
# Path-wise value flow of the post-processor (a generator), private to this module.
#
# Nothing is executed and no input is chosen: the analysis walks the paths of the function once, values are symbolic
# TERMS, branch outcomes stay symbolic (both outcomes are followed unless the facts collected on the path decide the test),
# and every loop body is analysed ONCE with its loop-carried values symbolic:
#
# * the loop that draws the items from the stream is analysed for one arbitrary iteration.  W is the sequence "buffer at
#   the loop head ++ [the item drawn]", n = len(W) >= 1 is a symbol; the item is the term W[n-1], the buffer at the head
#   is the segment W[0:n-1] (induction hypothesis; base case: the buffer is empty before the loop).  For every path
#   through the body the rule checks the inductive step   tokens(yielded on the path) ++ buffer at the end == W;
# * an inner loop (over the buffer, a slice of it, an index range) is summarised from one walk of its body with the
#   position j symbolic (0 <= j < count): what it appends to each sink (the output, a local list) per iteration;
# * integers are polynomials over n, j and opaque atoms (csverif.absint.SymPoly); order facts are proved by the small
#   linear prover `_ge0` (lemmas L1, L2 below) or taken from the branch tests of the path;
# * what an item may be is a subset of the grammar's terminal vocabulary (`_Lexicon`), refined by the comparisons of the
#   path against the literals the code itself compares with.
# =====================================================================================================================
_N = SymPoly.atom("n")
_DELIM_CHARS = ("{", "}", ";")
_STRING_CLASS = "<STRING>"  # any text of the regexp terminal STRING (quote-delimited)
_WORD_CLASS = "<WORD>"  # any text of another regexp terminal


def _k(c):
    return SymPoly.const(c)


class _Undecided(Exception):
    """The code uses a form the analysis does not recognise -> the obligations are undecided."""


class _Imm:
    """Immutable abstract value: shared between the states of different paths."""

    __slots__ = ()

    def __deepcopy__(self, memo):
        return self

    def __copy__(self):
        return self


class _Str(_Imm):
    """A string term: concatenation of parts
    ("txt", s) constant text | ("ws", None) whitespace of unknown, possibly zero, length | ("tok", idx) the unchanged text
    of stream item W[idx] | ("join", seq parts, sep _Str, reversed) | ("alt", how) item text that went through an operation
    that can change it."""

    __slots__ = ("parts",)

    def __init__(self, parts=()):
        merged = []
        for p in parts:
            if p[0] == "txt":
                if p[1] == "":
                    continue
                if merged and merged[-1][0] == "txt":
                    merged[-1] = ("txt", merged[-1][1] + p[1])
                    continue
            merged.append(p)
        self.parts = tuple(merged)

    @property
    def text(self):
        if all(p[0] == "txt" for p in self.parts):
            return "".join(p[1] for p in self.parts)
        return None

    def tok(self):
        if len(self.parts) == 1 and self.parts[0][0] == "tok":
            return self.parts[0][1]
        return None

    def symbolic(self):
        return any(p[0] in ("tok", "join", "alt") for p in self.parts)

    def blank(self):
        """Only whitespace (of known or unknown length)."""
        return all(p[0] == "ws" or (p[0] == "txt" and p[1].isspace()) for p in self.parts)

    def __eq__(self, o):
        return isinstance(o, _Str) and self.parts == o.parts

    def __hash__(self):
        return hash(self.parts)

    def __repr__(self):
        out = []
        for p in self.parts:
            out.append(repr(p[1]) if p[0] == "txt" else "<ws>" if p[0] == "ws" else f"W[{p[1]!r}]" if p[0] == "tok" else f"<{p[0]}>")
        return "+".join(out) or "''"


def _S(text):
    return _Str((("txt", text),))


def _T(idx):
    return _Str((("tok", idx),))


class _Num(_Imm):
    __slots__ = ("p",)

    def __init__(self, p):
        self.p = p if isinstance(p, SymPoly) else _k(p)

    def const(self):
        c = self.p.const_value()
        return int(c) if c is not None and c.denominator == 1 else None

    def __eq__(self, o):
        return isinstance(o, _Num) and self.p == o.p

    def __hash__(self):
        return hash(self.p)

    def __repr__(self):
        return f"int({self.p!r})"


class _Opq(_Imm):
    """A scalar the analysis knows nothing about except its identity (the same label is the same value)."""

    __slots__ = ("label",)

    def __init__(self, label):
        self.label = label


class _Unk(_Imm):
    __slots__ = ("why",)

    def __init__(self, why):
        self.why = why


class _Fn(_Imm):
    """A function of the package with arguments bound by functools.partial / a receiver."""

    __slots__ = ("func", "node", "pos", "kw", "recv")

    def __init__(self, func, node, pos=(), kw=None, recv=False):
        self.func = func  # Func (module / class / static parent); for a lambda: the function it is written in
        self.node = node
        self.pos = tuple(pos)
        self.kw = dict(kw or {})
        self.recv = recv


class _Ext(_Imm):
    __slots__ = ("name",)

    def __init__(self, name):
        self.name = name


class _Stream(_Imm):
    """The item stream handed to the post-processor (or an iterator / list of it: same items, same order)."""

    __slots__ = ()


class _Lst:
    """A list term: parts ("seg", lo, hi, note) the items W[lo:hi] | ("one", value) | ("rep", _Rep)."""

    _ids = itertools.count(1)

    def __init__(self, parts=()):
        self.uid = next(_Lst._ids)
        self.ver = 0  # bumped by every mutation that is not an append
        self.parts = list(parts)


class _Gen:
    """A call of a generator function of the package that has not been consumed yet."""

    def __init__(self, fn, env):
        self.fn = fn
        self.env = env


class _Iter:
    """enumerate / range / reversed over list terms."""

    def __init__(self, kind, a, b=None):
        self.kind = kind
        self.a = a
        self.b = b


class _RAlt(_Imm):
    """One path through the body of a summarised loop: the facts at its end and what it appended to each sink."""

    __slots__ = ("lex", "ge0", "deltas")

    def __init__(self, lex, ge0, deltas):
        self.lex = lex
        self.ge0 = ge0
        self.deltas = deltas


class _Rep(_Imm):
    """Summary of a loop `for j in [0, count)`: per iteration one of `alts`."""

    __slots__ = ("atom", "count", "alts", "what")

    def __init__(self, atom, count, alts, what):
        self.atom = atom
        self.count = count
        self.alts = alts
        self.what = what


class _Frame:
    def __init__(self, func, env, static_from):
        self.func = func  # Func being walked (None: module level)
        self.env = env
        self.static_from = static_from  # Func whose scope free names are looked up in first (None: the module)

    def __deepcopy__(self, memo):
        return _Frame(self.func, copy.deepcopy(self.env, memo), self.static_from)


class _State:
    def __init__(self):
        self.frames = []
        self.out = _Lst()
        self.lex = {}  # token index (SymPoly) -> frozenset of lexemes the item can be
        self.ge0 = []  # polynomials known to be >= 0 on this path
        self.loops = []  # (atom, count): 0 <= atom <= count - 1
        self.unk = []  # why this path is undecided
        self.viol = []  # (kind, text) defects established on this path
        self.opq = {}  # label of an opaque test -> outcome chosen on this path

    def clone(self):
        return copy.deepcopy(self)

    def lists(self):
        seen, out, stack = set(), [], [self.out]
        for fr in self.frames:
            stack.extend(fr.env.values())
        while stack:
            v = stack.pop()
            if id(v) in seen:
                continue
            seen.add(id(v))
            if isinstance(v, _Lst):
                out.append(v)
                stack.extend(p[1] for p in v.parts if p[0] == "one")
            elif isinstance(v, (tuple, list, frozenset)):
                stack.extend(v)
            elif isinstance(v, _Gen):
                stack.extend(v.env.values())
            elif isinstance(v, _Iter):
                stack.extend([v.a, v.b])
        return out


# ---------------------------------------------------------------------------------------------- polynomial order facts
def _lin(p, atom):
    """p == c * atom + rest with atom not in rest -> (c, rest), else None (non-linear)."""
    c, rest = Fraction(0), {}
    for mon, v in p.terms.items():
        if atom in mon:
            if mon != (atom,):
                return None
            c = v
        else:
            rest[mon] = v
    return c, SymPoly(rest)


def _basic_ge0(p, loops) -> bool:
    """p >= 0 for all admissible values of its atoms?
    L1 (bounds of a loop position): a polynomial linear in j with 0 <= j <= count-1 is minimal at j = 0 if its coefficient
        is positive and at j = count-1 if it is negative.
    L2 (line length): a + b*n with n >= 1 is >= 0 for all n iff b >= 0 and a + b >= 0."""
    for atom, cnt in reversed(loops):
        if atom in p.atoms():
            sp = _lin(p, atom)
            if sp is None:
                return False
            c, rest = sp
            p = rest if c > 0 else rest + (cnt - _k(1)) * _k(c)
    if set(p.terms) - {(), ("n",)}:
        return False
    a, b = p.terms.get((), Fraction(0)), p.terms.get(("n",), Fraction(0))
    return b >= 0 and a + b >= 0


def _ge0(st, p) -> bool:
    if _basic_ge0(p, st.loops):
        return True
    return any(_basic_ge0(p - f, st.loops) for f in st.ge0)  # p >= f and f >= 0


def _at_upper(p, loops):
    """p with every loop position replaced by its last value (None if not linear)."""
    for atom, cnt in reversed(loops):
        if atom in p.atoms():
            sp = _lin(p, atom)
            if sp is None:
                return None
            c, rest = sp
            p = rest + (cnt - _k(1)) * _k(c)
    return p


def _sign_for_long_lines(p):
    """For a polynomial in n alone: "zero", "pos" (>= 1 for every n >= 1), "neg" (<= -1 for every n >= 1), "pos-long" /
    "neg-long" (positive / negative for all sufficiently long lines - lines are not bounded in length), else None."""
    if set(p.terms) - {(), ("n",)}:
        return None
    a, b = p.terms.get((), Fraction(0)), p.terms.get(("n",), Fraction(0))
    if a == 0 and b == 0:
        return "zero"
    if b >= 0 and a + b >= 1:
        return "pos"
    if b <= 0 and a + b <= -1:
        return "neg"
    if b > 0:
        return "pos-long"
    if b < 0:
        return "neg-long"
    return None


# ---------------------------------------------------------------------------------------------- list terms
def _canon(parts):
    """Adjacent segments / single unchanged items merged: [W[0:n-1], W[n-1]] == [W[0:n]]."""
    out = []
    for p in parts:
        if p[0] == "one" and isinstance(p[1], _Str) and p[1].tok() is not None:
            i = p[1].tok()
            p = ("seg", i, i + _k(1), None)
        if p[0] == "seg":
            if p[1] == p[2]:
                continue
            if out and out[-1][0] == "seg" and out[-1][2] == p[1] and not out[-1][3] and not p[3]:
                out[-1] = ("seg", out[-1][1], p[2], None)
                continue
        out.append(p)
    return out


def _length(parts):
    n = _k(0)
    for p in parts:
        if p[0] == "seg":
            n = n + (p[2] - p[1])
        elif p[0] == "one":
            n = n + _k(1)
        else:
            return None
    return n


# ---------------------------------------------------------------------------------------------- the item vocabulary
def _regex_tree(pattern):
    try:
        import re._parser as sre  # python >= 3.11
    except ImportError:  # pragma: no cover
        import sre_parse as sre
    try:
        return list(sre.parse(pattern))
    except Exception:
        return None


def _regex_literals(seq, limit=4000):
    """The finite set of strings a regex syntax tree made of literals, alternations and groups denotes (else None)."""
    outs = [""]
    for op, arg in seq:
        name = str(op)
        if name == "LITERAL":
            outs = [o + chr(arg) for o in outs]
        elif name == "BRANCH":
            alts = []
            for a in arg[1]:
                sub = _regex_literals(list(a), limit)
                if sub is None:
                    return None
                alts.extend(sub)
            outs = [o + s for o in outs for s in alts]
        elif name == "SUBPATTERN":
            sub = _regex_literals(list(arg[-1]), limit)
            if sub is None:
                return None
            outs = [o + s for o in outs for s in sub]
        else:
            return None
        if len(outs) > limit:
            return None
    return outs


class _Lexicon:
    """What an item of the reconstructor's stream can be: the text of a terminal of a reachable rule.  String terminals
    and regexp terminals that are a finite alternation of literals are enumerated from the compiled grammar; any other
    regexp terminal is a class (`<STRING>` if its syntax tree starts and ends with a literal double quote)."""

    def __init__(self, g: Grammar):
        self.vocab = set()
        self.classes = {}
        self.notes = []
        used = {s.name for r in g.rules for s in r.expansion if s.is_term}
        self.of_terminal = {}
        for name in sorted(used):
            kind, val = g.terminals.get(name, ("?", None))
            if kind == "str":
                lex = {val}
            else:
                tree = _regex_tree(val) if isinstance(val, str) else None
                lits = _regex_literals(tree) if tree is not None else None
                if lits is not None:
                    lex = set(lits)
                elif tree and str(tree[0][0]) == "LITERAL" and tree[0][1] == 34 and str(tree[-1][0]) == "LITERAL" and tree[-1][1] == 34:
                    lex = {_STRING_CLASS}
                else:
                    lex = {_WORD_CLASS}
                    self.notes.append(f"regexp terminal {name} is neither a literal alternation nor quote-delimited")
            self.of_terminal[name] = lex
            self.vocab |= lex
        self.all = frozenset(self.vocab)
        # lexical lemma LX: `{`, `}`, `;` are lexemes of their own - the character occurs in no other terminal except inside
        # the quote-delimited STRING, so text next to it cannot fuse with it.  Checked here against the terminal table.
        self.delims = frozenset(d for d in _DELIM_CHARS if d in self.vocab)
        self.delims_ok = _WORD_CLASS not in self.vocab and all(not (d in v and v != d) for d in self.delims for v in self.vocab if not v.startswith("<"))
        # lexical lemma LA: every lexeme is either word-like (starts and ends with an identifier character - lark's space insertion
        # between two adjacent yielded items then applies exactly where two words would fuse), or a STRING (faces its neighbours
        # with a quote), or made of punctuation characters that occur in no word-like lexeme (`{`, `}`, `;`, `#`: text next to
        # it cannot become part of it, with or without whitespace).  Checked here against the terminal table.
        def idc(ch):
            return ch.isalnum() or ch == "_"

        plain = [v for v in self.vocab if v and not v.startswith("<")]
        punct = {v for v in plain if not any(idc(ch) for ch in v)}
        words = [v for v in plain if v not in punct]
        self.adj_ok = (_WORD_CLASS not in self.vocab and "" not in self.vocab and all(idc(v[0]) and idc(v[-1]) for v in words)
                       and not any(ch in w for p in punct for ch in p for w in words))
        self.last = self._last(g)

    @staticmethod
    def _last(g: Grammar):
        """Terminals that can be the last symbol of a sentence derived from `start` (fixpoint over the expanded rules)."""
        nullable = set()
        changed = True
        while changed:
            changed = False
            for r in g.rules:
                if r.origin not in nullable and all((not s.is_term) and s.name in nullable for s in r.expansion):
                    nullable.add(r.origin)
                    changed = True
        last = defaultdict(set)
        changed = True
        while changed:
            changed = False
            for r in g.rules:
                for s in reversed(r.expansion):
                    add = {s.name} if s.is_term else last[s.name]
                    if not add <= last[r.origin]:
                        last[r.origin] |= add
                        changed = True
                    if s.is_term or s.name not in nullable:
                        break
        return set(last.get("start", set()))

    def last_lexemes(self):
        out = set()
        for t in self.last:
            out |= self.of_terminal.get(t, {_WORD_CLASS})
        return out

    # -- three-valued comparison of a lexeme with constants the code compares against
    @staticmethod
    def eq(v, c):
        if v == _STRING_CLASS:
            return None if len(c) >= 2 and c[0] == '"' and c[-1] == '"' else False
        if v == _WORD_CLASS:
            return None if c and not c.isspace() else False
        return v == c

    @staticmethod
    def within(v, c):
        """`v in c` for a constant string c (substring test)."""
        if v == _STRING_CLASS:
            return None if c.count('"') >= 2 else False
        if v == _WORD_CLASS:
            return None if c.strip() else False
        return v in c


# ---------------------------------------------------------------------------------------------- the walker: expressions
_STR_PREDICATES = {"startswith", "endswith", "isspace", "isalpha", "isalnum", "isdigit", "isidentifier", "islower", "isupper", "isnumeric", "isdecimal", "isprintable", "isascii"}
_STR_TRANSFORMS = {"strip", "lstrip", "rstrip", "replace", "lower", "upper", "title", "capitalize", "ljust", "rjust", "center", "zfill", "expandtabs", "removeprefix", "removesuffix",
                   "casefold", "swapcase", "translate", "encode"}
_BUILTIN_NAMES = {"len", "range", "enumerate", "zip", "list", "tuple", "set", "frozenset", "dict", "str", "int", "bool", "isinstance", "min", "max", "sum", "abs", "any", "all",
                  "reversed", "sorted", "iter", "next", "print", "repr", "bytes", "float", "object", "type"}
_MAX_PATHS = 400
_MAX_DEPTH = 6


class _Flow:
    def __init__(self, ctx, lx: _Lexicon, insert_spaces: bool):
        self.ctx = ctx
        self.lx = lx
        self.insert_spaces = insert_spaces
        self.fresh = itertools.count(1)
        self.static_cache = {}
        self.depth = 0
        self.npaths = 0
        self.in_main = False
        self.n_main = 0
        self.taint = []  # defects: what is yielded is not the stream
        self.flush = []  # defects: items dropped / left in the buffer
        self.unk = []  # reasons for "undecided"
        self.stats = {"iteration_paths": 0, "flush_paths": 0, "inner_loops": 0}
        self.nonflush_lex = set()
        self.flush_lex = set()

    # ------------------------------------------------------------------------------------------------ bookkeeping
    def note(self, kind, text):
        tgt = {"taint": self.taint, "flush": self.flush, "unk": self.unk}[kind]
        if text not in tgt:
            tgt.append(text)

    def fork(self, st):
        self.npaths += 1
        if self.npaths > _MAX_PATHS:
            raise _Undecided("too many paths through the post-processor")
        return st.clone()

    # ------------------------------------------------------------------------------------------------ names
    def lookup(self, name, st):
        fr = st.frames[-1]
        if name in fr.env:
            return fr.env[name]
        return self.static_name(fr.static_from, fr.func.module if fr.func is not None else None, name)

    def static_name(self, p, mod, name):
        """A free name: nested def / single assignment of an enclosing function, then the module, then builtins."""
        while p is not None:
            mod = p.module
            key = (p.fq, name)
            if key in self.static_cache:
                return self.static_cache[key]
            nested = _fn_index(p.node)[2].get(name) if not isinstance(p.node, ast.Lambda) else None
            v = None
            if nested is not None:
                q = f"{p.qualname}.{name}"
                fn = p.module.funcs.get(q)
                if fn is None or fn.node is not nested:
                    fn = Func(p.module, q, nested, p.cls, p)
                v = _Fn(fn, nested)
            else:
                defs = _own_assignments(p.node, name) if not isinstance(p.node, ast.Lambda) else []
                if len(defs) == 1 and defs[0][1] is not None and isinstance(defs[0][0], (ast.Assign, ast.AnnAssign)):
                    self.static_cache[key] = _Unk(f"`{name}` is defined in terms of itself")
                    v = self.static_value(p, defs[0][1])
                elif defs:
                    v = _Unk(f"free variable `{name}` has several definitions in the enclosing function")
                elif name in params(p.node):
                    ps = params(p.node)
                    v = _Opq("self") if p.cls and ps and name == ps[0] else _Unk(f"free variable `{name}` is a parameter of the enclosing function")
            if v is not None:
                self.static_cache[key] = v
                return v
            p = p.parent
        if mod is not None:
            key = (mod.name, name)
            if key in self.static_cache:
                return self.static_cache[key]
            v = None
            if name in mod.funcs:
                v = _Fn(mod.funcs[name], mod.funcs[name].node)
            elif name in mod.consts:
                self.static_cache[key] = _Unk(f"`{name}` is defined in terms of itself")
                v = self.static_value(None, mod.consts[name], mod)
            elif len(_module_bindings(mod).get(name, ())) == 1 and _module_bindings(mod)[name][0] is not None:
                # bound once, by an assignment nested in a module-level `with` / `try` / `if`
                self.static_cache[key] = _Unk(f"`{name}` is defined in terms of itself")
                v = self.static_value(None, _module_bindings(mod)[name][0], mod)
            else:
                sym = self.ctx.rs.lookup(mod.name, name)
                if sym is not None and sym.kind == "external":
                    v = _Ext(sym.name or name)
                elif sym is not None and sym.kind == "func":
                    fn = self.ctx.repo.modules[sym.module].funcs.get(sym.name)
                    v = _Fn(fn, fn.node) if fn is not None else None
                elif sym is not None and sym.kind == "class":
                    v = _Ext("cls:" + sym.fq)
                elif sym is not None:
                    v = _Unk(f"module-level name `{name}` ({sym.kind})")
            if v is not None:
                self.static_cache[key] = v
                return v
        if name in _BUILTIN_NAMES:
            return _Ext("builtins." + name)
        return _Unk(f"name `{name}` cannot be resolved")

    def static_value(self, p, e, mod=None):
        """Value of an expression written in function p (None: at module level of `mod`): constants and callables only."""
        st = _State()
        pseudo = Func(p.module if p is not None else mod, (p.qualname + ".<expr>") if p is not None else "<module>", None, p.cls if p is not None else None, p)
        st.frames.append(_Frame(pseudo, {}, p))
        try:
            res = self.ev(e, st)
        except _Undecided as ex:
            return _Unk(str(ex))
        if len(res) != 1 or res[0][0].unk:
            return _Unk(f"`{src(e)[:60]}` is not a constant")
        return res[0][1]

    # ------------------------------------------------------------------------------------------------ expressions
    def evs(self, exprs, st):
        """Evaluate expressions left to right -> [(state, [values])]."""
        acc = [(st, [])]
        for e in exprs:
            nxt = []
            for s, vals in acc:
                for s2, v in self.ev(e, s):
                    nxt.append((s2, vals + [v]))
            acc = nxt
        return acc

    def ev(self, e, st):
        """-> [(state, value)]: one entry per way the evaluation can go (tests inside the expression fork)."""
        if isinstance(e, ast.Constant):
            v = e.value
            if isinstance(v, str):
                return [(st, _S(v))]
            if isinstance(v, bool) or v is None:
                return [(st, v)]
            if isinstance(v, int):
                return [(st, _Num(v))]
            return [(st, _Unk(f"constant {v!r}"))]
        if isinstance(e, ast.Name):
            return [(st, self.lookup(e.id, st))]
        if isinstance(e, ast.NamedExpr):
            out = []
            for s, v in self.ev(e.value, st):
                self.bind(e.target, v, s)
                out.append((s, v))
            return out
        if isinstance(e, (ast.Tuple, ast.List, ast.Set)):
            if any(isinstance(x, ast.Starred) for x in e.elts):
                return [(st, _Unk("starred element"))]
            out = []
            for s, vals in self.evs(e.elts, st):
                if isinstance(e, ast.Tuple):
                    out.append((s, tuple(vals)))
                elif isinstance(e, ast.List):
                    out.append((s, _Lst([("one", v) for v in vals])))
                else:
                    out.append((s, frozenset(vals) if all(isinstance(v, (_Str, _Num)) for v in vals) else _Unk("set of non-constants")))
            return out
        if isinstance(e, ast.BinOp):
            return [(s, self.binop(e.op, a, b, s)) for s, (a, b) in self.evs([e.left, e.right], st)]
        if isinstance(e, ast.UnaryOp):
            if isinstance(e.op, ast.Not):
                t, f = self.branch(e.operand, st)
                return [(s, False) for s in t] + [(s, True) for s in f]
            out = []
            for s, v in self.ev(e.operand, st):
                if isinstance(v, _Num) and isinstance(e.op, ast.USub):
                    out.append((s, _Num(-v.p)))
                elif isinstance(v, _Num) and isinstance(e.op, ast.UAdd):
                    out.append((s, v))
                else:
                    out.append((s, _Unk(f"unary {type(e.op).__name__}")))
            return out
        if isinstance(e, ast.BoolOp):
            return self.boolop_value(e, st)
        if isinstance(e, ast.Compare):
            t, f = self.branch(e, st)
            return [(s, True) for s in t] + [(s, False) for s in f]
        if isinstance(e, ast.IfExp):
            t, f = self.branch(e.test, st)
            out = []
            for s in t:
                out.extend(self.ev(e.body, s))
            for s in f:
                out.extend(self.ev(e.orelse, s))
            return out
        if isinstance(e, ast.Subscript):
            out = []
            for s, base in self.ev(e.value, st):
                out.extend(self.subscript(base, e.slice, s))
            return out
        if isinstance(e, ast.JoinedStr):
            exprs = [p.value for p in e.values if isinstance(p, ast.FormattedValue)]
            out = []
            for s, vals in self.evs(exprs, st):
                vals = list(vals)
                parts = []
                for p in e.values:
                    if isinstance(p, ast.Constant):
                        parts.append(_S(str(p.value)))
                    else:
                        v = vals.pop(0)
                        if p.format_spec is not None or p.conversion not in (-1, 115):
                            v = _Str((("alt", "formatted with a conversion / format spec"),)) if isinstance(v, _Str) and v.symbolic() else _Unk("formatted value")
                        parts.append(self.to_str(v))
                out.append((s, self.cat(parts)))
            return out
        if isinstance(e, ast.Lambda):
            fr = st.frames[-1]
            return [(st, _Fn(fr.func, e))]
        if isinstance(e, ast.Attribute):
            return [(s, self.attribute(v, e.attr, s)) for s, v in self.ev(e.value, st)]
        if isinstance(e, ast.Call):
            return self.call(e, st)
        if isinstance(e, (ast.Yield, ast.YieldFrom)):
            raise _Undecided("the value of a yield expression is used")
        return [(st, _Unk(f"expression `{type(e).__name__}`"))]

    def boolop_value(self, e, st):
        out, pending = [], [st]
        for i, x in enumerate(e.values):
            nxt = []
            for s in pending:
                for s2, v in self.ev(x, s):
                    if i == len(e.values) - 1:
                        out.append((s2, v))
                        continue
                    t, f = self.truth(v, s2, src(x))
                    stop, go = (f, t) if isinstance(e.op, ast.And) else (t, f)
                    out.extend((s3, v) for s3 in stop)
                    nxt.extend(go)
            pending = nxt
        return out

    # -- strings
    def to_str(self, v):
        if isinstance(v, _Str):
            return v
        if isinstance(v, _Num) and v.const() is not None:
            return _S(str(v.const()))
        if v is None or isinstance(v, bool):
            return _S(str(v))
        return v if isinstance(v, _Unk) else _Unk("str() of a value that is not a string")

    def cat(self, vals):
        parts = []
        for v in vals:
            if not isinstance(v, _Str):
                return v if isinstance(v, _Unk) else _Unk("concatenation with a value that is not a string")
            parts.extend(v.parts)
        return _Str(parts)

    def binop(self, op, a, b, st):
        if isinstance(op, ast.Mult) and ((isinstance(a, _Str) and a.blank() and isinstance(b, _Unk)) or (isinstance(b, _Str) and b.blank() and isinstance(a, _Unk))):
            return _Str((("ws", None),))  # whitespace repeated any number of times is whitespace or empty
        if isinstance(a, _Unk) or isinstance(b, _Unk):
            return a if isinstance(a, _Unk) else b
        if isinstance(op, ast.Add):
            if isinstance(a, _Str) and isinstance(b, _Str):
                return self.cat([a, b])
            if isinstance(a, _Num) and isinstance(b, _Num):
                return _Num(a.p + b.p)
            if isinstance(a, _Lst) and isinstance(b, _Lst):
                return _Lst(list(a.parts) + list(b.parts))
            if isinstance(a, tuple) and isinstance(b, tuple):
                return a + b
        if isinstance(op, ast.Sub) and isinstance(a, _Num) and isinstance(b, _Num):
            return _Num(a.p - b.p)
        if isinstance(op, ast.Mult):
            if isinstance(a, _Num) and isinstance(b, _Num):
                return _Num(a.p * b.p)
            s, n = (a, b) if isinstance(a, _Str) else (b, a)
            if isinstance(s, _Str) and s.blank() and isinstance(n, _Opq):
                return _Str((("ws", None),))  # whitespace repeated any number of times is whitespace or empty
            if isinstance(s, _Str) and isinstance(n, _Num):
                c = n.const()
                if c is not None and c <= 0:
                    return _S("")
                if c is not None and c <= 64:
                    return _Str(s.parts * c)
                if s.blank():
                    # a repetition of whitespace is whitespace; it is non-empty iff the string is and the count is >= 1
                    if s.text and _ge0(st, n.p - _k(1)):
                        return _Str((("txt", s.text[0]), ("ws", None)))
                    return _Str((("ws", None),))
                return _Unk("repetition of item text")
        if isinstance(a, _Num) and isinstance(b, _Num) and a.const() is not None and b.const() is not None:
            x, y = a.const(), b.const()  # constant folding
            try:
                if isinstance(op, ast.FloorDiv):
                    return _Num(x // y)
                if isinstance(op, ast.Mod):
                    return _Num(x % y)
                if isinstance(op, ast.Pow) and 0 <= y <= 16 and abs(x) <= 1 << 16:
                    return _Num(x ** y)
                if isinstance(op, ast.LShift) and 0 <= y < 32:
                    return _Num(x << y)
                if isinstance(op, ast.RShift) and y >= 0:
                    return _Num(x >> y)
                if isinstance(op, ast.BitAnd):
                    return _Num(x & y)
                if isinstance(op, ast.BitOr):
                    return _Num(x | y)
            except (ZeroDivisionError, ValueError):
                return _Unk("constant expression raises")
        if isinstance(op, ast.Mod) and isinstance(a, _Str) and a.text is not None:
            args = list(b) if isinstance(b, tuple) else [b]
            pieces = a.text.split("%s")
            if "%" not in "".join(pieces) and len(pieces) == len(args) + 1:
                out = [_S(pieces[0])]
                for x, lit in zip(args, pieces[1:]):
                    out += [self.to_str(x), _S(lit)]
                return self.cat(out)
            if any(isinstance(x, _Str) and x.symbolic() for x in args):
                return _Str((("alt", "%-formatted with a conversion other than %s"),))
        return _Unk(f"operator {type(op).__name__} on these operands")

    # -- attributes / subscripts
    def attribute(self, base, attr, st):
        if isinstance(base, _Opq) and base.label == "self":
            fr = next((f for f in reversed(st.frames) if f.func is not None and f.func.cls), None)
            p = fr.func if fr is not None else None
            if p is None:
                return _Unk(f"self.{attr}")
            mod = p.module
            q = f"{p.cls}.{attr}"
            if q in mod.funcs:
                fn = mod.funcs[q]
                decos = {dotted(d) for d in getattr(fn.node, "decorator_list", [])}
                if "staticmethod" in decos:
                    return _Fn(fn, fn.node)
                if decos - {"classmethod"}:
                    return _Unk(f"decorated method {attr}")
                return _Fn(fn, fn.node, recv=True)
            try:
                attrs = self.ctx.repo.class_attrs(f"{mod.name}.{p.cls}")
            except Exception:
                attrs = {}
            if attr in attrs:
                return self.static_value(None, attrs[attr], mod)
            return _Unk(f"instance attribute self.{attr}")
        if isinstance(base, _Ext):
            return _Ext(f"{base.name}.{attr}")
        if isinstance(base, _Unk):
            return base
        return _Unk(f"attribute .{attr}")

    def index_in(self, lst, p, st):
        """Item of a list term at the integer term p -> value (records an IndexError defect when it is provable)."""
        parts = _canon(lst.parts)
        n = _length(parts)
        if n is None:
            return _Unk("index into a list built by a loop")
        c = p.const_value()
        if c is not None and c < 0:
            p = n + p
        if not (_ge0(st, p) and _ge0(st, n - _k(1) - p)):
            top = _at_upper(p, st.loops)
            if top is not None and _basic_ge0(top - n, []) and not any(set(f.atoms()) & {a for a, _c in st.loops} for f in st.ge0):
                st.viol.append(("taint", "reads the buffered line one position past its end when it handles the last buffered item (IndexError): no bounds test guards the index"))
                st.unk.append("index past the end")
            return _Unk("index not provably inside the list")
        off = _k(0)
        for part in parts:
            if part[0] == "seg":
                ln = part[2] - part[1]
                if _ge0(st, p - off) and _ge0(st, off + ln - _k(1) - p):
                    return _T(part[1] + (p - off)) if not part[3] else _Unk("index into a constant-bounded slice")
                off = off + ln
            else:
                if p == off:
                    return part[1]
                off = off + _k(1)
        return _Unk("index position not located")

    def slice_of(self, lst, sl, s):
        """List term for lst[a:b] -> [(state, value)]."""
        if sl.step is not None:
            return [(s, _Unk("slice with a step"))]
        out = []
        for s2, (a, b) in self.evs([x if x is not None else ast.Constant(value=None) for x in (sl.lower, sl.upper)], s):
            parts = _canon(lst.parts)
            if not parts:
                out.append((s2, _Lst()))
                continue
            if len(parts) != 1 or parts[0][0] != "seg":
                out.append((s2, _Unk("slice of a list that is not one run of buffered items")))
                continue
            _t, lo, hi, note = parts[0]
            ln = hi - lo
            bounds = []
            for v, dflt in ((a, _k(0)), (b, ln)):
                if v is None:
                    bounds.append((dflt, None))
                elif isinstance(v, _Num):
                    p = v.p
                    c = p.const_value()
                    if c is not None and c < 0:
                        p = ln + p
                    if _ge0(s2, p) and _ge0(s2, ln - p):
                        bounds.append((p, None))
                    elif c is not None:
                        bounds.append((p, f"constant slice bound {int(c)}"))  # python clips it: min(c, len) / max(len + c, 0)
                    else:
                        bounds = None
                        break
                else:
                    bounds = None
                    break
            if bounds is None:
                out.append((s2, _Unk("slice bounds not modelled")))
                continue
            (pa, na), (pb, nb) = bounds
            out.append((s2, _Lst([("seg", lo + pa, lo + pb, note or na or nb)])))
        return out

    def subscript(self, base, sl, s):
        if isinstance(base, _Unk):
            return [(s, base)]
        if isinstance(sl, ast.Slice):
            if isinstance(base, _Lst):
                return self.slice_of(base, sl, s)
            if isinstance(base, _Str):
                if base.text is not None:
                    out = []
                    for s2, (a, b) in self.evs([x if x is not None else ast.Constant(value=None) for x in (sl.lower, sl.upper)], s):
                        ca, cb = (a.const() if isinstance(a, _Num) else a), (b.const() if isinstance(b, _Num) else b)
                        ok = all(x is None or isinstance(x, int) for x in (ca, cb)) and sl.step is None
                        out.append((s2, _S(base.text[ca:cb]) if ok else _Unk("slice of a constant")))
                    return out
                return [(s, _Str((("alt", "a slice of the item text"),)))]
            return [(s, _Unk("slice of this value"))]
        out = []
        for s2, k in self.ev(sl, s):
            if isinstance(base, _Lst) and isinstance(k, _Num):
                out.append((s2, self.index_in(base, k.p, s2)))
            elif isinstance(base, tuple) and isinstance(k, _Num) and k.const() is not None and -len(base) <= k.const() < len(base):
                out.append((s2, base[k.const()]))
            elif isinstance(base, _Str) and base.text is not None and isinstance(k, _Num) and k.const() is not None and -len(base.text) <= k.const() < len(base.text):
                out.append((s2, _S(base.text[k.const()])))
            elif isinstance(base, _Str) and base.symbolic():
                out.append((s2, _Str((("alt", "a character of the item text"),))))
            else:
                out.append((s2, _Unk("subscript not modelled")))
        return out

    # ------------------------------------------------------------------------------------------------ tests
    def branch(self, test, st):
        """-> (states in which the test holds, states in which it does not).  A state appears on a side only if the facts
        of the path do not exclude it; the facts the outcome adds are recorded in the state."""
        if isinstance(test, ast.BoolOp):
            is_and = isinstance(test.op, ast.And)
            go, done = [st], []
            for v in test.values:
                nxt = []
                for s in go:
                    t, f = self.branch(v, s)
                    nxt.extend(t if is_and else f)
                    done.extend(f if is_and else t)
                go = nxt
            return (go, done) if is_and else (done, go)
        if isinstance(test, ast.UnaryOp) and isinstance(test.op, ast.Not):
            t, f = self.branch(test.operand, st)
            return f, t
        if isinstance(test, ast.Compare):
            if len(test.ops) != 1:
                parts = []
                left = test.left
                for op, r in zip(test.ops, test.comparators):
                    parts.append(ast.Compare(left=left, ops=[op], comparators=[r]))
                    left = r
                return self.branch(ast.BoolOp(op=ast.And(), values=parts), st)
            T, F = [], []
            for s, (a, b) in self.evs([test.left, test.comparators[0]], st):
                t, f = self.cmp(test.ops[0], a, b, s, src(test))
                T.extend(t)
                F.extend(f)
            return T, F
        T, F = [], []
        for s, v in self.ev(test, st):
            t, f = self.truth(v, s, src(test))
            T.extend(t)
            F.extend(f)
        return T, F

    def opaque(self, label, st):
        """A test the analysis cannot decide: both outcomes, each remembered under `label` for the rest of the path."""
        if label in st.opq:
            return ([st], []) if st.opq[label] else ([], [st])
        s2 = self.fork(st)
        st.opq[label] = True
        s2.opq[label] = False
        return [st], [s2]

    def truth(self, v, st, label):
        if v is None or isinstance(v, bool):
            return ([st], []) if v else ([], [st])
        if isinstance(v, _Num):
            if _ge0(st, v.p - _k(1)) or _ge0(st, -v.p - _k(1)):
                return [st], []
            if v.p == _k(0):
                return [], [st]
            return self.opaque("truth:" + repr(v.p), st)
        if isinstance(v, _Str):
            if v.text is not None:
                return ([st], []) if v.text else ([], [st])
            if any(p[0] in ("tok",) or (p[0] == "txt") for p in v.parts):
                return [st], []  # LT: an item of the stream is a lexeme, never the empty string
            return self.opaque("truth:" + label, st)
        if isinstance(v, _Lst):
            n = _length(_canon(v.parts))
            if n is not None and _ge0(st, n - _k(1)):
                return [st], []
            if n is not None and n == _k(0):
                return [], [st]
            return self.opaque(f"truth:{v.uid}.{v.ver}.{len(v.parts)}", st)
        if isinstance(v, (tuple, frozenset)):
            return ([st], []) if v else ([], [st])
        if isinstance(v, _Opq):
            return self.opaque("opq:" + v.label, st)
        if isinstance(v, _Unk):
            return self.opaque("unk:" + label, st)
        return [st], []

    def refine(self, idx, st, true_if, positive):
        """Split on a three-valued predicate over the lexemes item W[idx] can be."""
        cur = st.lex.get(idx, self.lx.all)
        yes = frozenset(v for v in cur if true_if(v) is not False)
        no = frozenset(v for v in cur if true_if(v) is not True)
        T, F = [], []
        if yes and no:
            s2 = self.fork(st)
            st.lex[idx] = yes
            s2.lex[idx] = no
            T, F = [st], [s2]
        elif yes:
            T = [st]
        else:
            F = [st]
        return (T, F) if positive else (F, T)

    def cmp(self, op, a, b, st, label):
        neg = isinstance(op, (ast.NotEq, ast.NotIn, ast.IsNot))
        if isinstance(op, (ast.Eq, ast.NotEq)):
            if isinstance(b, _Str) and b.tok() is not None and not (isinstance(a, _Str) and a.tok() is not None):
                a, b = b, a
            if isinstance(a, _Str) and a.tok() is not None and isinstance(b, _Str) and b.text is not None:
                c = b.text
                return self.refine(a.tok(), st, lambda v: self.lx.eq(v, c), not neg)
            if isinstance(a, _Str) and a.tok() is not None and isinstance(b, _Str) and b.tok() is not None and a.tok() == b.tok():
                res = True
            elif isinstance(a, _Str) and isinstance(b, _Str) and a.text is not None and b.text is not None:
                res = a.text == b.text
            elif isinstance(a, _Num) and isinstance(b, _Num):
                d = a.p - b.p
                res = True if d == _k(0) else False if (_ge0(st, d - _k(1)) or _ge0(st, -d - _k(1))) else None
            elif (a is None or isinstance(a, bool)) and (b is None or isinstance(b, bool)):
                res = a is b
            elif a is None or b is None:
                other = b if a is None else a
                res = False if isinstance(other, (_Str, _Num, _Lst, tuple, _Fn)) else None
            elif isinstance(a, _Str) and a.symbolic() and isinstance(b, (_Num, _Lst, tuple)):
                res = False
            else:
                res = None
            if res is None:
                t, f = self.opaque("cmp:" + label.replace("!=", "=="), st)
                return (f, t) if neg else (t, f)
            return ([st], []) if res != neg else ([], [st])
        if isinstance(op, (ast.Is, ast.IsNot)):
            if a is None and b is None:
                res = True
            elif a is None or b is None:
                other = b if a is None else a
                res = False if isinstance(other, (_Str, _Num, _Lst, tuple, bool, _Fn, _Stream)) else None
            elif isinstance(a, bool) and isinstance(b, bool):
                res = a is b
            else:
                res = None
            if res is None:
                t, f = self.opaque("is:" + label.replace("is not", "is"), st)
                return (f, t) if neg else (t, f)
            return ([st], []) if res != neg else ([], [st])
        if isinstance(op, (ast.In, ast.NotIn)):
            cont = self.container(b)
            if isinstance(a, _Str) and a.tok() is not None and cont is not None:
                kind, items = cont
                if kind == "str":
                    return self.refine(a.tok(), st, lambda v: self.lx.within(v, items), not neg)

                def member(v):
                    rs = [self.lx.eq(v, c) for c in items]
                    return True if any(r is True for r in rs) else None if any(r is None for r in rs) else False

                return self.refine(a.tok(), st, member, not neg)
            if isinstance(a, _Str) and a.text is not None and cont is not None:
                kind, items = cont
                res = (a.text in items) if kind == "str" else (a.text in set(items))
                return ([st], []) if res != neg else ([], [st])
            if isinstance(b, _Lst):
                if not _canon(b.parts):
                    return ([], [st]) if not neg else ([st], [])
                key = f"in:{a!r}:{b.uid}.{b.ver}.{len(b.parts)}"
                # `c in line` for a constant c: known when every element's lexeme set decides it - only the item just
                # appended is known individually, so the test stays opaque (same list state -> same answer)
                t, f = self.opaque(key, st)
                return (f, t) if neg else (t, f)
            t, f = self.opaque("in:" + label.replace("not in", "in"), st)
            return (f, t) if neg else (t, f)
        if isinstance(op, (ast.Lt, ast.LtE, ast.Gt, ast.GtE)) and isinstance(a, _Num) and isinstance(b, _Num):
            # normalise to  d >= 0  (true side)  /  -d - 1 >= 0  (false side)
            if isinstance(op, ast.Gt):
                d = a.p - b.p - _k(1)
            elif isinstance(op, ast.GtE):
                d = a.p - b.p
            elif isinstance(op, ast.Lt):
                d = b.p - a.p - _k(1)
            else:
                d = b.p - a.p
            if _ge0(st, d):
                return [st], []
            nd = -d - _k(1)
            if _ge0(st, nd):
                return [], [st]
            s2 = self.fork(st)
            st.ge0.append(d)
            s2.ge0.append(nd)
            return [st], [s2]
        return self.opaque("cmp:" + label, st)

    @staticmethod
    def container(v):
        """A constant container -> ("str", text) | ("set", [texts]) (else None)."""
        if isinstance(v, _Str) and v.text is not None:
            return "str", v.text
        items = None
        if isinstance(v, (tuple, frozenset)):
            items = list(v)
        elif isinstance(v, _Lst) and all(p[0] == "one" for p in v.parts) and v.parts:
            items = [p[1] for p in v.parts]
        if items is not None and all(isinstance(x, _Str) and x.text is not None for x in items):
            return "set", [x.text for x in items]
        return None

    # ------------------------------------------------------------------------------------------------ calls
    def call(self, e, st):
        if any(isinstance(a, ast.Starred) for a in e.args) or any(k.arg is None for k in e.keywords):
            return [(st, _Unk("call with * / ** arguments"))]
        out = []
        if isinstance(e.func, ast.Attribute):
            for s, recv in self.ev(e.func.value, st):
                for s2, vals in self.evs(list(e.args) + [k.value for k in e.keywords], s):
                    args, kw = vals[: len(e.args)], dict(zip([k.arg for k in e.keywords], vals[len(e.args):]))
                    if isinstance(recv, (_Ext,)) or (isinstance(recv, _Opq) and recv.label == "self"):
                        out.extend(self.apply(self.attribute(recv, e.func.attr, s2), args, kw, s2, e))
                    else:
                        out.extend(self.method(recv, e.func.attr, args, kw, s2, e))
            return out
        for s, callee in self.ev(e.func, st):
            for s2, vals in self.evs(list(e.args) + [k.value for k in e.keywords], s):
                args, kw = vals[: len(e.args)], dict(zip([k.arg for k in e.keywords], vals[len(e.args):]))
                out.extend(self.apply(callee, args, kw, s2, e))
        return out

    def escape(self, args, st, what):
        """Arguments handed to code that is not modelled: a list among them may be changed there."""
        for a in args:
            if isinstance(a, _Lst):
                a.ver += 1
                st.unk.append(f"a list is handed to {what}, which is not modelled")

    def apply(self, callee, args, kw, st, e):
        if isinstance(callee, _Fn):
            return self.call_fn(callee, args, kw, st)
        if isinstance(callee, _Ext):
            return self.builtin(callee.name, args, kw, st, e)
        self.escape(list(args) + list(kw.values()), st, f"`{src(e.func)[:40]}`")
        return [(st, callee if isinstance(callee, _Unk) else _Unk(f"call of `{src(e.func)[:40]}`"))]

    def call_fn(self, fn: _Fn, args, kw, st):
        node = fn.node
        a = node.args
        if a.vararg is not None or a.kwarg is not None:
            return [(st, _Unk("callee with *args / **kwargs"))]
        args = list(fn.pos) + list(args)
        kws = dict(fn.kw)
        kws.update(kw)
        if fn.recv:
            args = [_Opq("self")] + args
        names = [x.arg for x in a.posonlyargs + a.args]
        if len(args) > len(names):
            return [(st, _Unk("too many positional arguments"))]
        env = dict(zip(names, args))
        defaults = dict(zip(names[len(names) - len(a.defaults):], a.defaults))
        for x, d in zip(a.kwonlyargs, a.kw_defaults):
            names.append(x.arg)
            if d is not None:
                defaults[x.arg] = d
        for k, v in kws.items():
            if k not in names or k in env:
                return [(st, _Unk(f"unexpected / duplicate argument {k}"))]
            env[k] = v
        owner = fn.func
        real = owner is not None and getattr(owner, "node", None) is not None
        for n in names:
            if n not in env:
                if n not in defaults:
                    return [(st, _Unk(f"missing argument {n}"))]
                env[n] = self.static_value(owner if real else (owner.parent if owner is not None else None), defaults[n], owner.module if owner is not None else None)
        if isinstance(node, ast.Lambda):
            frame = _Frame(owner, env, owner if real else (owner.parent if owner is not None else None))
        else:
            frame = _Frame(owner, env, owner.parent)
            if _is_generator(node):
                return [(st, _Gen(fn, env))]
        if self.depth >= _MAX_DEPTH:
            return [(st, _Unk("call depth"))]
        self.depth += 1
        try:
            st.frames.append(frame)
            out = []
            if isinstance(node, ast.Lambda):
                for s, v in self.ev(node.body, st):
                    s.frames.pop()
                    out.append((s, v))
                return out
            for s, sig in self.block(node.body, st):
                s.frames.pop()
                if sig == "raise":
                    s.unk.append("a helper may raise")
                out.append((s, sig[1] if isinstance(sig, tuple) else None))
            return out
        finally:
            self.depth -= 1

    def run_gen(self, g: _Gen, st):
        """Consume a generator call in place (`yield from g(...)`): its yields go to the output."""
        if self.depth >= _MAX_DEPTH:
            st.unk.append("call depth")
            return [(st, None)]
        self.depth += 1
        try:
            st.frames.append(_Frame(g.fn.func, g.env, g.fn.func.parent))
            out = []
            for s, sig in self.block(g.fn.node.body, st):
                s.frames.pop()
                out.append((s, "raise" if sig == "raise" else None))
            return out
        finally:
            self.depth -= 1

    def method(self, recv, name, args, kw, st, e):
        if isinstance(recv, _Lst):
            return [(st, self.list_method(recv, name, args, st))]
        if isinstance(recv, _Str):
            return [(st, self.str_method(recv, name, args, kw, st, e))]
        if isinstance(recv, _Fn) or isinstance(recv, _Gen):
            return [(st, _Unk(f"method .{name}() of a function object"))]
        self.escape(list(args) + list(kw.values()), st, f"`{src(e.func)[:40]}`")
        return [(st, recv if isinstance(recv, _Unk) else _Unk(f"method .{name}()"))]

    def list_method(self, lst, name, args, st):
        if name == "append" and len(args) == 1:
            lst.parts.append(("one", args[0]))
            return None
        if name == "extend" and len(args) == 1 and isinstance(args[0], _Lst):
            lst.parts.extend(args[0].parts)
            return None
        if name == "clear" and not args:
            lst.parts = []
            lst.ver += 1
            return None
        if name == "copy" and not args:
            return _Lst(lst.parts)
        lst.ver += 1
        lst.parts = [("one", _Unk(f"list after .{name}()"))]
        st.unk.append(f"list method .{name}() is not modelled")
        return _Unk(f"list method .{name}()")

    def str_method(self, recv, name, args, kw, st, e):
        if name == "join" and len(args) == 1 and not kw:
            seq, rev = args[0], False
            if isinstance(seq, _Iter) and seq.kind == "rev" and isinstance(seq.a, _Lst):
                seq, rev = seq.a, True
            if isinstance(seq, _Lst):
                parts = tuple(_canon(seq.parts))
                if all(p[0] == "seg" or (p[0] == "one" and isinstance(p[1], _Str)) for p in parts):
                    if all(p[0] == "one" and p[1].text is not None for p in parts) and recv.text is not None:
                        return _S(recv.text.join(p[1].text for p in parts))
                    return _Str((("join", parts, recv, rev),))
            return _Unk("join over a sequence that is not a list of buffered items")
        if name == "format" and recv.text is not None and not kw:
            import string

            try:
                fields = list(string.Formatter().parse(recv.text))
            except ValueError:
                return _Unk("format string")
            out, auto = [], 0
            for lit, field, spec, conv in fields:
                out.append(_S(lit))
                if field is None:
                    continue
                if field == "":
                    field, auto = str(auto), auto + 1
                if not field.isdigit() or int(field) >= len(args):
                    return _Unk("format field")
                v = args[int(field)]
                if spec or conv not in (None, "s"):
                    v = _Str((("alt", "formatted with a conversion / format spec"),)) if isinstance(v, _Str) and v.symbolic() else _Unk("formatted value")
                out.append(self.to_str(v))
            return self.cat(out)
        if recv.symbolic():
            if name in _STR_PREDICATES:
                return _Opq(f"pred:{src(e)}")
            if name in _STR_TRANSFORMS:
                return _Str((("alt", f".{name}() applied to the item text"),))
            return _Unk(f"str method .{name}() on item text")
        if any(isinstance(x, _Str) and x.symbolic() for x in args):
            return _Opq(f"pred:{src(e)}") if name in _STR_PREDICATES else _Unk(f".{name}() with item text as an argument")
        if recv.text is not None and (name in _STR_PREDICATES or name in _STR_TRANSFORMS - {"translate", "encode"}) and not kw:
            plain = []
            for x in args:
                if isinstance(x, _Str) and x.text is not None:
                    plain.append(x.text)
                elif isinstance(x, _Num) and x.const() is not None:
                    plain.append(x.const())
                else:
                    return _Unk(f".{name}() with non-constant arguments")
            try:  # constant folding of a constant expression
                r = getattr(recv.text, name)(*plain)
            except Exception:
                return _Unk(f"constant expression .{name}() raises")
            return _S(r) if isinstance(r, str) else r if isinstance(r, bool) else _Unk("constant method result")
        return _Unk(f"str method .{name}()")

    def builtin(self, name, args, kw, st, e):
        short = name[len("builtins."):] if name.startswith("builtins.") else None
        if name.endswith("functools.partial") or name == "partial":
            if args and isinstance(args[0], _Fn):
                c = args[0]
                k2 = dict(c.kw)
                k2.update(kw)
                return [(st, _Fn(c.func, c.node, tuple(c.pos) + tuple(args[1:]), k2, c.recv))]
            return [(st, _Unk("functools.partial of a callable that is not a function of the package"))]
        if short is None:
            self.escape(list(args) + list(kw.values()), st, f"`{name}`")
            return [(st, _Unk(f"call of {name}"))]
        v = self._builtin(short, args, kw, st, e)
        return [(st, v)]

    def _builtin(self, name, args, kw, st, e):
        if name == "print":
            return None
        if name == "isinstance" and len(args) == 2:
            if isinstance(args[0], _Str) and isinstance(args[1], _Ext) and args[1].name == "builtins.str":
                return True
            return _Opq(f"isinstance:{src(e)}")
        if kw and name != "enumerate":
            return _Unk(f"keyword arguments in {name}()")
        if name == "len" and len(args) == 1:
            v = args[0]
            if isinstance(v, _Lst):
                n = _length(_canon(v.parts))
                return _Num(n) if n is not None else _Unk("length of a list built by a loop")
            if isinstance(v, _Str) and v.text is not None:
                return _Num(len(v.text))
            if isinstance(v, (tuple, frozenset)):
                return _Num(len(v))
            return _Unk("len() of this value")
        if name == "range" and 1 <= len(args) <= 2 and all(isinstance(a, _Num) for a in args):
            lo, hi = (_k(0), args[0].p) if len(args) == 1 else (args[0].p, args[1].p)
            return _Iter("range", lo, hi)
        if name == "enumerate" and 1 <= len(args) <= 2:
            start = kw.get("start", args[1] if len(args) == 2 else _Num(0))
            if isinstance(start, _Num) and isinstance(args[0], (_Lst, _Iter)):
                return _Iter("enum", args[0], start.p)
            return _Unk("enumerate of this value")
        if name == "reversed" and len(args) == 1 and isinstance(args[0], _Lst):
            return _Iter("rev", args[0])
        if name in ("iter", "list", "tuple") and len(args) == 1 and isinstance(args[0], _Stream):
            return args[0]
        if name == "list" and len(args) <= 1:
            if not args:
                return _Lst()
            if isinstance(args[0], _Lst):
                return _Lst(args[0].parts)
            if isinstance(args[0], tuple):
                return _Lst([("one", v) for v in args[0]])
            return _Unk("list() of this value")
        if name in ("frozenset", "set", "tuple") and len(args) == 1:
            c = self.container(args[0])
            if c is not None:
                items = [_S(ch) for ch in c[1]] if c[0] == "str" else [_S(t) for t in c[1]]
                return tuple(items) if name == "tuple" else frozenset(items)
            return _Unk(f"{name}() of a non-constant")
        if name in ("frozenset", "set", "tuple") and not args:
            return () if name == "tuple" else frozenset()
        if name == "str" and len(args) <= 1:
            return self.to_str(args[0]) if args else _S("")
        if name == "repr" and len(args) == 1 and isinstance(args[0], _Str) and args[0].symbolic():
            return _Str((("alt", "repr() of the item text"),))
        if name == "bool" and len(args) == 1:
            return _Opq(f"bool:{src(e)}") if not isinstance(args[0], bool) else args[0]
        if name in ("int", "abs", "min", "max") and args and all(isinstance(a, _Num) and a.const() is not None for a in args):
            vals = [a.const() for a in args]
            return _Num({"int": lambda: vals[0], "abs": lambda: abs(vals[0]), "min": lambda: min(vals), "max": lambda: max(vals)}[name]())
        if name in ("min", "max", "abs", "int") and args and all(isinstance(a, _Num) for a in args):
            return _Num(SymPoly.atom(f"u{next(self.fresh)}"))  # some integer: nothing is known (or provable) about it
        self.escape(args, st, f"`{name}()`")
        return _Unk(f"builtin {name}()")

    # ------------------------------------------------------------------------------------------------ statements
    def bind(self, target, v, st):
        env = st.frames[-1].env
        if isinstance(target, ast.Name):
            env[target.id] = v
        elif isinstance(target, (ast.Tuple, ast.List)) and isinstance(v, tuple) and len(v) == len(target.elts) and not any(isinstance(t, ast.Starred) for t in target.elts):
            for t, x in zip(target.elts, v):
                self.bind(t, x, st)
        elif isinstance(target, (ast.Tuple, ast.List)):
            for n in ast.walk(target):
                if isinstance(n, ast.Name):
                    env[n.id] = _Unk("unpacked value")
        elif isinstance(target, ast.Subscript):
            for s, base in self.ev(target.value, st)[:1]:
                if isinstance(base, _Lst):
                    if isinstance(target.slice, ast.Slice) and target.slice.lower is None and target.slice.upper is None and isinstance(v, _Lst):
                        base.parts = list(v.parts)
                        base.ver += 1
                    else:
                        base.ver += 1
                        base.parts = [("one", _Unk("list after an item assignment"))]
                        st.unk.append("item assignment into a list is not modelled")
                else:
                    st.unk.append("item assignment is not modelled")
        else:
            st.unk.append(f"assignment to `{src(target)[:40]}` is not modelled")

    def block(self, body, st):
        """-> [(state, signal)], signal None | "continue" | "break" | "raise" | ("return", value)."""
        live, done = [st], []
        for node in body:
            nxt = []
            for s in live:
                for s2, sig in self.stmt(node, s):
                    (nxt if sig is None else done).append((s2, sig))
            live = [s for s, _ in nxt]
            if not live:
                break
        return [(s, None) for s in live] + done

    def stmt(self, node, st):
        if isinstance(node, ast.Expr):
            v = node.value
            if isinstance(v, ast.Yield):
                if v.value is None:
                    st.out.parts.append(("one", None))
                    return [(st, None)]
                out = []
                for s, x in self.ev(v.value, st):
                    s.out.parts.append(("one", x))
                    out.append((s, None))
                return out
            if isinstance(v, ast.YieldFrom):
                out = []
                for s, x in self.ev(v.value, st):
                    if isinstance(x, _Lst):
                        s.out.parts.extend(x.parts)
                        out.append((s, None))
                    elif isinstance(x, _Gen):
                        out.extend(self.run_gen(x, s))
                    elif isinstance(x, tuple):
                        s.out.parts.extend(("one", y) for y in x)
                        out.append((s, None))
                    else:
                        s.unk.append(f"`yield from {src(v.value)[:50]}`: the iterable is not modelled")
                        out.append((s, None))
                return out
            return [(s, None) for s, _v in self.ev(v, st)]
        if isinstance(node, ast.Assign):
            if isinstance(node.value, (ast.Yield, ast.YieldFrom)):
                raise _Undecided("the value of a yield expression is used")
            out = []
            for s, v in self.ev(node.value, st):
                for t in node.targets:
                    self.bind(t, v, s)
                out.append((s, None))
            return out
        if isinstance(node, ast.AnnAssign):
            if node.value is None:
                return [(st, None)]
            out = []
            for s, v in self.ev(node.value, st):
                self.bind(node.target, v, s)
                out.append((s, None))
            return out
        if isinstance(node, ast.AugAssign):
            load = copy.copy(node.target)
            load.ctx = ast.Load()
            out = []
            for s, (cur, rhs) in self.evs([load, node.value], st):
                if isinstance(cur, _Lst) and isinstance(node.op, ast.Add) and isinstance(rhs, _Lst):
                    cur.parts.extend(rhs.parts)
                else:
                    self.bind(node.target, self.binop(node.op, cur, rhs, s), s)
                out.append((s, None))
            return out
        if isinstance(node, ast.If):
            t, f = self.branch(node.test, st)
            out = []
            for s in t:
                out.extend(self.block(node.body, s))
            for s in f:
                out.extend(self.block(node.orelse, s))
            return out
        if isinstance(node, ast.For):
            return self.for_stmt(node, st)
        if isinstance(node, ast.While):
            return self.while_stmt(node, st)
        if isinstance(node, (ast.Pass, ast.Import, ast.ImportFrom)):
            return [(st, None)]
        if isinstance(node, ast.Break):
            return [(st, "break")]
        if isinstance(node, ast.Continue):
            return [(st, "continue")]
        if isinstance(node, ast.Return):
            if node.value is None:
                return [(st, ("return", None))]
            return [(s, ("return", v)) for s, v in self.ev(node.value, st)]
        if isinstance(node, ast.Assert):
            t, f = self.branch(node.test, st)
            return [(s, None) for s in t] + [(s, "raise") for s in f]
        if isinstance(node, ast.Raise):
            return [(st, "raise")]
        if isinstance(node, ast.FunctionDef):
            fr = st.frames[-1]
            f = fr.func
            q = f"{f.qualname}.{node.name}"
            fn = f.module.funcs.get(q)
            if fn is None or fn.node is not node:
                fn = Func(f.module, q, node, f.cls, f)
            fr.env[node.name] = _Fn(fn, node)
            return [(st, None)]
        if isinstance(node, ast.Delete):
            for t in node.targets:
                done = False
                if isinstance(t, ast.Subscript) and isinstance(t.slice, ast.Slice) and t.slice.lower is None and t.slice.upper is None and t.slice.step is None:
                    res = self.ev(t.value, st)
                    if len(res) == 1 and isinstance(res[0][1], _Lst):
                        res[0][1].parts = []
                        res[0][1].ver += 1
                        done = True
                if not done:
                    raise _Undecided(f"`del {src(t)[:40]}`")
            return [(st, None)]
        raise _Undecided(f"statement `{type(node).__name__}` in the post-processor")

    # ------------------------------------------------------------------------------------------------ loops
    @staticmethod
    def assigned_names(body):
        out = set()
        for st in body:
            for n in ast.walk(st):
                if isinstance(n, ast.Name) and isinstance(n.ctx, (ast.Store, ast.Del)):
                    out.add(n.id)
        return out

    def iterable(self, v, st):
        """-> (count, element(j)) for the things an inner loop can range over, else None."""
        if isinstance(v, _Lst):
            parts = _canon(v.parts)
            if not parts:
                return _k(0), (lambda j: _Unk("element of an empty list")), None
            if len(parts) == 1 and parts[0][0] == "seg":
                _t, lo, hi, note = parts[0]
                return hi - lo, (lambda j, lo=lo: _T(lo + j)), note
            return None
        if isinstance(v, _Iter) and v.kind == "enum":
            inner = self.iterable(v.a, st)
            if inner is None:
                return None
            cnt, el, note = inner
            return cnt, (lambda j, el=el, start=v.b: (_Num(j + start), el(j))), note
        if isinstance(v, _Iter) and v.kind == "rev" and isinstance(v.a, _Lst):
            parts = _canon(v.a.parts)
            if len(parts) == 1 and parts[0][0] == "seg" and not parts[0][3]:
                _t, lo, hi, _note = parts[0]
                return hi - lo, (lambda j, hi=hi: _T(hi - _k(1) - j)), None
            return None
        if isinstance(v, _Iter) and v.kind == "range":
            cnt = v.b - v.a
            if not _ge0(st, cnt):
                # range(a, b) with b < a possible: max(b - a, 0) steps - an unknown non-negative count (nothing is provable about it)
                cnt = SymPoly.atom(f"m{next(self.fresh)}")
            return cnt, (lambda j, lo=v.a: _Num(lo + j)), None
        if isinstance(v, tuple) and not v:
            return _k(0), (lambda j: _Unk("element of an empty tuple")), None
        return None

    def havoc(self, names, st, why):
        env = st.frames[-1].env
        for n in names:
            if n in env and not isinstance(env[n], _Lst):
                env[n] = _Unk(why)

    def for_stmt(self, node, st):
        out = []
        for s, itv in self.ev(node.iter, st):
            if isinstance(itv, _Stream):
                out.extend(self.main_loop(node.target, node.body, node.orelse, s, node))
                continue
            desc = self.iterable(itv, s)
            if desc is None:
                s.unk.append(f"the loop over `{src(node.iter)[:50]}` ranges over something the analysis does not model")
                self.escape([v for v in s.frames[-1].env.values()], s, "an unmodelled loop")
                self.havoc(self.assigned_names([node]), s, "assigned in an unmodelled loop")
                out.append((s, None))
                continue
            out.extend(self.summarise(node, s, desc))
        return out

    def summarise(self, node, st, desc):
        """An inner loop, analysed once: position j symbolic, 0 <= j < count.  Every sink (the output, a list) gets one
        ("rep", ...) part describing what one iteration appends on each path of the body."""
        cnt, elem, note = desc
        if cnt == _k(0):
            return self.block(node.orelse, st)
        self.stats["inner_loops"] += 1
        atom = f"j{next(self.fresh)}"
        names = self.assigned_names(node.body) | self.assigned_names([ast.Expr(value=node.target)])
        env0 = st.frames[-1].env
        if any(isinstance(env0.get(n), _Lst) for n in names):
            st.unk.append(f"a list variable is rebound inside the loop over `{src(node.iter)[:50]}`")
        body = self.fork(st)
        body.loops.append((atom, cnt))
        self.havoc(self.assigned_names(node.body), body, "value carried around an inner loop")
        marks = {l.uid: (len(l.parts), l.ver) for l in body.lists()}
        self.bind(node.target, elem(SymPoly.atom(atom)), body)
        alts = []
        for s, sig in self.block(node.body, body):
            if sig not in (None, "continue"):
                st.unk.append(f"the loop over `{src(node.iter)[:50]}` can be left early")
            st.unk.extend(u for u in s.unk if u not in st.unk)
            st.viol.extend(v for v in s.viol if v not in st.viol)
            deltas = {}
            for l in s.lists():
                if l.uid in marks:
                    m, ver = marks[l.uid]
                    if l.ver != ver:
                        st.unk.append("a list is reset or rewritten inside an inner loop")
                    elif len(l.parts) > m:
                        deltas[l.uid] = tuple(l.parts[m:])
            alts.append(_RAlt(dict(s.lex), list(s.ge0), deltas))
        rep = _Rep(atom, cnt, alts, src(node.iter)[:60] + (f" ({note})" if note else ""))
        touched = {u for a in alts for u in a.deltas}
        for l in st.lists():
            if l.uid in touched:
                l.parts.append(("rep", rep, l.uid))
        self.havoc(names, st, "assigned in an inner loop")
        for n in names:
            st.frames[-1].env.setdefault(n, _Unk("assigned in an inner loop"))
        return self.block(node.orelse, st)

    def while_stmt(self, node, st):
        """`while True: x = next(it, D); if x is D: break; ...` is the loop over the stream written by hand."""
        b = node.body
        if (isinstance(node.test, ast.Constant) and node.test.value is True and len(b) >= 2 and isinstance(b[0], ast.Assign) and len(b[0].targets) == 1
                and isinstance(b[0].targets[0], ast.Name) and isinstance(b[0].value, ast.Call) and dotted(b[0].value.func) == "next" and len(b[0].value.args) == 2
                and not b[0].value.keywords and isinstance(b[1], ast.If) and not b[1].orelse and len(b[1].body) == 1 and isinstance(b[1].body[0], (ast.Break, ast.Return))
                and not (isinstance(b[1].body[0], ast.Return) and b[1].body[0].value is not None)):
            x = b[0].targets[0].id
            dflt = b[0].value.args[1]
            cps = compare_parts(b[1].test)
            exhausted = any(isinstance(l, ast.Name) and l.id == x and isinstance(op, (ast.Is, ast.Eq)) and src(r) == src(dflt) for l, op, r in cps)
            res = self.evs([b[0].value.args[0], dflt], st)
            if exhausted and len(res) == 1 and isinstance(res[0][1][0], _Stream) and (res[0][1][1] is None or isinstance(res[0][1][1], _Opq)):
                # the default is not a stream item (None / a sentinel object): the test holds exactly when the stream is exhausted
                return self.main_loop(b[0].targets[0], b[2:], node.orelse if isinstance(b[1].body[0], ast.Return) else [], res[0][0], node, after_break=isinstance(b[1].body[0], ast.Break))
        raise _Undecided("a `while` loop in the post-processor that is not the recognised `next(it, default)` form")

    def main_loop(self, target, body, orelse, st, node, after_break=False):
        """ONE arbitrary iteration of the loop that draws the items (see the head of this section)."""
        if self.in_main or len(st.loops) or not isinstance(target, ast.Name):
            raise _Undecided("the loop over the item stream is nested in another loop / unpacks its items")
        self.n_main += 1
        self.check_blank_only(st, "before the first item is read")
        fr = st.frames[-1]
        env = fr.env
        assigned = self.assigned_names(body)
        mutated = set()
        for b in body:
            for n in ast.walk(b):
                if isinstance(n, ast.Call) and isinstance(n.func, ast.Attribute) and isinstance(n.func.value, ast.Name):
                    mutated.add(n.func.value.id)
                if isinstance(n, ast.Subscript) and isinstance(n.ctx, (ast.Store, ast.Del)) and isinstance(n.value, ast.Name):
                    mutated.add(n.value.id)
        buffers = [n for n in sorted(assigned | mutated) if isinstance(env.get(n), _Lst)]
        if len({env[n].uid for n in buffers}) != 1:
            raise _Undecided(f"the loop over the item stream carries {len(buffers)} lists from one iteration to the next (expected: one line buffer)")
        bname = buffers[0]
        if _canon(env[bname].parts):
            raise _Undecided("the line buffer is not empty before the first item")
        base = self.fork(st)  # the state after the loop is derived from the state before it
        carried = {}
        for n in sorted(assigned):
            v = env.get(n)
            if n == bname or v is None or isinstance(v, _Fn):
                continue
            carried[n] = _Num(SymPoly.atom(f"v_{n}")) if isinstance(v, _Num) else _Opq(f"carried:{n}")
        env.update(carried)
        # induction hypothesis: the buffer holds W[0:n-1]; the item drawn is W[n-1]
        env[bname].parts = [("seg", _k(0), _N - _k(1), None)]
        idx = _N - _k(1)
        env[target.id] = _T(idx)
        st.lex[idx] = self.lx.all
        st.out.parts = []
        depth = len(st.frames) - 1
        self.in_main = True
        try:
            results = self.block(body, st)
        finally:
            self.in_main = False
        for s, sig in results:
            self.stats["iteration_paths"] += 1
            for kind, text in s.viol:
                self.note(kind, text)
            if sig == "raise":
                self.note("unk", "a path through the loop over the items raises an exception; whether it can be taken is not decided")
                continue
            if sig not in (None, "continue"):
                self.note("unk", "the loop over the items can be left before the stream is exhausted")
                continue
            if s.unk:
                for u in s.unk:
                    self.note("unk", u)
                continue
            self.check_iteration(s, s.frames[depth].env.get(bname), s.frames[depth].env, carried, idx)
        # after the loop: the buffer is empty (obligation "flush on terminators"), the other carried values are unknown
        benv = base.frames[-1].env
        benv.update(carried)
        benv[bname] = _Lst()
        benv[target.id] = _Unk("the loop variable after the loop")
        base.out.parts = []
        return self.block(orelse, base) if not after_break else [(base, None)]

    # ------------------------------------------------------------------------------------------------ the inductive step
    def check_blank_only(self, st, where):
        """Outside the loop over the items nothing but whitespace may be yielded."""
        for kind, text in st.viol:
            self.note(kind, text)
        if st.unk:
            for u in st.unk:
                self.note("unk", u)
            return
        cov = _Cover(self, st, _k(0))
        cov.run(st.out.parts)
        for kind, text in cov.problems:
            self.note(kind, text + f" ({where})")
        if cov.ntok and not cov.problems:
            self.note("taint", f"yields items {where}: outside the loop over the stream there is no item to yield")

    def check_iteration(self, s, buf, env, carried, idx):
        """tokens(yielded on this path) ++ buffer at the end  ==  W = buffer at the head ++ [item]."""
        for n, v0 in carried.items():
            if isinstance(v0, _Num) and not isinstance(env.get(n), _Num):
                self.note("unk", f"a counter of the post-processor does not stay an integer on every path")
                return
        if not isinstance(buf, _Lst):
            self.note("unk", "the line buffer is rebound to something that is not a list")
            return
        cov = _Cover(self, s, _k(0))
        cov.run(s.out.parts)
        for kind, text in cov.problems:
            self.note(kind, text)
        if any(k in ("unk", "taint") for k, _t in cov.problems):
            return  # what was yielded could not be read as items of W: the position reached says nothing
        end = cov.cursor
        parts = _canon(buf.parts)
        lexemes = s.lex.get(idx, self.lx.all)
        if not parts:
            self.stats["flush_paths"] += 1
            self.flush_lex |= set(lexemes)
            sg = _sign_for_long_lines(_N - end)
            if sg == "zero":
                cov.line_end()
                for kind, text in cov.problems:
                    self.note(kind, text)
                return
            if sg in ("pos", "pos-long"):
                which = "the last item(s) of the line" if sg == "pos" else "items of lines longer than a constant"
                self.note("flush", f"a path that resets the buffer has yielded the buffered items only up to position {end!r} of {_N!r}: {which} are dropped{cov.hint()}")
            elif sg in ("neg", "neg-long"):
                self.note("taint", f"a path that resets the buffer yields more items than the line holds{cov.hint()}")
            else:
                self.note("unk", f"how many items a flushing path has yielded ({end!r}) cannot be compared with the line length")
            return
        if len(parts) == 1 and parts[0][0] == "seg" and not parts[0][3]:
            _t, lo, hi, _note = parts[0]
            up = _sign_for_long_lines(_N - hi)
            low = _sign_for_long_lines(lo - end)
            if up == "zero" and low == "zero":
                self.nonflush_lex |= set(lexemes)  # a path that keeps (part of) the line buffered: (iv) looks at the items it is taken for
                return
            if up in ("pos", "pos-long"):
                self.note("flush", "on a path through the loop the item drawn from the stream is not in the buffer afterwards and has not been yielded: it is dropped")
            elif low in ("pos", "pos-long"):
                self.note("flush", f"on a path through the loop the buffer is cut down to its last items although the earlier ones (from position {end!r}) have not been yielded: they are dropped")
            elif low in ("neg", "neg-long"):
                self.note("taint", "items that have been yielded stay in the line buffer (the buffer is not reset after the line is written): they are yielded again with the next line")
            else:
                self.note("unk", "the content of the buffer at the end of an iteration cannot be compared with the items drawn")
            return
        for p in parts:
            if p[0] == "one" and isinstance(p[1], _Str) and any(q[0] == "alt" for q in p[1].parts):
                self.note("taint", f"the item is not buffered unchanged: {[q[1] for q in p[1].parts if q[0] == 'alt'][0]}")
                return
        self.note("unk", "the line buffer does not hold a run of unchanged stream items at the end of an iteration")


    # ------------------------------------------------------------------------------------------------ entry
    def analyse(self, pp: _Fn):
        st = _State()
        try:
            for s, v in self.call_fn(pp, [_Stream()], {}, st):
                if not isinstance(v, _Gen):
                    self.note("unk", "the post-processor is not (a call of) a generator function of the package" + (f": {v.why}" if isinstance(v, _Unk) else ""))
                    continue
                for s2, sig in self.run_gen(v, s):
                    if sig == "raise":
                        self.note("unk", "a path through the post-processor raises an exception; whether it can be taken is not decided")
                        continue
                    self.check_blank_only(s2, "after the stream is exhausted")
            if not self.n_main and not self.unk:
                self.note("unk", "no loop that draws the items from the stream handed to the post-processor was located")
        except _Undecided as ex:
            self.note("unk", str(ex))
        except RecursionError:
            self.note("unk", "the post-processor is too deeply nested for the analysis")
        except Exception as ex:  # a gap in the analysis' model of Python must never look like a verdict
            self.note("unk", f"the value flow stopped on a construct it does not model ({type(ex).__name__}: {ex})")
        # (iv) nothing stays in the buffer when the stream ends: the last item of a sentence must take a flushing path
        if self.stats["iteration_paths"]:
            last = self.lx.last_lexemes()
            bad = sorted(self.nonflush_lex & last)
            if bad:
                shown = ", ".join(f"`{b}`" for b in bad[:4])
                self.note("flush", f"a profile can end with {shown} (last symbols of the grammar's sentences: {sorted(last)}), but an item {shown} does not make the post-processor write out the "
                                   "buffered line on every path: when the stream ends the items of the last line(s) are still in the buffer and are never emitted")


class _Cover:
    """Reads a sequence of yielded parts as lexemes: an unchanged item is itself, constant text is whitespace and
    single-character delimiters.  Keeps the position `cursor` in W up to which the items have been yielded (in order, each
    once) and what separates the last lexeme from the next one."""

    def __init__(self, flow, st, cursor):
        self.flow = flow
        self.lex = st.lex
        self.st = st
        self.cursor = cursor
        self.problems = []
        self.ntok = 0
        # separation since the last lexeme
        self.have_prev = False
        self.prev_delim = False
        self.next_delim = False
        self.ws = False
        self.nb = 0
        self.broken = False
        self.cur_blank = True
        self.first = None  # (separated from whatever came before, is a delimiter) of the first lexeme
        self.clipped = None

    def hint(self):
        return f" (the loop / slice `{self.clipped}` does not range over the whole buffer)" if self.clipped else ""

    def problem(self, kind, text):
        if (kind, text) not in self.problems:
            self.problems.append((kind, text))

    def snapshot(self):
        return (self.have_prev, self.prev_delim, self.next_delim, self.ws, self.nb, self.broken, self.cur_blank)

    def restore(self, snap):
        self.have_prev, self.prev_delim, self.next_delim, self.ws, self.nb, self.broken, self.cur_blank = snap

    @staticmethod
    def worst(snaps):
        """Join of separation states: a fact holds after the join only if it holds in every state."""
        return (any(s[0] for s in snaps), all(s[1] for s in snaps if s[0]) if any(s[0] for s in snaps) else False, False, all(s[3] for s in snaps),
                1 if all(s[4] == 1 for s in snaps) else 2, any(s[5] for s in snaps), all(s[6] for s in snaps))

    # -- facts
    def is_delim(self, idx, lex=None):
        lx = self.flow.lx
        s = (lex if lex is not None else self.lex).get(idx)
        return bool(lx.delims_ok and s is not None and s and s <= lx.delims)

    # -- events
    def item_end(self):
        if self.cur_blank and self.have_prev:
            self.broken = True  # an empty (or possibly empty) item: lark's space insertion looks at the previous ITEM
        self.nb += 1
        self.cur_blank = True

    def space(self, definite):
        if definite:
            self.ws = True
            self.cur_blank = False

    def lexeme(self, cur_delim, what):
        separated = self.ws or (self.nb == 1 and not self.broken and self.flow.insert_spaces and self.flow.lx.adj_ok)
        if self.first is None:
            self.first = (self.ws, cur_delim)
        if self.have_prev and not (separated or self.prev_delim or cur_delim or self.next_delim):
            how = "in the same yielded string" if self.nb == 0 else "with an empty string yielded in between" if self.broken else "with no whitespace yielded in between"
            self.problem("taint", f"emits {what} glued to the previous word ({how}): two words fuse into one token" + ("" if self.flow.lx.delims_ok else " [delimiter lemma LX not established]"))
        self.have_prev, self.prev_delim, self.next_delim = True, cur_delim, False
        self.ws, self.nb, self.broken, self.cur_blank = False, 0, False, False

    def advance_to(self, idx, what):
        """The next item yielded is W[idx]: it must be the one at the cursor."""
        d = idx - self.cursor
        if d == _k(0):
            return True
        sg = _sign_for_long_lines(d) if not (set(d.atoms()) - {"n"}) else ("pos" if _ge0(self.st, d - _k(1)) else "neg" if _ge0(self.st, -d - _k(1)) else None)
        if sg in ("pos", "pos-long"):
            self.problem("flush", f"{what} is yielded while the buffered items from position {self.cursor!r} on have not been: they are never emitted{self.hint()}")
            return True
        if sg in ("neg", "neg-long"):
            self.problem("taint", f"{what} is yielded again / out of stream order (items up to position {self.cursor!r} have already been yielded)")
            return False
        self.problem("unk", f"the position of {what} cannot be compared with the items already yielded")
        return False

    def text(self, t):
        for ch in t:
            if ch.isspace():
                self.space(True)
            elif ch in _DELIM_CHARS:
                s = self.lex.get(self.cursor)
                inside = _ge0(self.st, _N - _k(1) - self.cursor)
                if inside and s is not None and s == frozenset({ch}):
                    self.lexeme(True, f"the constant `{ch}`")  # the item at this place is known to be this very delimiter
                    self.cursor = self.cursor + _k(1)
                    self.ntok += 1
                elif inside and s is not None and ch in s and s != self.flow.lx.all:
                    others = sorted(v for v in s if v != ch and not v.startswith("<"))
                    if others:  # every plain lexeme left in the set passes all tests of the path: the item can be that one
                        self.problem("taint", f"yields a constant `{ch}` in the place of the stream item, which on this path can also be `{others[0]}`")
                    else:
                        self.problem("unk", f"a constant `{ch}` is yielded where the item may or may not be `{ch}`")
                else:
                    self.problem("taint", f"yields a constant `{ch}` that is not the stream item at this place (extra, repeated or reordered delimiter)")
            else:
                self.problem("taint", f"yields the text {t!r}, which is neither a stream item nor whitespace")
                return

    def string(self, v: _Str):
        for p in v.parts:
            if p[0] == "txt":
                self.text(p[1])
            elif p[0] == "ws":
                self.space(False)
            elif p[0] == "tok":
                if self.advance_to(p[1], f"item W[{p[1]!r}]"):
                    self.cursor = p[1] + _k(1)
                self.ntok += 1
                self.lexeme(self.is_delim(p[1]), f"item W[{p[1]!r}]")
            elif p[0] == "alt":
                self.problem("taint", f"yields item text that is not the stream item itself: {p[1]}")
            elif p[0] == "join":
                self.join(p[1], p[2], p[3])

    def sep_effect(self, sep):
        if not isinstance(sep, _Str) or sep.symbolic():
            return "bad", "item text"
        if sep.blank():
            return ("ws", None) if any(q[0] == "txt" for q in sep.parts) else ("none", None)
        return "bad", sep.text

    def run_of_items(self, lo, hi, note, between, what):
        """Items W[lo:hi] in order; `between` is what separates two of them ("item": a boundary between yields, "ws",
        "none", ("bad", text))."""
        cnt = hi - lo
        if note:
            self.clipped = what
        if cnt == _k(0):
            return
        if not _ge0(self.st, cnt):
            self.problem("unk", f"{what}: cannot show the bounds are ordered")
            return
        if self.advance_to(lo, f"the run {what}"):
            pass
        self.ntok += 1
        self.lexeme(self.is_delim(lo) and cnt == _k(1), f"the first item of {what}")
        single = _ge0(self.st, _k(1) - cnt)
        if not single:
            if between == "none" or (between == "item" and not (self.flow.insert_spaces and self.flow.lx.adj_ok)):
                self.problem("taint", f"{what}: consecutive buffered items are emitted with nothing between them: two words fuse into one token")
            elif isinstance(between, tuple):
                self.problem("taint", f"{what}: the buffered items are joined with {between[1]!r}, which is neither whitespace nor a stream item")
        self.cursor = hi
        self.have_prev, self.prev_delim, self.next_delim = True, self.is_delim(hi - _k(1)), False
        self.ws, self.nb, self.broken, self.cur_blank = False, 0, False, False

    def join(self, parts, sep, rev):
        kind, why = self.sep_effect(sep)
        between = "ws" if kind == "ws" else "none" if kind == "none" else ("bad", why)
        if rev:
            n = _length(list(parts))
            if n is None or not _ge0(self.st, _k(1) - n):
                self.problem("taint", "the buffered items are joined in reverse order")
                return
        for i, p in enumerate(parts):
            if i:
                if between == "ws":
                    self.space(True)
                elif isinstance(between, tuple):
                    self.problem("taint", f"the buffered items are joined with {between[1]!r}, which is neither whitespace nor a stream item")
            if p[0] == "seg":
                self.run_of_items(p[1], p[2], p[3], between, "the joined buffer" + (f" slice ({p[3]})" if p[3] else ""))
            else:
                self.string(p[1])

    def run(self, parts):
        for p in parts:
            if p[0] == "one":
                v = p[1]
                if isinstance(v, _Str):
                    self.string(v)
                    self.item_end()
                elif isinstance(v, (_Unk, _Opq)):
                    self.problem("unk", f"a yielded value is not modelled: {getattr(v, 'why', None) or getattr(v, 'label', '')}")
                else:
                    self.problem("taint", f"yields a {type(v).__name__.strip('_').lower() if v is not None else 'None'} value, not a stream item or whitespace")
            elif p[0] == "seg":
                self.run_of_items(p[1], p[2], p[3], "item", "`yield from` the buffer" + (f" slice ({p[3]})" if p[3] else ""))
                self.item_end()
            elif p[0] == "rep":
                self.rep(p[1], p[2])

    def rep(self, rep: _Rep, uid):
        alts = [(a, a.deltas.get(uid, ())) for a in rep.alts]
        if not any(parts for _a, parts in alts):
            return
        atom = SymPoly.atom(rep.atom)
        infos = []
        for a, parts in alts:
            toks = []
            for p in parts:
                if p[0] != "one":
                    self.problem("unk", f"the loop over `{rep.what}` appends something that is not a single value per step")
                    return
                if isinstance(p[1], _Str):
                    for q in p[1].parts:
                        if q[0] == "tok":
                            toks.append(q[1])
                        elif q[0] == "join":
                            self.problem("unk", f"the loop over `{rep.what}` joins items inside the loop")
                            return
            infos.append(toks)
        if not any(infos):
            # a loop that yields only whitespace / constants: one possibly empty run of items
            before = self.snapshot()
            snaps = [before]
            for a, parts in alts:
                self.restore(before)
                self.run(parts)
                snaps.append(self.snapshot())
            self.restore(self.worst(snaps))
            if self.have_prev and not self.ws:
                self.broken = True
            return
        if "constant slice bound" in rep.what:
            self.clipped = rep.what
        base = None
        for toks in infos:
            if not toks:
                self.problem("flush", f"on a path through the loop over `{rep.what}` the buffered item is not yielded: it is dropped")
                continue
            if len(toks) > 1:
                if all(t == toks[0] for t in toks):
                    self.problem("taint", f"the loop over `{rep.what}` yields a buffered item more than once")
                else:
                    self.problem("unk", f"the loop over `{rep.what}` yields several buffered items per step")
                return
            b = toks[0] - atom
            sp = _lin(toks[0], rep.atom)
            if sp is not None and sp[0] < 0 and not _ge0(self.st, _k(1) - rep.count):
                self.problem("taint", f"the loop over `{rep.what}` yields the buffered items in reverse order")
                return
            if rep.atom in b.atoms() or (base is not None and b != base):
                self.problem("unk", f"the loop over `{rep.what}` does not yield the buffered items one by one in order")
                return
            base = b
        if base is None:
            return
        self.advance_to(base, f"the first item of the loop over `{rep.what}`")
        outer_lex, outer_st = self.lex, self.st
        inner = _State()
        inner.loops = list(outer_st.loops) + [(rep.atom, rep.count)]
        before = self.snapshot()
        after = {}
        problems0 = list(self.problems)
        # (a) entering the loop, (b) one iteration after another; all with the position symbolic
        entries = [(None, before)]
        for rnd in range(2):  # two passes over the PATHS of the body (not over positions): pass 0 = entered from outside, pass 1 = entered after another path
            for j, (a, parts) in enumerate(alts):
                if not infos[j]:
                    continue
                for i, snap in entries:
                    inner.ge0 = list(a.ge0)
                    self.lex, self.st = a.lex, inner
                    self.restore(snap)
                    self.cursor = base + atom
                    self.run(parts)
                    if rnd == 0:
                        after[j] = self.snapshot()
            entries = []
            for i, (a, parts) in enumerate(alts):
                if i not in after:
                    continue
                inner.ge0 = list(a.ge0)
                if _ge0(inner, atom + _k(1) - rep.count):
                    continue  # this path is taken for the last position only: no iteration follows it
                snap = list(after[i])
                snap[2] = self.is_delim(base + atom + _k(1), a.lex)  # the branch tests of the path say the NEXT item is a delimiter
                entries.append((i, tuple(snap)))
        self.lex, self.st = outer_lex, outer_st
        exits = [before] if not _ge0(outer_st, rep.count - _k(1)) else []
        for i, (a, parts) in enumerate(alts):
            if i not in after:
                continue
            inner.ge0 = list(a.ge0)
            if _ge0(inner, rep.count - atom - _k(2)):
                continue  # this path is never taken for the last position
            snap = list(after[i])
            snap[1] = snap[1] or self.is_delim(base + rep.count - _k(1))
            exits.append(tuple(snap))
        self.restore(self.worst(exits) if exits else before)
        self.cursor = base + rep.count
        self.ntok += 1

    def line_end(self):
        """A flushing path: the last lexeme of this line must not fuse with the first of the next one."""
        if not self.have_prev or self.ws or self.prev_delim:
            return
        if self.first is not None and (self.first[0] or self.first[1]):
            return
        self.problem("unk", "cannot show that the last item of a line and the first item of the next line are kept apart")


def _lexicon(ctx, g=None):
    lx = getattr(ctx, "_c10_lexicon", None)
    if lx is None:
        lx = _Lexicon(g if g is not None else Grammar(ctx.repo))
        ctx._c10_lexicon = lx
    return lx


# ---------------------------------------------------------------------------------------------- locating by role
def _external_name(ctx, f: Func, call: ast.Call):
    """Dotted external name a call's callee resolves to (through the module's imports), else None."""
    d = dotted(call.func)
    if not d:
        return None
    s = ctx.rs.lookup_dotted(f.module.name, d)
    if s is not None and s.kind == "external":
        return s.name
    return None


def _inl(f: Func, e):
    return strip_cast(inline(f.node, e))


_MODULE_BINDINGS = {}
_SCOPES = (ast.FunctionDef, ast.AsyncFunctionDef, ast.ClassDef, ast.Lambda)


def _module_bindings(mod):
    """name -> [value expression | None] for EVERY binding site of the name in the module's own scope: the statements of
    the module body and of the compound statements nested in it (`with`, `if`, `try`, `for`, `while`, `match` - a parser
    built inside `with open(...) as fh:` or under a `try` is as much a module-level object as one built by a plain
    assignment), not those of function / class bodies.  A value expression for `NAME = value` (also chained and annotated
    assignments, `:=`); None for every other way of binding (with/for/except targets, unpacking, augmented assignment,
    import, def, class, del, a `global NAME` declaration in a function of the module)."""
    key = id(mod.tree)
    hit = _MODULE_BINDINGS.get(key)
    if hit is not None and hit[0] is mod.tree:
        return hit[1]
    out = defaultdict(list)

    def target(t, value):
        if isinstance(t, ast.Name):
            out[t.id].append(value)
        elif isinstance(t, (ast.Tuple, ast.List)):
            for x in t.elts:
                target(x, None)
        elif isinstance(t, ast.Starred):
            target(t.value, None)

    def expr(e):
        todo = [e]
        while todo:
            n = todo.pop()
            if isinstance(n, _SCOPES):
                continue
            if isinstance(n, ast.NamedExpr):
                target(n.target, n.value)
            todo.extend(ast.iter_child_nodes(n))

    def visit(body):
        for st in body:
            if isinstance(st, (ast.FunctionDef, ast.AsyncFunctionDef, ast.ClassDef)):
                out[st.name].append(None)
                for d in st.decorator_list:
                    expr(d)
                continue
            if isinstance(st, ast.Assign):
                for t in st.targets:
                    target(t, st.value)
            elif isinstance(st, ast.AnnAssign):
                if st.value is not None:
                    target(st.target, st.value)
            elif isinstance(st, ast.AugAssign):
                target(st.target, None)
            elif isinstance(st, (ast.Import, ast.ImportFrom)):
                for a in st.names:
                    out[(a.asname or a.name).split(".")[0]].append(None)
            elif isinstance(st, ast.Delete):
                for t in st.targets:
                    target(t, None)
            elif isinstance(st, (ast.For, ast.AsyncFor)):
                target(st.target, None)
            elif isinstance(st, (ast.With, ast.AsyncWith)):
                for it in st.items:
                    if it.optional_vars is not None:
                        target(it.optional_vars, None)
            elif isinstance(st, ast.Try) or type(st).__name__ == "TryStar":
                for h in st.handlers:
                    if h.name:
                        out[h.name].append(None)
            elif type(st).__name__ == "Match":
                for case in st.cases:
                    for n in ast.walk(case.pattern):
                        nm = getattr(n, "name", None) if type(n).__name__ in ("MatchAs", "MatchStar") else getattr(n, "rest", None) if type(n).__name__ == "MatchMapping" else None
                        if nm:
                            out[nm].append(None)
            for _field, val in ast.iter_fields(st):
                vals = val if isinstance(val, list) else [val]
                if vals and all(isinstance(x, ast.stmt) for x in vals):
                    visit(vals)
                else:
                    for x in vals:
                        if isinstance(x, ast.expr):
                            expr(x)
                        elif isinstance(x, ast.excepthandler):
                            visit(x.body)
                        elif type(x).__name__ == "match_case":
                            visit(x.body)
                        elif isinstance(x, ast.withitem):
                            expr(x.context_expr)

    visit(mod.tree.body)
    for n in ast.walk(mod.tree):
        if isinstance(n, ast.Global):
            for nm in n.names:
                out[nm].append(None)
    out = dict(out)
    _MODULE_BINDINGS[key] = (mod.tree, out)
    return out


def _is_module_name(f: Func, e) -> bool:
    """e is a name that function f reads from the module's scope (not a parameter / local of f or of an enclosing function)."""
    if not isinstance(e, ast.Name) or e.id not in _module_bindings(f.module):
        return False
    p = f
    while p is not None:
        if p.node is not None and not isinstance(p.node, ast.Lambda) and (assignments_to(p.node, e.id) or e.id in params(p.node)):
            return False
        p = p.parent
    return True


def _module_value(f: Func, e):
    """A name bound exactly once in the module's scope, by an assignment -> its value expression (else e)."""
    for _ in range(4):
        if not _is_module_name(f, e):
            break
        sites = _module_bindings(f.module)[e.id]
        if len(sites) != 1 or sites[0] is None:
            break
        e = sites[0]
    return e


def _recon_class_chain(ctx, f: Func, call: ast.Call):
    """The class a constructor call instantiates, as seen from lark's Reconstructor: [] when it IS lark's Reconstructor
    (resolved through the imports), [(class symbol, ClassDef), ...] (most derived first) when it is a package class whose
    single-inheritance chain ends in lark's Reconstructor, None otherwise (another class, several bases, not resolvable)."""
    d = dotted(call.func)
    s = ctx.rs.lookup_dotted(f.module.name, d) if d else None
    chain, seen = [], set()
    while s is not None:
        if s.kind == "external":
            n = s.name or ""
            return chain if n.startswith("lark") and n.split(".")[-1] == "Reconstructor" else None
        if s.kind != "class" or s.fq in seen or s.module not in ctx.repo.modules:
            return None
        seen.add(s.fq)
        node = ctx.repo.modules[s.module].classes.get(s.name)
        if node is None or len(node.bases) != 1 or node.keywords:
            return None
        chain.append((s, node))
        bd = dotted(node.bases[0])
        s = ctx.rs.lookup_dotted(s.module, bd) if bd else None
    return None


def _is_reconstructor(ctx, f: Func, e) -> bool:
    """A lark `Reconstructor(...)` construction, or that of a package subclass of it (what the subclass overrides is R11's
    subject)."""
    e = _module_value(f, _inl(f, e))
    return isinstance(e, ast.Call) and _recon_class_chain(ctx, f, e) is not None


def _reconstruct_calls(ctx, f: Func):
    """(call, reconstructor-constructor call) for every `.reconstruct(...)` on a lark Reconstructor in f."""
    out = []
    for c in _own_nodes(f.node):
        if isinstance(c, ast.Call) and isinstance(c.func, ast.Attribute) and c.func.attr == "reconstruct" and _is_reconstructor(ctx, f, c.func.value):
            out.append((c, _module_value(f, _inl(f, c.func.value))))
    return out


def _lark_arg(call: ast.Call, idx: int, name: str):
    """Argument of lark's Reconstructor API by position or keyword (signatures are part of the trusted base)."""
    if len(call.args) > idx and not any(isinstance(a, ast.Starred) for a in call.args[: idx + 1]):
        return call.args[idx]
    return kwarg(call, name)


def _parser_identity(ctx, f: Func, e):
    """A stable identity for `the parser object` an expression denotes: the module-level name bound to a Lark instance."""
    return _parser_binding(ctx, f, e)[0]


def _is_lark_parser_call(ctx, f: Func, v) -> bool:
    """`Lark(...)`, `Lark.open(...)`, `Lark.open_from_package(...)` of the lark library (resolved through the imports)."""
    if isinstance(v, ast.Call):
        n = _external_name(ctx, f, v) or ""
        return n.startswith("lark") and ".Lark" in "." + n
    return False


def _parser_binding(ctx, f: Func, e):
    """(identity, None) when the expression denotes a module-level name all of whose bindings (wherever they stand in the
    module's own scope: plain statement, `with`, `try`, `if` ...) are lark `Lark(...)` / `Lark.open(...)` constructions -
    the identity is that name, followed through `ALIAS = NAME` bindings; (None, reason) when it denotes a module-level
    name whose bindings the rule cannot see as such a construction (the parser object cannot be located: undecided);
    (None, None) when it is not a module-level name at all (a parser of the function's own)."""
    e = _inl(f, e)
    if not _is_module_name(f, e):
        return None, None
    bindings = _module_bindings(f.module)
    seen = set()
    while True:
        seen.add(e.id)
        sites = bindings.get(e.id, [])
        if len(sites) == 1 and isinstance(sites[0], ast.Name) and sites[0].id in bindings and sites[0].id not in seen:
            e = sites[0]
            continue
        if sites and all(_is_lark_parser_call(ctx, f, v) for v in sites):
            return e.id, None
        shown = ", ".join(sorted({src(v)[:60] if v is not None else "<bound by another statement form>" for v in sites}))
        return None, f"the module-level name `{e.id}` is bound to {shown}: not (only) a lark `Lark(...)` construction the rule can follow, so which parser object it denotes is not located"




def _callable_of(ctx, f: Func, e, flow=None):
    """The package callable an expression of function f denotes -> _Fn, "none" (the constant None), or None.  Resolved
    through single assignments, nested defs, module-level functions, methods of the class, lambdas, functools.partial."""
    e = _inl(f, e)
    if isinstance(e, ast.Constant) and e.value is None:
        return "none"
    flow = flow or _Flow(ctx, _lexicon(ctx), True)
    try:
        v = flow.static_value(f, e)
    except Exception:  # not resolvable by the static name lookup: the obligations are undecided
        return None
    return v if isinstance(v, _Fn) else None


def _postproc_obligations(ctx, f: Func, call: ast.Call, g=None):
    pp_arg = _lark_arg(call, 1, "postproc")
    spaces = True
    sp = _lark_arg(call, 2, "insert_spaces")
    if sp is not None:
        spv = _inl(f, sp)
        if isinstance(spv, ast.Constant) and spv.value in (False, 0, None):
            spaces = False
    lx = _lexicon(ctx, g)
    flow = _Flow(ctx, lx, spaces)
    pp = _callable_of(ctx, f, pp_arg, flow) if pp_arg is not None else "none"
    if pp == "none":
        msg = "no post-processor is handed to Reconstructor.reconstruct: lark joins the item stream as it is"
        ctx.ob("R3", "TAINT", f, "postproc yields", True, msg, call, nontrivial=False)
        ctx.ob("R3", "TAINT", f, "flush on terminators", True, msg, call, nontrivial=False)
        return
    if pp is None:
        why = f"the post-processor handed to Reconstructor.reconstruct (`{src(pp_arg)}`) cannot be resolved to a function of the package"
        ctx.undecided("R3", "TAINT", f, "postproc yields", why, call)
        ctx.undecided("R3", "TAINT", f, "flush on terminators", why, call)
        return
    where = pp.func if isinstance(pp.func, Func) and pp.func.node is pp.node else f
    flow.analyse(pp)
    name = getattr(pp.func, "qualname", "?") if pp.func is not None and pp.func.node is pp.node else src(pp_arg)[:60]
    scope_txt = (f"one arbitrary iteration of the loop over the items, {flow.stats['iteration_paths']} path(s), {flow.stats['flush_paths']} of them write the line out; "
                 f"{flow.stats['inner_loops']} inner loop(s) summarised with a symbolic position; line length n symbolic")
    why = f"path-wise value flow of the post-processor `{name}` does not decide this: " + "; ".join(flow.unk[:3])
    if flow.taint:
        ctx.ob("R3", "TAINT", where, "postproc yields", False, "post-processor: " + flow.taint[0] + (f" (+{len(flow.taint) - 1} more)" if len(flow.taint) > 1 else ""), pp.node)
    elif flow.unk:
        ctx.undecided("R3", "TAINT", where, "postproc yields", why, pp.node)
    else:
        ctx.ob("R3", "TAINT", where, "postproc yields", True,
               "inductive step, for every path of one iteration: the item drawn is appended to the line buffer unchanged; what is yielded is, whitespace aside, exactly the buffered items W[0:n] - each "
               "once, in order, never through a transforming string operation, two words never fused (whitespace, or adjacent yields that lark separates, or a `{`/`}`/`;` on one side) - and outside "
               f"the loop only whitespace is yielded ({scope_txt})", pp.node)
    if flow.flush:
        ctx.ob("R3", "TAINT", where, "flush on terminators", False, flow.flush[0] + (f" (+{len(flow.flush) - 1} more)" if len(flow.flush) > 1 else ""), pp.node)
    elif flow.unk:
        ctx.undecided("R3", "TAINT", where, "flush on terminators", why, pp.node)
    else:
        last = sorted(lx.last_lexemes())
        ctx.ob("R3", "TAINT", where, "flush on terminators", True,
               ("on the paths whose output could be read: " if flow.taint else "") + f"every path of an iteration ends with yielded items ++ buffer == W: either nothing is yielded and the buffer is W, or the "
               f"whole of W is yielded and the buffer is reset; the paths that keep the buffer are taken only for items other than {last}, the symbols a sentence of the grammar can end with, so the "
               f"buffer is empty when the stream ends (assumption: the stream is a sentence of c2profile.lark) ({scope_txt})", pp.node)


def _tree_stores(fn: Func):
    """Assignments `<x>.tree = value` of a function (the place where a parse tree is attached to a profile)."""
    out = []
    for s in _own_nodes(fn.node):
        tgts = s.targets if isinstance(s, ast.Assign) else [s.target] if isinstance(s, ast.AnnAssign) and s.value is not None else []
        for t in tgts:
            if isinstance(t, ast.Attribute) and t.attr == "tree":
                out.append((s, t))
    return out


def _stores_parsed_tree(fn: Func) -> bool:
    return any(isinstance(n, ast.Call) and isinstance(n.func, ast.Attribute) and n.func.attr == "parse" for s, _t in _tree_stores(fn) for n in ast.walk(_inl(fn, s.value)))


def _by_role(ctx, name: str, has_role, keeps_role=None):
    """The function `c2profile.<name>` if it (still) plays the role, else the functions of the module that do."""
    mod = ctx.repo.module(MOD)
    f = mod.funcs.get(name)
    if f is not None and (keeps_role or has_role)(f):
        return [f]
    return [g for _q, g in sorted(mod.funcs.items()) if g is not f and has_role(g)]


def r3(ctx, g=None):
    mod = ctx.repo.module(MOD)
    renderers = _by_role(ctx, "C2Profile.as_text", lambda g: bool(_reconstruct_calls(ctx, g)))
    readers = _by_role(ctx, "C2Profile.from_text", _stores_parsed_tree, lambda g: bool(_tree_stores(g)))
    recon_parsers = set()
    # ------------------------------------------------------------------ the post-processor of the token stream
    if not renderers:
        where = mod.funcs.get("C2Profile.as_text") or mod.relpath
        why = "no function of c2profile.py calls `.reconstruct(...)` on a lark Reconstructor: the text is produced by a different mechanism"
        ctx.undecided("R3", "TAINT", where, "postproc yields", why)
        ctx.undecided("R3", "TAINT", where, "flush on terminators", why)
        ctx.undecided("R3", "AGREE", where, "return Reconstructor(parser).reconstruct(self.tree, postproc)", why)
    for f in renderers:
        calls = _reconstruct_calls(ctx, f)
        for call, _mk in calls:
            _postproc_obligations(ctx, f, call, g)
        # -------------------------------------------------------------- it returns that reconstruction of its own tree
        rets = [s for s in _own_nodes(f.node) if isinstance(s, ast.Return)]
        problems, wrapped = [], []
        for r in rets:
            v = _inl(f, r.value) if r.value is not None else None
            if not (isinstance(v, ast.Call) and any(src(v) == src(_inl(f, c)) for c, _mk in calls)):
                problems.append(f"returns {src(r.value) if r.value is not None else None}, not the reconstruction itself")
        if not rets:
            problems.append(f"{f.qualname} has no return statement")
        pid_from = None
        unlocated = []
        for c, mk in calls:
            parser = _lark_arg(mk, 0, "parser")
            pid, unl = _parser_binding(ctx, f, parser) if parser is not None else (None, None)
            if any(isinstance(st, ast.FunctionDef) and st.name in ("__init__", "__new__") for _s, node in (_recon_class_chain(ctx, f, mk) or []) for st in node.body):
                # a subclass with a constructor of its own: the arguments at the call are not lark's signature
                pid, unl = None, "the reconstructor class defines its own constructor: which parser it hands to lark's Reconstructor is not located"
            if pid is None and unl:
                unlocated.append(unl)
            elif parser is None or pid is None:
                problems.append(f"Reconstructor is built from {src(parser) if parser is not None else None}, not from the module's Lark parser")
            else:
                pid_from = pid
                recon_parsers.add(pid)
            tree = _lark_arg(c, 0, "tree")
            self_name = params(f.node)[0] if params(f.node) else "self"
            tv = _inl(f, tree) if tree is not None else None
            if tv is None or not any(dotted(n) == f"{self_name}.tree" for n in ast.walk(tv)):
                problems.append(f"reconstructs {src(tree) if tree is not None else None}, not the profile's own tree")
            elif dotted(tv) != f"{self_name}.tree":
                wrapped.append(src(tree))
        if unlocated and not problems:
            ctx.undecided("R3", "AGREE", f, "return Reconstructor(parser).reconstruct(self.tree, postproc)", unlocated[0])
        elif wrapped and not problems:
            ctx.undecided("R3", "AGREE", f, "return Reconstructor(parser).reconstruct(self.tree, postproc)", f"the tree handed to reconstruct is derived from the profile's tree (`{wrapped[0]}`); whether it is the same tree is not decided")
        else:
            ctx.ob("R3", "AGREE", f, "return Reconstructor(parser).reconstruct(self.tree, postproc)", not problems,
                   f"{f.qualname} returns the reconstruction of the profile's own tree by a Reconstructor of the module parser `{pid_from}`" if not problems else "; ".join(problems))
    # ------------------------------------------------------------------ from_text stores the parser's tree of the source unmodified
    if not readers:
        where = mod.funcs.get("C2Profile.from_text") or mod.relpath
        ctx.undecided("R3", "AGREE", where, "profile.tree = parser.parse(source)", "no function of c2profile.py assigns a `.parse(...)` result to a `.tree` attribute: the tree is attached by a different mechanism")
    for ft in readers:
        problems, unlocated = [], []
        for s, _t in _tree_stores(ft):
            v = _inl(ft, s.value)
            if isinstance(v, ast.Call) and isinstance(v.func, ast.Attribute) and v.func.attr == "parse":
                pid, unl = _parser_binding(ctx, ft, v.func.value)
                a = _lark_arg(v, 0, "text")
                a = _inl(ft, a) if a is not None else None
                src_ok = isinstance(a, ast.Name) and a.id in params(ft.node) and a.id not in ("self", "cls") and not assignments_to(ft.node, a.id)
                if pid is None and unl:
                    unlocated.append(unl)
                    if not src_ok:
                        problems.append(f"parses {src(a) if a is not None else None}, not the source text it was given")
                    elif len(v.args) + len(v.keywords) > 1:
                        problems.append(f"passes extra arguments to parse(): {src(v)}")
                elif pid is None:
                    problems.append(f"parses with {src(v.func.value)}, not the module's Lark parser")
                elif recon_parsers and pid not in recon_parsers:
                    problems.append(f"parses with `{pid}` but the text is reconstructed with `{sorted(recon_parsers)[0]}`")
                elif not src_ok:
                    problems.append(f"parses {src(a) if a is not None else None}, not the source text it was given")
                elif len(v.args) + len(v.keywords) > 1:
                    problems.append(f"passes extra arguments to parse(): {src(v)}")
            else:
                problems.append(f"stores {src(s.value)}")
        if unlocated and not problems:
            ctx.undecided("R3", "AGREE", ft, "profile.tree = parser.parse(source)", unlocated[0])
            continue
        ctx.ob("R3", "AGREE", ft, "profile.tree = parser.parse(source)", not problems, f"{ft.qualname} stores the parser's tree of its source argument unmodified" if not problems else f"{ft.qualname}: " + "; ".join(problems))



def r5(ctx, g: Grammar):
    """Every `keyword { X* }` block form accepts the empty body (quantifier: "repeated and empty blocks")."""
    blocks = {}
    for r in g.rules:
        if r.origin.startswith("__") or not g.is_block(r):
            continue
        key = (r.origin, r.tree_name)
        body = [s for s in r.expansion if not s.is_term and s.name != "variant"]
        blocks.setdefault(key, []).append(len(body) == 0)
    n = 0
    for (origin_, name), empties in sorted(blocks.items()):
        n += 1
        ok = any(empties)
        ctx.rep.ob("R5", "GRAM", f"c2profile.lark::{origin_}::{name} {{}}", ok, f"block `{name}` of rule {origin_} has an alternative with an empty body={ok}" + ("" if ok else ": an empty block is rejected by the parser"),
                   "dissect/cobaltstrike/c2profile.lark", 0)
    ctx.rep.count("block_forms", n, floor=25)


# =====================================================================================================================
# R9 - every statement form of the profile language is still accepted where it was ("every statement form the grammar
# supports - all blocks, variants, options, data transforms, execute and BeaconGate lists - is accepted").
#
# The compiled grammar is turned into its LANGUAGE VIEW: for every block context (the stack of block keywords that
# encloses a statement: `` = top level, `http-get.client`, `stage.beacon_gate` ...) the set of statement forms the
# grammar accepts there, a form being the terminal sequence of a production - keywords and punctuation as written,
# `<STRING>` for a string literal, `{ }` for a block of any content (empty bodies are R5's business).  The view is
# computed from the productions only, looking THROUGH everything that leaves no token: rule names, `?inline` / `_spliced`
# / unit productions (`x: y`), lark's `__x_star_N` repetition helpers, the `steps termination` wrapper of a data
# transform, the order of the alternatives, one rule shared by several blocks or a copy per block.  Nonterminals that
# stand outside the braces of a production (`string`, `variant`, a factored-out tail) are replaced by the finitely many
# token sequences they derive; a kept terminal that is a finite alternation of literals (OPTION) by its words.
# The view is compared completely with the reference table `_LANGUAGE` below (the Malleable C2 statement forms per block
# context, as supported by the grammar this checker was written against).  Only ONE direction is a condition: a reference
# form that is missing from its context is a profile statement the parser now rejects (and a tree the reconstructor can no
# longer print) -> violated.  Further forms (new options, new blocks) are not a concern of this rule.  A production the
# view cannot render (recursion outside braces, too many alternatives) -> the contexts below it that miss a form are
# undecided.  No text is parsed or lexed; nothing is enumerated but the grammar's own finite production table.
# =====================================================================================================================
def _st(shape, names):
    return tuple(shape.replace("@", n) for n in names.split())


_DATA_TRANSFORM = _st("@ ;", "base64 base64url mask netbios netbiosu print uri-append") + _st("@ <STRING> ;", "append prepend header parameter")
_HTTP_OPTIONS = _st("@ <STRING> <STRING> ;", "header parameter") + _st("@ { }", "output")
_HTTP_CLIENT = _HTTP_OPTIONS + _st("@ { }", "metadata id") + _st("set @ <STRING> ;", "verb")
_HTTP_GET_POST = _st("set @ <STRING> ;", "uri verb") + _st("@ { }", "client server")
_PE_TRANSFORM = _st("@ <STRING> ;", "append prepend") + _st("@ <STRING> <STRING> ;", "strrep")
_LANGUAGE = {
    "": _st("set @ <STRING> ;", "sample_name data_jitter dns_idle dns_max_txt dns_sleep dns_stager_prepend dns_stager_subhost dns_ttl host_stage jitter maxdns pipename pipename_stager "
            "sleeptime smb_frame_header ssh_banner ssh_pipename tcp_frame_header tcp_port useragent spawnto spawnto_x86 spawnto_x64 amsi_disable create_remote_thread "
            "hijack_remote_thread tasks_max_size tasks_proxy_max_size tasks_dns_proxy_max_size")
        + _st("@ { }", "http-config https-certificate code-signer http-stager http-get http-post stage process-inject post-ex dns-beacon http-beacon")
        + _st("@ <STRING> { }", "https-certificate http-stager http-get http-post"),
    "http-config": _st("set @ <STRING> ;", "headers trust_x_forwarded_for block_useragents allow_useragents") + _st("@ <STRING> <STRING> ;", "header"),
    "https-certificate": _st("set @ <STRING> ;", "C CN L OU O ST validity keystore password"),
    "code-signer": _st("set @ <STRING> ;", "keystore password alias digest_algorithm timestamp timestamp_url"),
    "http-stager": _st("set @ <STRING> ;", "uri_x86 uri_x64") + _st("@ { }", "client server"),
    "http-stager.client": _HTTP_OPTIONS,
    "http-stager.client.output": _DATA_TRANSFORM,
    "http-stager.server": _HTTP_OPTIONS,
    "http-stager.server.output": _DATA_TRANSFORM,
    "http-get": _HTTP_GET_POST,
    "http-get.client": _HTTP_CLIENT,
    "http-get.client.metadata": _DATA_TRANSFORM,
    "http-get.client.id": _DATA_TRANSFORM,
    "http-get.client.output": _DATA_TRANSFORM,
    "http-get.server": _HTTP_OPTIONS,
    "http-get.server.output": _DATA_TRANSFORM,
    "http-post": _HTTP_GET_POST,
    "http-post.client": _HTTP_CLIENT,
    "http-post.client.metadata": _DATA_TRANSFORM,
    "http-post.client.id": _DATA_TRANSFORM,
    "http-post.client.output": _DATA_TRANSFORM,
    "http-post.server": _HTTP_OPTIONS,
    "http-post.server.output": _DATA_TRANSFORM,
    "stage": _st("set @ <STRING> ;", "allocator cleanup magic_pe magic_mz_x86 magic_mz_x64 obfuscate sleep_mask smartinject stomppe userwx checksum compile_time entry_point "
                 "image_size_x86 image_size_x64 module_x86 module_x64 name rich_header syscall_method data_store_size")
             + _st("@ <STRING> ;", "string stringw") + _st("@ { }", "transform-x86 transform-x64 beacon_gate"),
    "stage.transform-x86": _PE_TRANSFORM,
    "stage.transform-x64": _PE_TRANSFORM,
    "stage.beacon_gate": _st("@ ;", "None Comms Core Cleanup All InternetOpenA InternetConnectA VirtualAlloc VirtualAllocEx VirtualProtect VirtualProtectEx VirtualFree "
                             "GetThreadContext SetThreadContext ResumeThread CreateThread CreateRemoteThread OpenProcess OpenThread CloseHandle CreateFileMappingA MapViewOfFile "
                             "UnmapViewOfFile VirtualQuery DuplicateHandle ReadProcessMemory WriteProcessMemory ExitThread"),
    "process-inject": _st("set @ <STRING> ;", "allocator bof_allocator bof_reuse_memory min_alloc startrwx userwx") + _st("@ <STRING> ;", "disable")
                      + _st("@ { }", "transform-x86 transform-x64 execute"),
    "process-inject.transform-x86": _PE_TRANSFORM,
    "process-inject.transform-x64": _PE_TRANSFORM,
    "process-inject.execute": _st("@ ;", "CreateThread CreateRemoteThread NtQueueApcThread NtQueueApcThread-s RtlCreateUserThread SetThreadContext")
                              + _st("@ <STRING> ;", "CreateThread CreateRemoteThread"),
    "post-ex": _st("set @ <STRING> ;", "spawnto_x86 spawnto_x64 obfuscate smartinject amsi_disable pipename keylogger thread_hint"),
    "dns-beacon": _st("set @ <STRING> ;", "dns_idle dns_max_txt dns_sleep dns_ttl maxdns dns_stager_prepend dns_stager_subhost beacon get_A get_AAAA get_TXT put_metadata put_output "
                      "ns_response") + ("# dns_resolver <STRING> ;",),
    "http-beacon": _st("set @ <STRING> ;", "library data_required data_required_length"),
}
_MAX_FORM_ALTS = 256
_MAX_BLOCK_NEST = 8


class _LanguageView:
    """Block context -> statement forms of the compiled grammar (see the R9 comment above)."""

    def __init__(self, g: Grammar, lx: "_Lexicon"):
        self.g, self.lx = g, lx
        self.forms = {}  # context -> set of forms
        self.problems = {}  # context -> productions the view could not render
        self._seq = {}
        self._seen = set()
        self._visit("start", ())

    def _term_tokens(self, s):
        if s.filter_out:
            return [s.literal if s.literal is not None else f"<{s.name}>"]
        lex = self.lx.of_terminal.get(s.name)
        if lex and len(lex) <= _MAX_FORM_ALTS and not any(v.startswith("<") for v in lex):
            return sorted(lex)
        if lex == {_STRING_CLASS}:
            return [_STRING_CLASS]
        return [f"<{s.name}>"]

    def _seqs(self, name, stack=()):
        """The token sequences a nonterminal derives if they are finitely many and hold no block, else None."""
        if name in self._seq:
            return self._seq[name]
        if name in stack:
            return None
        out = set()
        for r in self.g.by_origin.get(name, []):
            alts = [()]
            for s in r.expansion:
                if s.is_term:
                    toks = self._term_tokens(s)
                    nxt = None if ("{" in toks or "}" in toks) else [(t,) for t in toks]
                else:
                    sub = self._seqs(s.name, stack + (name,))
                    nxt = None if sub is None else sorted(sub)
                if nxt is None or len(alts) * len(nxt) > _MAX_FORM_ALTS:
                    alts = None
                    break
                alts = [a + b for a in alts for b in nxt]
            if alts is None:
                out = None
                break
            out.update(alts)
        if not stack:
            self._seq[name] = out
        return out

    def _visit(self, name, path):
        if (name, path) in self._seen:
            return
        self._seen.add((name, path))
        key = ".".join(path)
        forms = self.forms.setdefault(key, set())
        for r in self.g.by_origin.get(name, []):
            if not any(s.is_term for s in r.expansion):
                # leaves no token of its own: start, ?value, data_transform, steps, __x_star_N, `x: y` ...
                for s in r.expansion:
                    self._visit(s.name, path)
                continue
            alts, depth, head, bodies, bad = [()], 0, [], [], None
            for s in r.expansion:
                if s.is_term:
                    nxt = [(t,) for t in self._term_tokens(s)]
                    if s.filter_out and s.literal == "{":
                        depth += 1
                    elif s.filter_out and s.literal == "}":
                        depth -= 1
                        if depth < 0:
                            break
                    elif depth > 0:
                        bad = "a terminal inside the braces of the production"
                        break
                    elif s.filter_out and s.literal is not None and not bodies:
                        head.append(s.literal)
                elif depth > 0:
                    bodies.append(s.name)
                    continue
                else:
                    sub = self._seqs(s.name)
                    if sub is None:
                        bad = f"`{s.name}` outside the braces derives a block, recursion or too many alternatives"
                        break
                    nxt = sorted(sub)
                if len(alts) * len(nxt) > _MAX_FORM_ALTS:
                    bad = "too many alternatives"
                    break
                alts = [a + b for a in alts for b in nxt]
            if bad is None and depth != 0:
                bad = "unbalanced braces"
            if bad is None and bodies and len(path) >= _MAX_BLOCK_NEST:
                bad = "blocks nested too deeply"
            if bad is not None:
                self.problems.setdefault(key, []).append(f"`{r.origin}: {' '.join(x.literal or x.name for x in r.expansion)}` ({bad})")
                continue
            forms.update(" ".join(a) for a in alts)
            if bodies:
                sub = path + (" ".join(head),)
                self.forms.setdefault(".".join(sub), set())
                for b in bodies:
                    self._visit(b, sub)


def _form_head(form):
    """Keywords of a block form in front of its brace (what the context of its body is called), None for a statement."""
    toks = form.split()
    if "{" not in toks:
        return None
    return " ".join(t for t in toks[: toks.index("{")] if not t.startswith("<"))


def r9(ctx, g: Grammar):
    view = _LanguageView(g, _lexicon(ctx, g))
    where = "dissect/cobaltstrike/c2profile.lark"
    n = nforms = 0
    for key in sorted(_LANGUAGE):
        ref = _LANGUAGE[key]
        path = key.split(".") if key else []
        # is the block of this context still a statement form of the enclosing context?  (if not, that is reported there)
        cut = False
        for i in range(len(path)):
            parent = ".".join(path[:i])
            have = view.forms.get(parent, set())
            wanted = [f for f in _LANGUAGE.get(parent, ()) if _form_head(f) == path[i]]
            if wanted and not any(f in have for f in wanted):
                cut = True
                break
        if cut:
            continue
        n += 1
        nforms += len(ref)
        have = view.forms.get(key, set())
        missing = [f for f in ref if f not in have]
        name = f"`{key.replace('.', ' / ')} {{ }}`" if key else "the top level"
        text = f"c2profile.lark::statement forms of {name}"
        extra = len(have - set(ref))
        if not missing:
            ctx.rep.ob("R9", "GRAM", text, True, f"all {len(ref)} statement forms of the profile language in {name} are accepted by the compiled grammar"
                       + (f" ({extra} further form(s) accepted)" if extra else ""), where, 0)
            continue
        probs = [p for i in range(len(path) + 1) for p in view.problems.get(".".join(path[:i]), [])]
        listed = "; ".join(f"`{f}`" for f in missing[:8]) + (f" ... ({len(missing)} in all)" if len(missing) > 8 else "")
        if probs:
            ctx.rep.ob("R9", "GRAM", text, False, f"UNDECIDED: {listed} not found in {name}, but the language view of the grammar is incomplete there: " + "; ".join(probs[:3]), where, 0,
                       undecided=True)
        else:
            ctx.rep.ob("R9", "GRAM", text, False, f"the compiled grammar no longer accepts {listed} in {name}: a profile with that statement is rejected by the parser "
                       f"and a tree holding it cannot be printed ({len(ref) - len(missing)} of {len(ref)} reference forms accepted there)", where, 0)
    ctx.rep.count("language_contexts", n, floor=34)
    ctx.rep.count("language_forms", nforms, floor=320)


# =====================================================================================================================
# R7 - lexical precedence of the ignored terminals (comments and whitespace are ignored in EVERY parser state).
#
# lark's lalr lexers (basic and contextual) try the terminals of a parser state as ONE alternation in the order
#     (-priority, -max_width, -len(pattern), name)          [lark/lexer.py, BasicLexer.__init__]
# and python's alternation takes the first alternative that matches, not the longest.  The ignored terminals are offered
# in every state.  Hence: if a non-ignored terminal T of a reachable rule stands BEFORE an ignored terminal I in that
# order and some word of T is the beginning of a word of I, then in every parser state that can expect T a comment (or
# whitespace) that starts with that word is handed to the parser as T - it is not ignored any more, and a profile that
# differs from an accepted one only by a comment is rejected or read differently.
# The rule works on the compiled terminal table and on regex SYNTAX TREES (first-character classes, the shape F C* of the
# ignored terminal, existence of a word of T inside F C*); no text is ever lexed.
# =====================================================================================================================
class _Cls:
    """A class of single characters from a regex syntax tree: literals, ranges, categories, possibly negated."""

    __slots__ = ("neg", "lits", "ranges", "cats")
    _CATS = {
        "CATEGORY_SPACE": (lambda ch: ch.isspace(), False), "CATEGORY_NOT_SPACE": (lambda ch: ch.isspace(), True),
        "CATEGORY_DIGIT": (lambda ch: ch.isdecimal(), False), "CATEGORY_NOT_DIGIT": (lambda ch: ch.isdecimal(), True),
        "CATEGORY_WORD": (lambda ch: ch.isalnum() or ch == "_", False), "CATEGORY_NOT_WORD": (lambda ch: ch.isalnum() or ch == "_", True),
    }

    def __init__(self, neg=False, lits=(), ranges=(), cats=()):
        self.neg = neg
        self.lits = frozenset(lits)
        self.ranges = tuple(ranges)
        self.cats = tuple(cats)

    def simple(self):
        return not self.cats

    def contains(self, c: int):
        """Is the character with code c in the class?  True / False / None (a category the rule does not know)."""
        m = c in self.lits or any(lo <= c <= hi for lo, hi in self.ranges)
        if not m:
            for cat in self.cats:
                spec = self._CATS.get(cat)
                if spec is None:
                    return None
                if spec[0](chr(c)) != spec[1]:
                    m = True
                    break
        return m != self.neg

    def size(self):
        """Number of characters named by a class without categories (ignoring the negation)."""
        return len(self.lits) + sum(hi - lo + 1 for lo, hi in self.ranges)

    def common(self, o: "_Cls"):
        """Is there a character in both classes?  True / False / None (not decided)."""
        a, b = self, o
        if a.neg and b.neg:
            return True if a.simple() and b.simple() else None  # two finite exclusion sets do not exhaust the alphabet
        if a.neg:
            a, b = b, a
        unknown = False  # a is positive
        for c in a.lits:
            r = b.contains(c)
            if r:
                return True
            unknown = unknown or r is None
        if b.neg:
            for lo, hi in a.ranges:
                if b.simple() and hi - lo + 1 > b.size():
                    return True  # the range has more characters than the other class excludes
                unknown = True
            return None if unknown or a.cats else False
        for c in b.lits:
            r = a.contains(c)
            if r:
                return True
            unknown = unknown or r is None
        if any(lo <= hi2 and lo2 <= hi for lo, hi in a.ranges for lo2, hi2 in b.ranges) or set(a.cats) & set(b.cats):
            return True
        if (a.cats and (b.ranges or b.cats)) or (b.cats and a.ranges):
            unknown = True
        return None if unknown else False

    def __repr__(self):
        items = [repr(chr(c)) for c in sorted(self.lits)] + [f"{chr(lo)!r}-{chr(hi)!r}" for lo, hi in self.ranges] + [c.replace("CATEGORY_", "\\").lower() for c in self.cats]
        return ("not " if self.neg else "") + "{" + ",".join(items) + "}"


def _char_item(op, arg):
    """The class of a syntax-tree item that consumes exactly one character (else None)."""
    name = str(op)
    if name == "LITERAL":
        return _Cls(False, [arg])
    if name == "NOT_LITERAL":
        return _Cls(True, [arg])
    if name == "ANY":
        return _Cls(True, [10])  # `.` without DOTALL (terminals with flags are not analysed)
    if name == "IN":
        neg, lits, ranges, cats = False, [], [], []
        for o, a in arg:
            n = str(o)
            if n == "NEGATE":
                neg = True
            elif n == "LITERAL":
                lits.append(a)
            elif n == "RANGE":
                ranges.append((a[0], a[1]))
            elif n == "CATEGORY":
                cats.append(str(a))
            else:
                return None
        return _Cls(neg, lits, ranges, cats)
    return None


def _first_classes(seq):
    """(classes, nullable): the characters a word of the regex syntax tree `seq` can start with.  None: not determined
    (look-around, anchors, back references before the first character)."""
    out = []
    for op, arg in seq:
        name = str(op)
        c = _char_item(op, arg)
        if c is not None:
            return out + [c], False
        if name == "SUBPATTERN":
            if arg[1] or arg[2]:
                return None  # inline flags
            sub = _first_classes(list(arg[-1]))
        elif name == "BRANCH":
            subs = [_first_classes(list(a)) for a in arg[1]]
            if any(s is None for s in subs):
                return None
            sub = ([c for s in subs for c in s[0]], any(s[1] for s in subs))
        elif name in ("MAX_REPEAT", "MIN_REPEAT", "POSSESSIVE_REPEAT"):
            sub = _first_classes(list(arg[2]))
            if sub is not None and arg[0] == 0:
                sub = (sub[0], True)
        else:
            return None
        if sub is None:
            return None
        out.extend(sub[0])
        if not sub[1]:
            return out, False
    return out, True


def _f_c_star(seq):
    """(F, C) if the syntax tree denotes exactly F C* or C+ with single-character classes F and C (every word f c1 .. ck is
    then in the language), else None."""
    seq = list(seq)

    def star(item, least):
        if str(item[0]) in ("MAX_REPEAT", "MIN_REPEAT") and item[1][0] == least and str(item[1][1]) == "MAXREPEAT" and len(item[1][2]) == 1:
            return _char_item(*item[1][2][0])
        return None

    if len(seq) == 2:
        f, c = _char_item(*seq[0]), star(seq[1], 0)
        if f is not None and c is not None:
            return f, c
    if len(seq) == 1:
        c = star(seq[0], 1)
        if c is not None:
            return c, c
    return None


def _word_inside(seq, f: _Cls, c: _Cls):
    """Does the regex syntax tree `seq` have a non-empty word that lies in F C* (first character in F, the others in C)?
    True / False / None.  Computed on the tree: the set of `started` flags reachable by matching `seq` with every consumed
    character taken from the class that is due."""
    unknown = []

    def step(seq, states):
        for op, arg in seq:
            if not states:
                return states
            name = str(op)
            ch = _char_item(op, arg)
            if ch is not None:
                nxt = set()
                for s in states:
                    r = ch.common(c if s else f)
                    if r:
                        nxt.add(True)
                    elif r is None:
                        unknown.append(name)
                states = nxt
            elif name == "SUBPATTERN" and not arg[1] and not arg[2]:
                states = step(list(arg[-1]), states)
            elif name == "BRANCH":
                states = set().union(*[step(list(a), set(states)) for a in arg[1]])
            elif name in ("MAX_REPEAT", "MIN_REPEAT"):
                lo, hi, sub = arg
                acc = set(states) if lo == 0 else set()
                cur = set(states)
                for k in range(1, 4):  # the state space has two elements: the third round adds nothing new
                    if str(hi) != "MAXREPEAT" and k > hi:
                        break
                    cur = step(list(sub), cur)
                    if k >= min(lo, 3):
                        acc |= cur
                states = acc
            else:
                unknown.append(name)
                return set()
        return states

    res = step(list(seq), {False})
    if True in res:
        return True
    return None if unknown else False


def r7(ctx, g: Grammar):
    where = "c2profile.lark"
    defs = {t.name: t for t in getattr(g.lark, "terminals", [])}
    ignored = sorted(n for n in g.ignored if n in defs)
    if g.options.get("parser") != "lalr" or not ignored or g.options.get("lexer") not in (None, "basic", "contextual", "standard"):
        for n in ignored or ["<ignored terminals>"]:
            ctx.undecided("R7", "GRAM", where, f"ignored terminal {n} keeps lexical precedence",
                          f"parser options {g.options}: the terminal order of lark's lalr lexers (priority, width, length, name) is what this rule reasons about")
        return
    used = sorted({s.name for r in g.rules for s in r.expansion if s.is_term} - set(g.ignored))

    def key(t):
        return (-t.priority, -t.pattern.max_width, -len(t.pattern.value), t.name)

    def tree_of(t):
        if t.pattern.flags:
            return None
        if type(t.pattern).__name__ == "PatternStr":
            return [("LITERAL", ord(ch)) for ch in t.pattern.value]
        return _regex_tree(t.pattern.value)

    for name in ignored:
        ti = defs[name]
        itree = tree_of(ti)
        ifirst = _first_classes(itree) if itree is not None else None
        shape = _f_c_star(itree) if itree is not None and type(ti.pattern).__name__ != "PatternStr" else None
        certain, maybe, behind = [], [], []
        for tn in used:
            t = defs.get(tn)
            if t is None:
                continue
            ttree = tree_of(t)
            tfirst = _first_classes(ttree) if ttree is not None else None
            if ifirst is None or tfirst is None:
                overlap = None
            else:
                rs = [a.common(b) for a in ifirst[0] for b in tfirst[0]]
                overlap = True if any(r for r in rs) else None if any(r is None for r in rs) else False
            if overlap is False:
                continue  # no word of T starts like a word of I
            if key(ti) < key(t):
                behind.append(tn)  # I is tried first: text that starts like I is always ignored
                continue
            inside = _word_inside(ttree, *shape) if shape is not None and ttree is not None else None
            (certain if inside else maybe).append((tn, t))
        text = f"ignored terminal {name} keeps lexical precedence"
        pat = f"{name} = {ti.pattern.value!r} (priority {ti.priority})"
        if certain:
            tn, t = certain[0]
            ctx.ob("R7", "GRAM", where, text, False,
                   f"terminal {tn} = {t.pattern.value!r} (priority {t.priority}) is tried before the ignored {pat} by lark's lexer (order: priority, width, length, name; first match wins) and "
                   f"has a word that begins a word of {name}: in every parser state that can expect {tn}, text that should be skipped as {name} is handed to the parser as {tn} - it is no longer ignored "
                   f"there, so a profile with such text is rejected or read differently" + (f" (+{len(certain) - 1} more)" if len(certain) > 1 else ""))
        elif maybe:
            ctx.undecided("R7", "GRAM", where, text,
                          f"terminal(s) {[tn for tn, _t in maybe][:4]} are tried before the ignored {pat} and may start with the same character; whether one of their words begins a word of {name} is "
                          f"not decided from the syntax trees")
        else:
            ctx.ob("R7", "GRAM", where, text, True,
                   f"{pat}: no terminal of a reachable rule that can start with the same character is tried before it by lark's lexer (order: priority, width, length, name; first match wins)"
                   + (f"; terminals starting alike but tried after it: {behind}" if behind else "; no terminal of a reachable rule starts with a character it can start with"),
                   nontrivial=bool(behind))
    ctx.rep.count("ignored_terminals", len(ignored), floor=3)


# =====================================================================================================================
# R10 - every keyword / option word of the grammar is lexed WHOLE (R9 replaces the OPTION terminal by its words and the
# keyword terminals by their text: that is only the language the parser accepts if the lexer can produce each of these
# words as ONE token).
#
# python's alternation is leftmost-first, not longest-match.  lark hides this for the common cases by ordering: the
# string alternatives of ONE terminal are joined longest-first, the terminals of a lexer state are tried in the order
# (-priority, -max_width, -len(pattern), name).  Both orders are properties of the COMPILED terminal table and can be lost
# without a word of the vocabulary changing (sub-terminals inside a terminal are ordered per group only; a priority or a
# width puts a short terminal in front of a long one).  Conditions, on the compiled table:
#   (a) inside a terminal that is a finite alternation of literals, in the priority order of its regex syntax tree
#       (first alternative first, depth first), no word is preceded by a proper prefix of itself - otherwise `re` stops at
#       the prefix, the terminal yields the prefix and the rest of the word is lexed on its own (or not at all);
#   (b) in no state of the LALR table are two non-ignored terminals T1, T2 both acceptable where T1 is tried before T2 and
#       a word of T1 is a proper prefix of a word of T2 (contextual lexer: a state's alternation holds the terminals the
#       state accepts plus the ignored ones; basic lexer: all terminals).
# Both are decided by comparing the finitely many words of the terminal table with each other (technique 6 / 5): no text
# is lexed, no `re` is run.
# =====================================================================================================================
def _priority_words(t):
    """The words of a terminal in the order python's `re` tries them (None: not a finite alternation of literals)."""
    if type(t.pattern).__name__ == "PatternStr":
        return [t.pattern.value]
    if t.pattern.flags:
        return None
    tree = _regex_tree(t.pattern.value)
    return _regex_literals(tree) if tree is not None else None


def _shadowed(words, before=None):
    """[(word, the proper prefix tried before it)]: within one priority-ordered word list, or against an earlier list."""
    out = []
    for k, w in enumerate(words):
        for u in (words[:k] if before is None else before):
            if u and len(u) < len(w) and w.startswith(u):
                out.append((w, u))
                break
    return out


def r10(ctx, g: Grammar):
    where = "c2profile.lark"
    defs = {t.name: t for t in getattr(g.lark, "terminals", [])}
    lx = _lexicon(ctx, g)
    used = sorted({s.name for r in g.rules for s in r.expansion if s.is_term} - set(g.ignored))
    words = {n: _priority_words(defs[n]) for n in used if n in defs}
    # ---------------------------------------------------------------- (a) inside one terminal
    n_alt = 0
    for name in used:
        t = defs.get(name)
        if t is None or type(t.pattern).__name__ == "PatternStr" or lx.of_terminal.get(name) == {_STRING_CLASS}:
            continue  # a plain string has one word; the STRING terminal is R6's subject
        text = f"terminal {name}: every word is lexed whole"
        ws = words.get(name)
        if ws is None:
            tree = None if t.pattern.flags else _regex_tree(t.pattern.value)
            if tree is not None and not any(str(n[0]) == "BRANCH" for n in _tree_items(tree)):
                continue  # no alternation: the order of alternatives is not in play
            ctx.undecided("R10", "GRAM", where, text, f"{name} = {t.pattern.value[:80]!r} is not a finite alternation of literals: which alternative python's leftmost-first alternation "
                          "takes is not decided from the syntax tree")
            continue
        n_alt += 1
        bad = _shadowed(ws)
        ctx.ob("R10", "GRAM", where, text, not bad,
               (f"the {len(ws)} words of {name}, in the order python's leftmost-first alternation tries them (compiled pattern, syntax tree): no word comes after a proper prefix of itself, "
                f"so the regex matches each word completely") if not bad else
               (f"in the compiled pattern of {name} the alternative `{bad[0][1]}` is tried before `{bad[0][0]}` (python's alternation takes the first alternative that matches, lark orders "
                f"longest-first only inside one group of string alternatives): on the text `{bad[0][0]}` the terminal yields `{bad[0][1]}` and the rest is lexed on its own - the statement "
                f"form with the word `{bad[0][0]}` is no longer accepted / read as written" + (f" (also: {', '.join(w for w, _u in bad[1:4])})" if len(bad) > 1 else "")),
               nontrivial=len(ws) > 1)
    ctx.rep.count("alternation_terminals", n_alt, floor=1)
    # ---------------------------------------------------------------- (b) between the terminals of one lexer state
    text = "keyword terminals acceptable in one parser state: the longer word is tried first"
    if g.options.get("parser") != "lalr" or g.options.get("lexer") not in (None, "basic", "contextual", "standard"):
        ctx.undecided("R10", "GRAM", where, text, f"parser options {g.options}: the terminal order of lark's lalr lexers is what this rule reasons about")
        return

    def key(t):
        return (-t.priority, -t.pattern.max_width, -len(t.pattern.value), t.name)

    pairs = {}
    for a in used:
        for b in used:
            if a == b or a not in defs or b not in defs or not words.get(a) or not words.get(b) or not key(defs[a]) < key(defs[b]):
                continue
            hit = _shadowed(words[b], before=words[a])
            if hit:
                pairs[(a, b)] = hit[0]
    states = None
    if g.options.get("lexer") in (None, "contextual"):
        try:
            table = g.lark.parser.parser._parse_table.states
            states = [set(acts) for acts in table.values()]
        except AttributeError:
            states = None
    else:
        states = [set(used)]
    undecidable = sorted(n for n in used if n in defs and words.get(n) is None and lx.of_terminal.get(n) != {_STRING_CLASS})
    if not pairs:
        ctx.ob("R10", "GRAM", where, text, True, f"no word of a terminal that lark's lexer tries earlier (order: priority, width, pattern length, name) is a proper prefix of a word of a terminal tried later "
               f"({len(used)} terminals of reachable rules compared pairwise by their words" + (f"; not compared: {undecidable}" if undecidable else "") + ")")
        return
    if states is None:
        ctx.undecided("R10", "GRAM", where, text, f"{len(pairs)} pair(s) of terminals where the shorter word is tried first (e.g. {sorted(pairs)[0]}), but the LALR table that says whether a state accepts both "
                      "is not accessible")
        return
    live = sorted((a, b) for (a, b) in pairs if any(a in s and b in s for s in states))
    if live:
        a, b = live[0]
        w, u = pairs[(a, b)]
        ctx.ob("R10", "GRAM", where, text, False,
               f"terminal {a} (word `{u}`, priority {defs[a].priority}, width {defs[a].pattern.max_width}) is tried before terminal {b} (word `{w}`, priority {defs[b].priority}, width "
               f"{defs[b].pattern.max_width}) by lark's lexer and a parser state accepts both: the text `{w}` is lexed as `{u}` followed by the rest, the statement form with `{w}` is no longer "
               f"accepted / read as written there" + (f" (+{len(live) - 1} more pair(s))" if len(live) > 1 else ""))
    else:
        ctx.ob("R10", "GRAM", where, text, True, f"{len(pairs)} pair(s) of terminals where a word tried earlier is a proper prefix of a word tried later (e.g. {sorted(pairs)[0]}), but no state of the "
               f"LALR table ({len(states)} states) accepts both terminals of a pair: the contextual lexer never offers them together")


def _tree_items(seq):
    """All (op, arg) items of a regex syntax tree, nested ones included."""
    for op, arg in seq:
        yield op, arg
        name = str(op)
        if name == "SUBPATTERN":
            yield from _tree_items(list(arg[-1]))
        elif name == "BRANCH":
            for a in arg[1]:
                yield from _tree_items(list(a))
        elif name in ("MAX_REPEAT", "MIN_REPEAT", "POSSESSIVE_REPEAT"):
            yield from _tree_items(list(arg[2]))
        elif name in ("ASSERT", "ASSERT_NOT"):
            yield from _tree_items(list(arg[1]))


# =====================================================================================================================
# R11 - every node of the tree is printed by lark's tree matcher.
#
# The keywords and the punctuation of a statement are FILTERED OUT of the parse tree; only lark's Reconstructor puts them
# back, by matching a node (name + kinds of its children) against the productions (R1 reasons about exactly that).  A
# package subclass of the Reconstructor that overrides `_reconstruct(tree)` - the per-node step - with a path that does not
# hand the node to the inherited method prints that node by itself.  Necessary condition: such a shortcut path is taken
# only for nodes whose productions have no filtered terminal.  The nodes a shortcut admits are found by case analysis over
# the grammar's own tree names (technique 5) against the literals the dominating branch tests compare `tree.data` with
# (technique 2); a tree name is not a production: several productions (of different rules) may share it, and the matcher
# tells them apart by their children, a test on the name does not.
#   violated  : the tests of the path are all understood, some admitted tree name has a production with filtered
#               terminals, and what the path emits is computed from the node alone (no constant text, no other data) -
#               the filtered tokens of that production are not in the node, so they are not written;
#   discharged: lark's own Reconstructor; a subclass that overrides nothing of lark's Reconstructor API; an override whose
#               every emission is the inherited `_reconstruct` of the same node; a shortcut admitted only for nodes whose
#               productions have no filtered terminal and only terminal children, emitting the node's children;
#   undecided : a test on the path the rule does not understand (it may exclude the lossy productions), an emission that
#               uses other data, a path without emission, other overridden methods of lark's Reconstructor API.
# =====================================================================================================================
_R11_TEXT = "the reconstructor prints every node by lark's tree matcher"


def _lark_reconstructor_api():
    try:
        from lark.reconstruct import Reconstructor as _R
    except ImportError:  # pragma: no cover
        return None
    return {n for n in dir(_R) if not (n.startswith("__") and n.endswith("__")) or n in ("__init__", "__new__", "__getattribute__", "__getattr__", "__call__")}


def _bound_names(e):
    out = set()
    for n in ast.walk(e):
        if isinstance(n, ast.Lambda):
            out |= set(params(n))
        elif isinstance(n, ast.comprehension):
            out |= {x.id for x in ast.walk(n.target) if isinstance(x, ast.Name)}
    return out


def _admitted_tree_names(ctx, F: Func, node, tp: str, names):
    """(tree names the dominating tests on `<tp>.data` admit at `node`, texts of the tests the rule does not understand)."""
    from csverif.astutil import NotConst, const_eval
    from csverif.q import dominating_conditions

    admitted, opaque, seen = set(names), [], set()
    for text, pol, test in dominating_conditions(ctx, F, node):
        done = False
        for left, op, right in (compare_parts(test) if isinstance(test, ast.Compare) and len(test.ops) == 1 else []):
            if dotted(_inl(F, left)) != f"{tp}.data":
                continue
            try:
                c = const_eval(_inl(F, right))
            except NotConst:
                continue
            opn = type(op).__name__
            if opn in ("Eq", "NotEq") and isinstance(c, str):
                keep = {c}
            elif opn in ("In", "NotIn") and isinstance(c, (tuple, list, set, frozenset)) and all(isinstance(x, str) for x in c):
                keep = set(c)
            else:
                continue
            if (opn in ("Eq", "In")) == pol:
                admitted &= keep
            else:
                admitted -= keep
            done = True
            break
        if not done:
            if src(test) not in seen and not _is_mirror_of_seen(test, seen):
                opaque.append(("" if pol else "not ") + text)
            seen.add(src(test))
        else:
            seen.add(src(test))
    return admitted, opaque


def _is_mirror_of_seen(test, seen):
    """dominating_conditions lists a comparison and its mirrored form: the mirror of a test already judged is not a new test."""
    if isinstance(test, ast.Compare) and len(test.ops) == 1:
        from csverif.astutil import flipped

        m = flipped(test)
        return m is not None and src(m) in seen
    return False


def _delegates_to_base(F: Func, e, tp: str, meth: str) -> bool:
    """`super().<meth>(<tree>)` / `super(C, self).<meth>(<tree>)` / `<Base>.<meth>(self, <tree>)` with the node unchanged."""
    e = _inl(F, e) if e is not None else None
    if not (isinstance(e, ast.Call) and isinstance(e.func, ast.Attribute) and e.func.attr == meth and not e.keywords):
        return False
    recv = e.func.value
    if isinstance(recv, ast.Call) and isinstance(recv.func, ast.Name) and recv.func.id == "super":
        args = e.args
    elif isinstance(recv, ast.Name) and e.args and isinstance(e.args[0], ast.Name) and e.args[0].id == (params(F.node) or ["self"])[0]:
        args = e.args[1:]
    else:
        return False
    return len(args) == 1 and isinstance(_inl(F, args[0]), ast.Name) and _inl(F, args[0]).id == tp


def _r11_override(ctx, g: Grammar, F: Func):
    """Verdict for an override of `_reconstruct(self, tree)`: ("ok" | "bad" | "undecided", explanation)."""
    from csverif.cfg import ENTRY, EXIT
    from csverif.q import FuncView

    ps = params(F.node)
    if len(ps) != 2:
        return "undecided", f"{F.qualname} has another parameter list than lark's `_reconstruct(self, tree)`"
    tp = ps[1]
    if assignments_to(F.node, tp):
        return "undecided", f"{F.qualname} rebinds its node parameter"
    emits = [n for n in _own_nodes(F.node) if isinstance(n, (ast.Yield, ast.YieldFrom)) or (isinstance(n, ast.Return) and n.value is not None)]
    shortcuts = [n for n in emits if isinstance(n, ast.Yield) or not _delegates_to_base(F, n.value, tp, F.node.name)]
    cfg, fv = ctx.cfg(F), FuncView.of(F.node)
    stmts = [fv.stmt_of(n) for n in emits]
    silent = (not emits) or cfg.reaches(ENTRY, EXIT, avoiding=[cfg.node(st) for st in stmts if st is not None and cfg.has(st)])
    names = sorted({r.tree_name for r in g.rules if not r.tree_name.startswith("__")})

    # locals computed from the node alone: every binding is an assignment / a `for` target whose source is such an expression
    def free(e):
        return {x.id for x in ast.walk(e) if isinstance(x, ast.Name)} - _bound_names(e)

    def pure(e):
        return (all(x in derived or x in _BUILTIN_NAMES or getattr(ctx.rs.lookup_dotted(F.module.name, x), "kind", None) == "external" for x in free(e))
                and not any(isinstance(x, ast.Constant) and isinstance(x.value, (str, bytes)) for x in ast.walk(e)))

    sources = defaultdict(list)
    for st in _own_nodes(F.node):
        if isinstance(st, ast.For):
            for x in ast.walk(st.target):
                if isinstance(x, ast.Name):
                    sources[x.id].append(st.iter)
        elif isinstance(st, ast.Assign):
            for t in st.targets:
                for x in ast.walk(t):
                    if isinstance(x, ast.Name):
                        sources[x.id].append(st.value if isinstance(t, ast.Name) else None)
        elif isinstance(st, (ast.AugAssign, ast.AnnAssign, ast.NamedExpr)) and isinstance(st.target, ast.Name):
            sources[st.target.id].append(None)
        elif isinstance(st, (ast.With, ast.ExceptHandler, ast.Global, ast.Nonlocal, ast.Import, ast.ImportFrom, ast.FunctionDef, ast.ClassDef)):
            for x in ast.walk(st) if isinstance(st, ast.With) else []:
                if isinstance(x, ast.Name) and isinstance(x.ctx, ast.Store):
                    sources[x.id].append(None)
    derived = {tp}
    for _ in range(len(sources) + 1):
        more = {nm for nm, vs in sources.items() if nm not in derived and vs and all(v is not None and pure(v) for v in vs)}
        if not more:
            break
        derived |= more
    verdicts = []
    for n in shortcuts:
        admitted, opaque = _admitted_tree_names(ctx, F, n, tp, names)
        if not admitted:
            continue  # the tests admit no tree name of the grammar: the path is not taken for a node of a profile
        lossy = [r for r in g.rules if r.tree_name in admitted and r.filtered]
        val = n.value
        node_only = val is not None and pure(val) and bool(free(val) & derived)
        shown = src(n)[:90]
        if lossy and not opaque and node_only:
            r = min(lossy, key=lambda r: r.order)
            others = sorted({x.origin for x in g.rules if x.tree_name == r.tree_name and not x.filtered})
            verdicts.append(("bad", f"`{shown}` in {F.qualname} is reached for every node named `{r.tree_name}` (the path tests the node name only) and emits what the node holds; the production "
                                    f"`{r.origin}: {' '.join(x.literal or x.name for x in r.expansion)}` gives a node of that name whose tokens `{' '.join(r.filtered)}` are filtered out of the tree and "
                                    f"only written by lark's tree matcher" + (f" (the name is shared with the token-only production of rule `{others[0]}`)" if others else "")
                                    + ": the regenerated text lacks these tokens" + (f" (+{len({x.tree_name for x in lossy}) - 1} more node name(s))" if len({x.tree_name for x in lossy}) > 1 else "")))
        elif lossy:
            why = (f"tests the rule does not understand ({'; '.join(opaque[:2])}) may exclude them" if opaque else "what it emits is not computed from the node alone")
            verdicts.append(("undecided", f"`{shown}` in {F.qualname} bypasses lark's tree matcher for node names that have productions with filtered tokens ({sorted({x.tree_name for x in lossy})[:4]}); {why}"))
        else:
            rs = [r for r in g.rules if r.tree_name in admitted]
            leaf = all(sym.is_term for r in rs for sym in r.expansion)
            v = _inl(F, val) if val is not None else None
            plain = isinstance(n, ast.YieldFrom) and (dotted(v) == f"{tp}.children" or (isinstance(v, ast.Call) and dotted(v.func) in ("iter", "list", "tuple") and len(v.args) == 1 and dotted(v.args[0]) == f"{tp}.children"))
            if leaf and plain:
                verdicts.append(("ok", f"`{shown}` is reached only for {sorted(admitted)[:4]}: productions without filtered terminals whose children are tokens"))
            else:
                verdicts.append(("undecided", f"`{shown}` in {F.qualname} bypasses lark's tree matcher for {sorted(admitted)[:4]} (no filtered tokens there); whether it emits the node's tokens in order is not decided"))
    bad = [d for k, d in verdicts if k == "bad"]
    if bad:
        return "bad", bad[0] + (f" (+{len(bad) - 1} more)" if len(bad) > 1 else "")
    und = [d for k, d in verdicts if k == "undecided"]
    if und:
        return "undecided", und[0]
    if silent:
        return "undecided", f"{F.qualname} has a path on which nothing is emitted for the node"
    return "ok", (f"every emission of {F.qualname} is the inherited `{F.node.name}` of the same node" if not verdicts else "; ".join(d for _k, d in verdicts[:2]))


def r11(ctx, g: Grammar):
    mod = ctx.repo.module(MOD)
    renderers = _by_role(ctx, "C2Profile.as_text", lambda fn: bool(_reconstruct_calls(ctx, fn)))
    if not renderers:
        ctx.undecided("R11", "API", mod.funcs.get("C2Profile.as_text") or mod.relpath, _R11_TEXT, "no function of c2profile.py calls `.reconstruct(...)` on a lark Reconstructor")
        return
    api = _lark_reconstructor_api()
    for f in renderers:
        for _call, mk in _reconstruct_calls(ctx, f):
            chain = _recon_class_chain(ctx, f, mk)
            if not chain:
                ctx.ob("R11", "API", f, _R11_TEXT, True, f"{f.qualname} uses lark's own Reconstructor class (`{src(mk.func)}`)", mk, nontrivial=False)
                continue
            cname = chain[0][0].name
            if api is None:
                ctx.undecided("R11", "API", f, _R11_TEXT, f"`{cname}` is a package subclass of lark's Reconstructor and lark's class is not importable to compare the method names", mk)
                continue
            overridden, other = [], []
            for sym, node in chain:
                for st in node.body:
                    nm = [st.name] if isinstance(st, (ast.FunctionDef, ast.AsyncFunctionDef)) else \
                         [t.id for t in st.targets if isinstance(t, ast.Name)] if isinstance(st, ast.Assign) else \
                         [st.target.id] if isinstance(st, ast.AnnAssign) and isinstance(st.target, ast.Name) and st.value is not None else []
                    for x in nm:
                        if x in api:
                            overridden.append((x, sym, st))
                        else:
                            other.append(x)
            step = [(sym, st) for x, sym, st in overridden if x == "_reconstruct" and isinstance(st, ast.FunctionDef)]
            rest = sorted({x for x, _s, st in overridden if not (x == "_reconstruct" and isinstance(st, ast.FunctionDef))})
            results = []
            for sym, st in step:
                F = ctx.repo.modules[sym.module].funcs.get(f"{sym.name}._reconstruct")
                results.append((F, _r11_override(ctx, g, F)) if F is not None and F.node is st else (None, ("undecided", f"`{sym.name}._reconstruct` is not indexed as a function of the package")))
            bad = [(F, d) for F, (k, d) in results if k == "bad"]
            und = [d for _F, (k, d) in results if k == "undecided"]
            if bad:
                ctx.ob("R11", "API", bad[0][0] or f, _R11_TEXT, False, f"{f.qualname} reconstructs with `{cname}`, a package subclass of lark's Reconstructor: " + bad[0][1], (bad[0][0] or f).node)
            elif und or rest:
                why = und[0] if und else f"`{cname}` overrides {rest} of lark's Reconstructor API; what the reconstruction then prints is outside the trusted description of lark's Reconstructor"
                ctx.undecided("R11", "API", f, _R11_TEXT, f"{f.qualname} reconstructs with `{cname}`, a package subclass of lark's Reconstructor: " + why, mk)
            else:
                ctx.ob("R11", "API", f, _R11_TEXT, True, f"{f.qualname} reconstructs with `{cname}`, a package subclass of lark's Reconstructor that "
                       + ("overrides nothing of lark's Reconstructor API" + (f" (adds {sorted(set(other))[:4]})" if other else "") if not step else "overrides the per-node step only to " + "; ".join(d for _F, (_k, d) in results)[:400]), mk)


# =====================================================================================================================
# R8 - the tree the parser produced is the tree the reconstructor prints: no node of it is structurally modified on the way.
#
# Every token the Reconstructor prints comes from a node of the tree (kept terminals are its leaves, the filtered keywords
# are re-inserted from the rule a node matches), so a source token can only survive if its node does.  The rule follows,
# inside one function and into the package functions it calls, which values MAY BE A PART of a parse tree (def-use /
# may-alias value flow, flow-insensitive, names and dotted paths as abstract locations):
#   T  a node, a `children` list or another part of a parse tree - whatever is read off a T by attribute, index, iteration,
#      unpacking or a method call is T again (lark's Tree.copy() shares the children list);
#   E  a fresh collection / iterator whose ELEMENTS are parts (list(..), sorted(..), a slice, a comprehension, enumerate ..):
#      changing the collection itself is harmless, its elements are T;
#   P  a profile object whose `.tree` attribute holds a parse tree.
# Sources: the result of a `.parse(...)` call; an object whose `.tree` attribute is assigned a T; in a renderer the object
# whose `.tree` is handed to `reconstruct`; the result of a package function that returns a T / P.
# Sinks (structural modifications): a mutator method called on a T, an item / slice store or `del` on a T, a store or `del`
# of the `children` / `data` attribute of a T, an in-place `+=` / `*=` on a T.
# =====================================================================================================================
_KT, _KE, _KP = "T", "E", "P"
_TREE_MUTATORS = frozenset({"append", "insert", "extend", "pop", "remove", "sort", "reverse", "clear", "__setitem__", "__delitem__", "__iadd__", "__imul__",
                            "expand_kids_by_data", "set", "update", "add", "discard"})
_FRESH_COLLECTIONS = frozenset({"list", "tuple", "sorted", "reversed", "enumerate", "zip", "iter", "filter", "map", "set", "frozenset", "itertools.chain", "chain"})
_ELEMENT_FUNCS = frozenset({"next", "getattr", "copy.copy", "max", "min"})
_VALUE_METHODS = frozenset({"pretty", "__deepcopy__", "count", "index", "__hash__", "__eq__", "__len__", "startswith", "endswith", "lower", "upper", "strip", "lstrip", "rstrip",
                            "split", "replace", "encode", "decode", "format", "join"})
_INPLACE_VISITORS = frozenset({"visit", "visit_topdown", "transform"})


def _kjoin(a, b):
    for k in (_KT, _KE, _KP):
        if a == k or b == k:
            return k
    return None


class _TreeFlow:
    def __init__(self, ctx):
        self.ctx = ctx
        self.cache = {}

    # ------------------------------------------------------------------------------------------------ values
    def kind(self, f: Func, e, env, depth):
        if e is None:
            return None
        if isinstance(e, ast.Name):
            return env.get(e.id)
        if isinstance(e, ast.Attribute):
            d = dotted(e)
            if d and d in env:
                return env[d]
            b = self.kind(f, e.value, env, depth)
            if b == _KP:
                return _KT if e.attr == "tree" else None
            return _KT if b == _KT else None
        if isinstance(e, ast.Subscript):
            b = self.kind(f, e.value, env, depth)
            if b in (_KT, _KE):
                return _KE if isinstance(e.slice, ast.Slice) else _KT
            return None
        if isinstance(e, ast.Starred):
            return self.kind(f, e.value, env, depth)
        if isinstance(e, ast.NamedExpr):
            return self.kind(f, e.value, env, depth)
        if isinstance(e, ast.IfExp):
            return _kjoin(self.kind(f, e.body, env, depth), self.kind(f, e.orelse, env, depth))
        if isinstance(e, ast.BoolOp):
            k = None
            for v in e.values:
                k = _kjoin(k, self.kind(f, v, env, depth))
            return k
        if isinstance(e, ast.BinOp):  # list concatenation / repetition builds a fresh list of the same elements
            ks = (self.kind(f, e.left, env, depth), self.kind(f, e.right, env, depth))
            return _KE if any(k in (_KT, _KE) for k in ks) else None
        if isinstance(e, (ast.Tuple, ast.List, ast.Set)):
            return _KE if any(self.kind(f, x, env, depth) in (_KT, _KE) for x in e.elts) else None
        if isinstance(e, (ast.ListComp, ast.SetComp, ast.GeneratorExp)):
            env2 = dict(env)
            for gen in e.generators:
                if self.kind(f, gen.iter, env2, depth) in (_KT, _KE):
                    for n in ast.walk(gen.target):
                        if isinstance(n, ast.Name):
                            env2[n.id] = _KT
            return _KE if self.kind(f, e.elt, env2, depth) in (_KT, _KE) else None
        if isinstance(e, ast.Await):
            return self.kind(f, e.value, env, depth)
        if isinstance(e, ast.Call):
            return self.call_kind(f, e, env, depth)
        return None

    def call_kind(self, f: Func, c: ast.Call, env, depth):
        args = list(c.args) + [k.value for k in c.keywords]
        if isinstance(c.func, ast.Attribute):
            if c.func.attr == "parse" and self.kind(f, c.func.value, env, depth) is None:
                return _KT  # source: the parser's tree
            rk = self.kind(f, c.func.value, env, depth)
            if rk == _KT:
                if c.func.attr in _VALUE_METHODS:
                    return None
                if c.func.attr == "copy" and isinstance(c.func.value, ast.Attribute) and c.func.value.attr == "children":
                    return _KE  # list.copy(): a fresh list of the same nodes
                return _KT  # navigation (iter_subtrees, find_data, scan_values, pop ..) hands out parts; Tree.copy() shares the children
            if rk == _KE:
                return _KT if c.func.attr in ("pop", "__getitem__", "get", "__next__") else _KE if c.func.attr == "copy" else None
        d = dotted(c.func) or ""
        if d in ("copy.deepcopy", "deepcopy"):
            return None
        aks = [self.kind(f, a, env, depth) for a in args]
        if d in _FRESH_COLLECTIONS:
            return _KE if any(k in (_KT, _KE) for k in aks) else None
        if d in _ELEMENT_FUNCS:
            return _KT if any(k in (_KT, _KE) for k in aks) else None
        summ = self.callee_summary(f, c, env, depth)
        if summ is not None:
            return summ[0]
        cal = self.ctx.rs.resolve_call(f, c)
        if cal.kind in ("class", "external", "unresolved") and d.split(".")[-1][:1].isupper():
            # a constructor that is handed a part keeps it (Tree(data, children) stores the list it is given)
            if any(k == _KT for k in aks):
                return _KT
            if any(k == _KE for k in aks):
                return _KE
        return None

    def callee_summary(self, f: Func, c: ast.Call, env, depth):
        """(kind of the result, findings, hand-offs) of a call of a package function, else None."""
        if depth >= 4:
            return None
        cal = self.ctx.rs.resolve_call(f, c)
        if cal.kind != "func" or cal.func is None or isinstance(cal.func.node, ast.Lambda):
            return None
        tgt = cal.func
        ps = params(tgt.node)
        seeds = {}
        skip = 0
        if tgt.cls and ps and ps[0] in ("self", "cls") and (isinstance(c.func, ast.Attribute) or cal.recv_type):
            skip = 1
            if ps[0] == "self" and isinstance(c.func, ast.Attribute):
                rk = self.kind(f, c.func.value, env, depth)
                if rk:
                    seeds[ps[0]] = rk
        rest = ps[skip:]
        for i, a in enumerate(c.args):
            if isinstance(a, ast.Starred) or i >= len(rest):
                break
            k = self.kind(f, a, env, depth)
            if k:
                seeds[rest[i]] = k
        for kw in c.keywords:
            if kw.arg and kw.arg in rest:
                k = self.kind(f, kw.value, env, depth)
                if k:
                    seeds[kw.arg] = k
        if not seeds and tgt.module.name != MOD:
            return None
        return self.analyse(tgt, seeds, depth + 1)

    # ------------------------------------------------------------------------------------------------ one function
    def analyse(self, f: Func, seeds, depth=0):
        key = (f.fq, tuple(sorted(seeds.items())))
        hit = self.cache.get(key)
        if hit is not None:
            return hit
        self.cache[key] = (None, [], [])  # recursion: nothing is known about a call in progress
        env = dict(seeds)
        nodes = list(ast.walk(f.node))

        def bind(t, k):
            if k is None:
                return False
            if isinstance(t, ast.Name):
                new = _kjoin(env.get(t.id), k)
                if new != env.get(t.id):
                    env[t.id] = new
                    return True
                return False
            if isinstance(t, (ast.Tuple, ast.List)):
                ch = False
                for x in t.elts:
                    ch = bind(x, _KT if k in (_KT, _KE) else None) or ch
                return ch
            if isinstance(t, ast.Starred):
                return bind(t.value, _KE if k in (_KT, _KE) else None)
            if isinstance(t, ast.Attribute):
                ch = False
                if t.attr == "tree" and k == _KT and isinstance(t.value, ast.Name) and self.kind(f, t.value, env, depth) is None:
                    ch = bind(t.value, _KP)
                d = dotted(t)
                if d and self.kind(f, t, env, depth) is None and env.get(d) != k:
                    env[d] = k
                    ch = True
                return ch
            return False

        for _ in range(12):
            changed = False
            for n in nodes:
                if isinstance(n, ast.Assign):
                    k = self.kind(f, n.value, env, depth)
                    for t in n.targets:
                        changed = bind(t, k) or changed
                elif isinstance(n, ast.AnnAssign) and n.value is not None:
                    changed = bind(n.target, self.kind(f, n.value, env, depth)) or changed
                elif isinstance(n, ast.NamedExpr):
                    changed = bind(n.target, self.kind(f, n.value, env, depth)) or changed
                elif isinstance(n, (ast.For, ast.AsyncFor)):
                    if self.kind(f, n.iter, env, depth) in (_KT, _KE):
                        for x in ast.walk(n.target):
                            if isinstance(x, ast.Name):
                                changed = bind(x, _KT) or changed
                elif isinstance(n, (ast.With, ast.AsyncWith)):
                    for it in n.items:
                        if it.optional_vars is not None:
                            changed = bind(it.optional_vars, self.kind(f, it.context_expr, env, depth)) or changed
            if not changed:
                break
        findings, handoffs, seen = [], [], set()

        def found(node, what):
            if id(node) not in seen:
                seen.add(id(node))
                findings.append((f, node, what))

        for n in nodes:
            if isinstance(n, ast.Call):
                if isinstance(n.func, ast.Attribute) and n.func.attr in _TREE_MUTATORS and self.kind(f, n.func.value, env, depth) == _KT:
                    found(n, f"`{src(n)[:80]}` changes `{src(n.func.value)[:50]}`, a part of the parse tree, in place")
                    continue
                summ = self.callee_summary(f, n, env, depth)
                if summ is not None:
                    for fd in summ[1]:
                        if id(fd[1]) not in seen:
                            seen.add(id(fd[1]))
                            findings.append(fd)
                    handoffs.extend(h for h in summ[2] if h not in handoffs)
                elif isinstance(n.func, ast.Attribute) and n.func.attr in _INPLACE_VISITORS and self.kind(f, n.func.value, env, depth) is None \
                        and any(self.kind(f, a, env, depth) == _KT for a in list(n.args) + [k.value for k in n.keywords]):
                    h = (f, n, f"`{src(n)[:80]}` hands a part of the parse tree to lark's visit / transform dispatch (which callback runs on which node is decided by the library)")
                    if h not in handoffs:
                        handoffs.append(h)
            elif isinstance(n, (ast.Assign, ast.AugAssign, ast.Delete, ast.AnnAssign)):
                tgts = n.targets if isinstance(n, (ast.Assign, ast.Delete)) else [n.target]
                flat = [x for t in tgts for x in (t.elts if isinstance(t, (ast.Tuple, ast.List)) else [t])]
                verb = "deletes" if isinstance(n, ast.Delete) else "stores into"
                for t in flat:
                    if isinstance(t, ast.Starred):
                        t = t.value
                    if isinstance(t, ast.Subscript) and self.kind(f, t.value, env, depth) == _KT:
                        found(n, f"`{src(n)[:80]}` {verb} an item of `{src(t.value)[:50]}`, a part of the parse tree")
                    elif isinstance(t, ast.Attribute) and t.attr in ("children", "data") and self.kind(f, t.value, env, depth) == _KT:
                        found(n, f"`{src(n)[:80]}` {verb} `.{t.attr}` of `{src(t.value)[:50]}`, a node of the parse tree")
                    elif isinstance(n, ast.AugAssign) and isinstance(t, (ast.Name, ast.Attribute)) and isinstance(n.op, (ast.Add, ast.Mult)) and self.kind(f, t, env, depth) == _KT \
                            and isinstance(n.value, (ast.List, ast.ListComp, ast.Tuple, ast.Call, ast.Name, ast.Attribute, ast.Subscript)):
                        found(n, f"`{src(n)[:80]}` extends `{src(t)[:50]}`, a part of the parse tree, in place")
        ret = None
        for n in nodes:
            if isinstance(n, ast.Return) and n.value is not None:
                ret = _kjoin(ret, self.kind(f, n.value, env, depth))
        res = (ret, findings, handoffs)
        self.cache[key] = res
        return res


def r8(ctx, g=None):
    mod = ctx.repo.module(MOD)
    renderers = _by_role(ctx, "C2Profile.as_text", lambda fn: bool(_reconstruct_calls(ctx, fn)))
    readers = _by_role(ctx, "C2Profile.from_text", _stores_parsed_tree, lambda fn: bool(_tree_stores(fn)))
    flow = _TreeFlow(ctx)
    reported = set()

    def emit(f: Func, text, res, ok_detail):
        _ret, findings, handoffs = res
        new = [fd for fd in findings if id(fd[1]) not in reported]
        if findings and not new:
            return  # the same statement is already reported for the function it is reached from
        reported.update(id(fd[1]) for fd in new)
        if new:
            fn, node, what = new[0]
            at = "" if fn.fq == f.fq else f" (in {fn.qualname}, reached from {f.qualname})"
            ctx.ob("R8", "ALIAS", f, text, False, what + at + ": the node's tokens are no longer (or differently) printed by the Reconstructor, the regenerated text loses or changes tokens of the source"
                   + (f" (+{len(new) - 1} more)" if len(new) > 1 else ""), node)
        elif handoffs:
            ctx.undecided("R8", "ALIAS", f, text, handoffs[0][2] + ": whether it modifies the tree is not decided", handoffs[0][1])
        else:
            ctx.ob("R8", "ALIAS", f, text, True, ok_detail)

    n = 0
    for f in readers:
        n += 1
        emit(f, "parsed tree is not modified", flow.analyse(f, {}),
             f"{f.qualname}: nothing that may be a part of the parser's tree (followed through attributes, items, iteration, unpacking, navigation methods and calls of package functions) is the "
             "target of a mutator call, an item / slice store or delete, a store to `.children` / `.data` or an in-place extension")
    for f in renderers:
        n += 1
        seeds = {}
        for call, _mk in _reconstruct_calls(ctx, f):
            tree = _lark_arg(call, 0, "tree")
            tv = _inl(f, tree) if tree is not None else None
            if isinstance(tv, ast.Attribute) and tv.attr == "tree" and isinstance(tv.value, ast.Name) and tv.value.id in params(f.node):
                seeds[tv.value.id] = _KP
            elif isinstance(tv, ast.Name) and tv.id in params(f.node):
                seeds[tv.id] = _KT
        if not seeds and params(f.node) and f.cls:
            seeds[params(f.node)[0]] = _KP
        emit(f, "profile tree is not modified", flow.analyse(f, seeds),
             f"{f.qualname}: nothing that may be a part of the profile's tree is the target of a mutator call, an item / slice store or delete, a store to `.children` / `.data` or an in-place "
             "extension before it is handed to the Reconstructor (lark's Reconstructor is part of the trusted base)")
    # any other function of the module that obtains a parsed tree / profile (from the parser or through a reader) and modifies it
    done = {f.fq for f in readers} | {f.fq for f in renderers}
    for _q, f in sorted(mod.funcs.items()):
        if f.fq in done or f.parent is not None:
            continue
        res = flow.analyse(f, {})
        if res[1]:
            emit(f, "parsed tree is not modified", res, "")
    ctx.rep.count("tree_flow_functions", n, floor=2)


# ============================================================================================================= R12
def r12(ctx, g: Grammar):
    """Keyword literals are matched case-sensitively.  A keyword of a statement is an anonymous string terminal that the parser
    filters out of the tree (lemma in the trusted base: filtered-out terminals are not stored), and the Reconstructor writes it back
    in the spelling of the *grammar*.  A terminal declared case-insensitive (`"CN"i`) accepts sources in another spelling
    (`set cn ".."`) whose keyword token the regenerated text does not reproduce (`set CN ".."`), while the re-parsed tree is
    identical - "the same sequence of keywords ... as the source" fails for accepted profiles (round 8, seeded C10o).  Decided on the
    terminal table of the compiled grammar: every string terminal that occurs filtered-out in some production and contains a cased
    character has no `i` flag.  Kept terminals are tokens of the tree and are written back as they were read; regex terminals are not
    subjects (a filtered-out regex terminal is undecided)."""
    filtered = {}
    for r in g.rules:
        for sy in r.expansion:
            if sy.is_term and sy.filter_out:
                filtered.setdefault(sy.name, r)
    n = 0
    for t in g.lark.terminals:
        if t.name not in filtered:
            continue
        pat = t.pattern
        flags = set(getattr(pat, "flags", ()) or ())
        if type(pat).__name__ != "PatternStr":
            continue
        if pat.value.lower() == pat.value.upper():
            continue  # punctuation: nothing to spell differently
        n += 1
        ok = "i" not in flags
        r = filtered[t.name]
        ctx.rep.ob("R12", "GRAM", f"c2profile.lark::keyword {pat.value!r}", ok,
                   (f"keyword literal {pat.value!r} (terminal {t.name}, e.g. in `{r.tree_name}`) is matched case-sensitively: the only accepted spelling is the one the reconstructor writes"
                    if ok else
                    f"keyword literal {pat.value!r} (terminal {t.name}, e.g. in `{r.tree_name}`) is case-insensitive: a source spelling it as {pat.value.swapcase()!r} is accepted, the token is not "
                    f"kept in the tree and the regenerated text has {pat.value!r} - the keyword sequence of the source is not reproduced"),
                   "dissect/cobaltstrike/c2profile.lark", 0)
    ctx.rep.count("keyword_literals", n, floor=137)
