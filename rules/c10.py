"""C10 - Regenerated profile text preserves every token (grammar-level analysis).

R1/R2/R5 work on the compiled grammar.  R3 is about the Python side of the round trip and locates its subjects by role:

* the *renderer* is the function of c2profile.py that calls `.reconstruct(...)` on a lark `Reconstructor(...)`
  (`C2Profile.as_text` if it still does; temporaries, a module-level reconstructor, positional or keyword arguments do
  not matter); the *reader* is the function that assigns a `.parse(...)` result to a `.tree` attribute
  (`C2Profile.from_text`);
* the *post-processor* is whatever callable is handed to that call as `postproc` (a nested function, a module-level
  function, a method, a lambda, a `functools.partial`) - not a function of a particular name;
* the token-preservation condition on the post-processor is decided by a symbolic execution of its body (`_Sym`) on
  provenance-tagged token streams: every stream item is an opaque token (`{`, `}`, `;` have known text, all other items
  are symbolic words), strings built from tokens keep their parts (`_Cat`), token text that went through a transforming
  string operation is `_Alt`.  The emitted pieces are compared with the stream (`_audit`).  The rule looks at *what is
  yielded*, not at how the loop is written: an early `continue`, an index loop, a `yield from`, a join, an extracted
  helper, hoisted sub-expressions give the same verdict.  Streams: every statement/block skeleton of the language up
  to a size bound, a few deeper nestings, and every short flat item stream that ends in a terminator.

Undecided (never violated): no reconstruct call / no post-processor function can be located, or the post-processor uses
a construct the executor does not model (`_Unsupported`).  Nothing of /repo is imported or executed: the executor walks
the parsed AST with its own value domain.
"""

from __future__ import annotations

import ast
from collections import defaultdict

from csverif.astutil import assignments_to, dotted, kwarg, params, src, strip_cast
from csverif.grammar import Grammar
from csverif.loader import Func
from csverif.q import inline

MOD = "c2profile"


def run(ctx):
    rep = ctx.rep
    rep.explanation = (
        "Static analysis of the compiled Lark grammar c2profile.lark (loaded with the options of the Lark.open call in "
        "c2profile.py): the reachable expanded rules are grouped by the key lark's Reconstructor/TreeMatcher matches a tree "
        "node on - (tree name = alias or origin, sequence of non-filtered symbols); every group must have exactly one "
        "sequence of filtered keyword tokens, otherwise the second keyword is printed as the first. Exhaustive over the "
        "finite rule set. Plus terminal kinds (kept regexp terminals are named, filtered terminals are plain strings) and a "
        "token-preservation check of the whitespace post-processor (symbolic execution of the callable handed to "
        "Reconstructor.reconstruct on provenance-tagged token streams: all statement/block skeletons up to a size bound, "
        "all short delimiter/word streams, and a few deeper nestings) and of as_text/from_text."
    )
    rep.not_decided = ["text equality for all sentences of the language", "whitespace handling by the lexer"]
    rep.trusted_base = ["lark 1.3.1 grammar loader and its TreeMatcher grouping rule (lark/tree_matcher.py: rules equal on (origin, kept expansion) are merged, first wins)",
                        "lark 1.3.1 Reconstructor.reconstruct(tree, postproc=None, insert_spaces=True): the item stream is passed through postproc and joined", "CPython ast"]
    rep.exhaustive = True
    g = Grammar(ctx.repo)
    rep.extra["lark_options"] = {k: v for k, v in g.options.items()}
    rep.count("expanded_rules", len(g.rules), floor=240)
    rep.count("tree_names", len({r.tree_name for r in g.rules}), floor=155)
    rep.count("terminals", len(g.terminals), floor=140)
    r1(ctx, g)
    r2(ctx, g)
    r3(ctx)
    r5(ctx, g)
    # the STRING terminal decides where a literal ends: its regex structure (C12.R4) is a necessary condition for every
    # valid profile to lex into the tokens written
    from rules import c12

    ctx.import_obligations("R6", c12.r4)


def r1(ctx, g: Grammar):
    groups = defaultdict(list)
    for r in g.rules:
        groups[(r.tree_name, r.kept)].append(r)
    n = 0
    for (name, kept), rs in sorted(groups.items(), key=lambda kv: (kv[0][0], str(kv[0][1]))):
        if name.startswith("__"):
            continue
        n += 1
        variants = sorted({r.filtered for r in rs})
        ok = len(variants) == 1
        kept_s = " ".join(k for k, _t in kept) or "<empty>"
        detail = (f"{len(rs)} production(s) share tree name {name!r} and kept symbols [{kept_s}]; keyword sequences: "
                  + " | ".join(" ".join(v) for v in variants))
        if not ok:
            first = min(rs, key=lambda r: r.order)
            detail += f" -> the reconstructor prints every such node as `{' '.join(first.filtered)}`"
        ctx.rep.ob("R1", "GRAM", f"c2profile.lark::{name}::[{kept_s}]", ok, detail, "dissect/cobaltstrike/c2profile.lark", 0, nontrivial=len(rs) > 1)
    ctx.rep.count("reconstruction_groups", n, floor=150)


def r2(ctx, g: Grammar):
    used = set()
    for r in g.rules:
        for s in r.expansion:
            if s.is_term:
                used.add((s.name, s.filter_out))
    for name, filt in sorted(used):
        kind, val = g.terminals.get(name, ("?", None))
        if filt:
            ok = kind == "str"
            ctx.rep.ob("R2", "GRAM", f"c2profile.lark::terminal {name}", ok, f"filtered terminal is a plain string {val!r} (re-insertable)" if ok else f"filtered terminal {name} is a regexp: its text cannot be re-inserted",
                       "dissect/cobaltstrike/c2profile.lark", 0, nontrivial=False)
        else:
            ok = not name.startswith("_") and not name.startswith("__ANON")
            ctx.rep.ob("R2", "GRAM", f"c2profile.lark::terminal {name}", ok, f"kept terminal {name} ({kind}) is named: its text survives in the tree" if ok else f"kept terminal {name} is anonymous/filtered by name",
                       "dissect/cobaltstrike/c2profile.lark", 0)
    kept_terms = sorted(n for n, f in used if not f)
    ctx.ob("R2", "GRAM", "c2profile.lark", "kept terminals", kept_terms == ["OPTION", "STRING"], f"terminals kept in the tree: {kept_terms} (OPTION and STRING carry all variable text)")
    o = g.options
    ctx.ob("R2", "GRAM", "c2profile.py::Lark.open", "options", o.get("parser") == "lalr" and o.get("maybe_placeholders") is False and not o.get("keep_all_tokens"),
           f"parser options {o}: the Reconstructor requires maybe_placeholders=False")
    ctx.ob("R2", "GRAM", "c2profile.lark", "%ignore", g.ignored == {"WS", "SH_COMMENT", "NEWLINE"}, f"ignored terminals {sorted(g.ignored)} (whitespace and comments only)")


# =====================================================================================================================
# Symbolic execution of a (generator) function on provenance-tagged values.
# Private to this module; candidate for hoisting into the engine (csverif.symexec).
# =====================================================================================================================
_DELIMS = ("{", "}", ";")


class _Unsupported(Exception):
    """The interpreted code uses a construct the symbolic executor does not model -> the rule is undecided."""


class _Abort(Exception):
    """The interpreted code itself raises on this input (IndexError, assert, raise ...)."""


class _Tok:
    """One item of the reconstructor's stream.  `text` is known for the three delimiters, None for a symbolic word (a
    keyword, an option name or a STRING literal)."""

    __slots__ = ("idx", "text")

    def __init__(self, idx, text=None):
        self.idx = idx
        self.text = text

    def __repr__(self):
        return self.text if self.text is not None else f"w{self.idx}"


class _Cat:
    """A string that is a concatenation of constant text and whole tokens."""

    __slots__ = ("parts",)

    def __init__(self, parts):
        self.parts = tuple(p for p in parts if not (isinstance(p, str) and p == ""))

    def __repr__(self):
        return "+".join(repr(p) for p in self.parts) or "''"


class _Alt:
    """Token text that went through an operation that may change it (replace, strip, slicing, formatting with a spec...)."""

    __slots__ = ("how",)

    def __init__(self, how):
        self.how = how

    def __repr__(self):
        return f"<{self.how}>"


class _It:
    """An iterator value (the item stream, a running generator, enumerate/zip/reversed/genexp)."""

    __slots__ = ("it",)

    def __init__(self, it):
        self.it = iter(it)


class _Closure:
    __slots__ = ("node", "func", "outer", "bound", "recv")

    def __init__(self, node, func, outer=None, bound=None, recv=None):
        self.node = node  # FunctionDef / Lambda
        self.func = func  # Func giving module / class / static parent
        self.outer = outer  # defining _Scope (None: resolve free names statically)
        self.bound = dict(bound or {})  # functools.partial keywords / positional prefix under key None
        self.recv = recv  # bound receiver (methods)


class _Self:
    """The instance a method is bound to: only class attributes with constant values can be read."""

    __slots__ = ("cls_fq",)

    def __init__(self, cls_fq):
        self.cls_fq = cls_fq


class _Builtin:
    __slots__ = ("name",)

    def __init__(self, name):
        self.name = name


class _Scope:
    __slots__ = ("vars", "func", "outer", "nonlocals")

    def __init__(self, func, outer=None):
        self.vars = {}
        self.func = func
        self.outer = outer
        self.nonlocals = ()


_STRINGISH = (str, _Tok, _Cat, _Alt)
_BUILTINS = {"len", "range", "enumerate", "zip", "list", "tuple", "set", "frozenset", "dict", "str", "int", "bool", "isinstance", "min", "max", "sum", "abs",
             "any", "all", "reversed", "sorted", "iter", "next", "print", "repr", "bytes", "float", "object", "type", "divmod"}
_STR_PREDICATES = {"startswith", "endswith", "isspace", "isalpha", "isalnum", "isdigit", "isidentifier", "islower", "isupper", "isnumeric", "isdecimal", "isprintable", "isascii"}
_STR_PURE = _STR_PREDICATES | {"strip", "lstrip", "rstrip", "replace", "lower", "upper", "title", "capitalize", "split", "rsplit", "splitlines", "partition", "rpartition", "find",
                               "rfind", "index", "rindex", "count", "ljust", "rjust", "center", "zfill", "expandtabs", "removeprefix", "removesuffix", "casefold", "swapcase", "format"}


def _own_nodes(fn):
    """All nodes of a function's own body in source order: nested defs / lambdas / classes are yielded but not entered
    (csverif.astutil.body_walk enters a def that is a direct child of the body)."""
    stack = list(reversed(fn.body)) if isinstance(getattr(fn, "body", None), list) else [fn.body]
    while stack:
        n = stack.pop()
        yield n
        if isinstance(n, (ast.FunctionDef, ast.AsyncFunctionDef, ast.ClassDef, ast.Lambda)):
            continue
        stack.extend(reversed(list(ast.iter_child_nodes(n))))


_FN_INDEX = {}


def _fn_index(fn):
    """(own node ids, nested defs by name, is-generator) of a function node, cached."""
    hit = _FN_INDEX.get(id(fn))
    if hit is None or hit[0] is not fn:
        nodes = list(_own_nodes(fn))
        nested = {}
        for n in nodes:
            if isinstance(n, ast.FunctionDef):
                nested[n.name] = n
        gen = not isinstance(fn, ast.Lambda) and any(isinstance(n, (ast.Yield, ast.YieldFrom)) for n in nodes)
        hit = (fn, {id(n) for n in nodes}, nested, gen, {})
        _FN_INDEX[id(fn)] = hit
    return hit


def _own_assignments(fn, name):
    idx = _fn_index(fn)
    if name not in idx[4]:
        idx[4][name] = [(st, v) for st, v in assignments_to(fn, name) if id(st) in idx[1]]
    return idx[4][name]


def _parts(v):
    if isinstance(v, _Cat):
        return v.parts
    return (v,)


def _is_generator(node) -> bool:
    return _fn_index(node)[3]


class _Sym:
    """One symbolic run.  Data-dependent decisions on symbolic token text are taken from `oracle` (then default False) and
    recorded in `trace`, so that the caller can enumerate the alternatives."""

    MAX_STEPS = 20000
    MAX_DEPTH = 12

    def __init__(self, ctx, oracle=()):
        self.ctx = ctx
        self.oracle = list(oracle)
        self.trace = []
        self.memo = {}
        self.tok_is = {}
        self.steps = 0
        self.depth = 0
        self._static = {}

    # ------------------------------------------------------------------------------------------------ decisions
    def choose(self, key):
        if key is not None and key in self.memo:
            return self.memo[key]
        if len(self.trace) >= 256:
            raise _Unsupported("too many decisions that depend on the text of a token")
        v = self.oracle[len(self.trace)] if len(self.trace) < len(self.oracle) else False
        self.trace.append(v)
        if key is not None:
            self.memo[key] = v
        return v

    def tick(self):
        self.steps += 1
        if self.steps > self.MAX_STEPS:
            raise _Unsupported("step budget exhausted (non-terminating loop?)")

    # ------------------------------------------------------------------------------------------------ value helpers
    @staticmethod
    def _maybe_word(s: str) -> bool:
        """Can a non-delimiter stream item (keyword, option name, STRING literal incl. quotes) have the text s?"""
        if s == "" or s in _DELIMS or s.isspace():
            return False
        if s[0] == '"':
            return len(s) >= 2 and s[-1] == '"'
        return not any(c.isspace() or c in '{};"' for c in s)

    def eq(self, a, b):
        if isinstance(b, _Tok) and not isinstance(a, _Tok):
            a, b = b, a
        if isinstance(a, _Tok):
            if isinstance(b, _Tok):
                if a.idx == b.idx:
                    return True
                if a.text is not None and b.text is not None:
                    return a.text == b.text
                if a.text is not None or b.text is not None:
                    return False
                return self.choose(("eqtok", min(a.idx, b.idx), max(a.idx, b.idx)))
            if isinstance(b, str):
                if a.text is not None:
                    return a.text == b
                if not self._maybe_word(b):
                    return False
                if a.idx in self.tok_is:
                    return self.tok_is[a.idx] == b
                r = self.choose(("eq", a.idx, b))
                if r:
                    self.tok_is[a.idx] = b
                return r
            if isinstance(b, (_Cat, _Alt)):
                return self.choose(None)
            return False
        if isinstance(a, (_Cat, _Alt)) or isinstance(b, (_Cat, _Alt)):
            if isinstance(a, _STRINGISH) and isinstance(b, _STRINGISH):
                return self.choose(None)
            return False
        if isinstance(a, (list, tuple)) and type(a) is type(b):
            return len(a) == len(b) and all(self.eq(x, y) for x, y in zip(a, b))
        if isinstance(a, (_It, _Closure, _Self, _Builtin)) or isinstance(b, (_It, _Closure, _Self, _Builtin)):
            return a is b
        try:
            return a == b
        except Exception as e:  # pragma: no cover
            raise _Abort(str(e))

    def contains(self, container, x):
        if isinstance(container, (list, tuple, set, frozenset, dict, range)):
            for e in list(container):
                if self.eq(x, e):
                    return True
            return False
        if isinstance(container, str):
            if isinstance(x, str):
                return x in container
            if isinstance(x, _Tok):
                if x.text is not None:
                    return x.text in container
                if x.idx in self.tok_is:
                    return self.tok_is[x.idx] in container
                if not any(c.isalnum() or c in '_-#"' for c in container):
                    return False  # a word has at least one such character
                return self.choose(("sub", x.idx, container))
            if isinstance(x, (_Cat, _Alt)):
                return self.choose(None)
            raise _Abort("'in <string>' requires string as left operand")
        if isinstance(container, (_Tok, _Cat, _Alt)):
            if isinstance(container, _Tok) and container.text is not None and isinstance(x, str):
                return x in container.text
            if isinstance(x, str) and x == "":
                return True
            return self.choose(None)
        if isinstance(container, _It):
            raise _Unsupported("membership test on an iterator")
        raise _Abort(f"argument of type {type(container).__name__} is not iterable")

    def truth(self, v):
        if isinstance(v, _Tok):
            return True  # stream items are never empty
        if isinstance(v, _Cat):
            return bool(v.parts)
        if isinstance(v, _Alt):
            return self.choose(None)
        if isinstance(v, (_It, _Closure, _Self, _Builtin)):
            return True
        return bool(v)

    def cat(self, *vals):
        parts = []
        for v in vals:
            if isinstance(v, _Alt):
                return v
            if not isinstance(v, _STRINGISH):
                raise _Abort(f"can only concatenate str (not {type(v).__name__}) to str")
            parts.extend(_parts(v))
        if all(isinstance(p, str) for p in parts):
            return "".join(parts)
        merged = []
        for p in parts:
            if isinstance(p, str) and merged and isinstance(merged[-1], str):
                merged[-1] += p
            else:
                merged.append(p)
        return _Cat(merged)

    def to_str(self, v):
        """str(v) / '{}'.format(v) / f'{v}'."""
        if isinstance(v, _STRINGISH):
            return v
        if isinstance(v, (int, float, bool)) or v is None:
            return str(v)
        return _Alt(f"str() of a {type(v).__name__}")

    def iterate(self, v):
        if isinstance(v, _It):
            return v.it
        if isinstance(v, (list, tuple, range, dict, set, frozenset)):
            return iter(v)
        if isinstance(v, str):
            return iter(v)
        if isinstance(v, _Tok) and v.text is not None:
            return iter(v.text)
        if isinstance(v, (_Tok, _Cat, _Alt)):
            raise _Unsupported("iteration over the characters of a token")
        if isinstance(v, (_Self, _Builtin)):
            raise _Unsupported("iteration over an object the executor does not model")
        raise _Abort(f"{type(v).__name__} object is not iterable")

    # ------------------------------------------------------------------------------------------------ names
    def lookup(self, name, scope):
        s = scope
        root = scope
        while s is not None:
            if name in s.vars:
                return s.vars[name]
            root = s
            s = s.outer
        f = root.func
        # free variable of a nested function whose enclosing function is not being executed: a single definition there
        p = f.parent if f is not None else None
        while p is not None:
            key = (p.fq, name)
            if key in self._static:
                return self._static[key]
            q = f"{p.qualname}.{name}"
            nested = _fn_index(p.node)[2].get(name)
            if nested is not None:
                fn = p.module.funcs.get(q)
                if fn is None or fn.node is not nested:
                    fn = Func(p.module, q, nested, p.cls, p)
                v = _Closure(fn.node, fn, None)
                self._static[key] = v
                return v
            defs = _own_assignments(p.node, name)
            if len(defs) == 1 and defs[0][1] is not None:
                v = self.eval(defs[0][1], _Scope(p))
                self._static[key] = v
                return v
            if defs:
                raise _Unsupported(f"free variable `{name}` has several definitions in the enclosing function")
            if name in params(p.node):
                if p.cls and params(p.node) and name == params(p.node)[0]:
                    return _Self(f"{p.module.name}.{p.cls}")
                raise _Unsupported(f"free variable `{name}` is a parameter of the enclosing function")
            p = p.parent
        if f is not None:
            mod = f.module
            key = (mod.name, name)
            if key in self._static:
                return self._static[key]
            if name in mod.funcs:
                fn = mod.funcs[name]
                return _Closure(fn.node, fn, None)
            if name in mod.consts:
                v = self.eval(mod.consts[name], _Scope(Func(mod, "<module>", mod.tree, None, None)))
                self._static[key] = v
                return v
            sym = self.ctx.rs.lookup(mod.name, name)
            if sym is not None and sym.kind == "external":
                return _Builtin("ext:" + (sym.name or name))
            if sym is not None and sym.kind == "func":
                fn = self.ctx.repo.modules[sym.module].funcs.get(sym.name)
                if fn is not None:
                    return _Closure(fn.node, fn, None)
            if sym is not None and sym.kind == "partial":
                raise _Unsupported(f"module-level functools.partial `{name}`")
            if sym is not None and sym.kind == "class":
                return _Builtin("cls:" + sym.fq)
        if name in _BUILTINS:
            return _Builtin(name)
        if name in ("True", "False", "None"):  # pragma: no cover
            return {"True": True, "False": False, "None": None}[name]
        raise _Unsupported(f"name `{name}` cannot be resolved")

    def store(self, target, v, scope):
        if isinstance(target, ast.Name):
            if target.id in scope.nonlocals:
                o = scope.outer
                while o is not None and target.id not in o.vars:
                    o = o.outer
                if o is None:
                    raise _Unsupported(f"nonlocal `{target.id}` is bound in a function that is not being executed")
                o.vars[target.id] = v
                return
            scope.vars[target.id] = v
        elif isinstance(target, (ast.Tuple, ast.List)):
            vals = list(self.iterate(v))
            if any(isinstance(t, ast.Starred) for t in target.elts):
                raise _Unsupported("starred assignment target")
            if len(vals) != len(target.elts):
                raise _Abort("unpacking arity")
            for t, x in zip(target.elts, vals):
                self.store(t, x, scope)
        elif isinstance(target, ast.Subscript):
            base = self.eval(target.value, scope)
            if isinstance(base, list):
                if isinstance(target.slice, ast.Slice):
                    base[self._slice(target.slice, scope)] = list(self.iterate(v))
                else:
                    k = self.eval(target.slice, scope)
                    if not isinstance(k, int):
                        raise _Abort("list index")
                    try:
                        base[k] = v
                    except IndexError as e:
                        raise _Abort(str(e))
            elif isinstance(base, dict):
                k = self.eval(target.slice, scope)
                base[self._key(base, k)] = v
            else:
                raise _Unsupported(f"item assignment on {type(base).__name__}")
        else:
            raise _Unsupported(f"assignment to {src(target)}")

    def _key(self, d, k):
        """The key of dict d that equals k (tokens compare through `eq`), else k itself if hashable."""
        if isinstance(k, (_Tok, _Cat, _Alt)):
            for e in d:
                if self.eq(k, e):
                    return e
            if isinstance(k, _Tok):
                return k
            raise _Unsupported("derived token text used as a dictionary key")
        for e in d:
            if isinstance(e, _Tok) and self.eq(e, k):
                return e
        try:
            hash(k)
        except TypeError as e:
            raise _Abort(str(e))
        return k

    def _slice(self, sl, scope):
        lo = self.eval(sl.lower, scope) if sl.lower is not None else None
        hi = self.eval(sl.upper, scope) if sl.upper is not None else None
        st = self.eval(sl.step, scope) if sl.step is not None else None
        for x in (lo, hi, st):
            if x is not None and not isinstance(x, int):
                raise _Abort("slice indices must be integers")
        return slice(lo, hi, st)

    # ------------------------------------------------------------------------------------------------ statements
    def block(self, body, scope):
        for st in body:
            sig = yield from self.stmt(st, scope)
            if sig is not None:
                return sig
        return None

    def stmt(self, st, scope):
        self.tick()
        if isinstance(st, ast.Expr):
            v = st.value
            if isinstance(v, ast.Yield):
                yield (self.eval(v.value, scope) if v.value is not None else None)
                return None
            if isinstance(v, ast.YieldFrom):
                for x in self.iterate(self.eval(v.value, scope)):
                    self.tick()
                    yield x
                return None
            self.eval(v, scope)
            return None
        if isinstance(st, ast.Assign):
            if isinstance(st.value, (ast.Yield, ast.YieldFrom)):
                raise _Unsupported("value of a yield expression is used")
            v = self.eval(st.value, scope)
            for t in st.targets:
                self.store(t, v, scope)
            return None
        if isinstance(st, ast.AnnAssign):
            if st.value is not None:
                self.store(st.target, self.eval(st.value, scope), scope)
            return None
        if isinstance(st, ast.AugAssign):
            load = ast.copy_location(_as_load(st.target), st.target)
            cur = self.eval(load, scope)
            rhs = self.eval(st.value, scope)
            if isinstance(cur, list) and isinstance(st.op, ast.Add):
                cur.extend(self.iterate(rhs))
                return None
            self.store(st.target, self.binop(st.op, cur, rhs), scope)
            return None
        if isinstance(st, ast.If):
            if self.truth(self.eval(st.test, scope)):
                return (yield from self.block(st.body, scope))
            return (yield from self.block(st.orelse, scope))
        if isinstance(st, (ast.For,)):
            broke = False
            for x in self.iterate(self.eval(st.iter, scope)):
                self.tick()
                self.store(st.target, x, scope)
                sig = yield from self.block(st.body, scope)
                if sig == "break":
                    broke = True
                    break
                if sig is not None and sig != "continue":
                    return sig
            if not broke and st.orelse:
                return (yield from self.block(st.orelse, scope))
            return None
        if isinstance(st, ast.While):
            broke = False
            while self.truth(self.eval(st.test, scope)):
                self.tick()
                sig = yield from self.block(st.body, scope)
                if sig == "break":
                    broke = True
                    break
                if sig is not None and sig != "continue":
                    return sig
            if not broke and st.orelse:
                return (yield from self.block(st.orelse, scope))
            return None
        if isinstance(st, ast.Pass):
            return None
        if isinstance(st, ast.Break):
            return "break"
        if isinstance(st, ast.Continue):
            return "continue"
        if isinstance(st, ast.Return):
            return ("return", self.eval(st.value, scope) if st.value is not None else None)
        if isinstance(st, ast.Assert):
            if not self.truth(self.eval(st.test, scope)):
                raise _Abort("assertion fails")
            return None
        if isinstance(st, ast.Raise):
            raise _Abort("raise " + src(st.exc)[:60] if st.exc is not None else "raise")
        if isinstance(st, ast.FunctionDef):
            f = _scope_func(scope)
            q = f"{f.qualname}.{st.name}" if f is not None else st.name
            fn = (f.module.funcs.get(q) if f is not None else None)
            if fn is None or fn.node is not st:
                fn = Func(f.module, q, st, f.cls, f) if f is not None else None
            scope.vars[st.name] = _Closure(st, fn, scope)
            return None
        if isinstance(st, ast.Delete):
            for t in st.targets:
                if isinstance(t, ast.Subscript):
                    base = self.eval(t.value, scope)
                    if isinstance(base, list):
                        try:
                            if isinstance(t.slice, ast.Slice):
                                del base[self._slice(t.slice, scope)]
                            else:
                                del base[self.eval(t.slice, scope)]
                        except (IndexError, TypeError) as e:
                            raise _Abort(str(e))
                        continue
                if isinstance(t, ast.Name) and t.id in scope.vars:
                    del scope.vars[t.id]
                    continue
                raise _Unsupported(f"del {src(t)}")
            return None
        if isinstance(st, ast.Nonlocal):
            scope.nonlocals = tuple(scope.nonlocals) + tuple(st.names)
            return None
        if isinstance(st, (ast.Import, ast.ImportFrom)):
            return None
        raise _Unsupported(f"statement `{type(st).__name__}`")

    # ------------------------------------------------------------------------------------------------ expressions
    def eval(self, e, scope):
        self.tick()
        if isinstance(e, ast.Constant):
            return e.value
        if isinstance(e, ast.Name):
            return self.lookup(e.id, scope)
        if isinstance(e, ast.NamedExpr):
            v = self.eval(e.value, scope)
            self.store(e.target, v, scope)
            return v
        if isinstance(e, (ast.List, ast.Tuple, ast.Set)):
            vals = []
            for x in e.elts:
                if isinstance(x, ast.Starred):
                    vals.extend(self.iterate(self.eval(x.value, scope)))
                else:
                    vals.append(self.eval(x, scope))
            if isinstance(e, ast.List):
                return vals
            if isinstance(e, ast.Tuple):
                return tuple(vals)
            if any(isinstance(v, (_Cat, _Alt, list, dict)) for v in vals):
                raise _Unsupported("set of derived values")
            return set(vals)
        if isinstance(e, ast.Dict):
            d = {}
            for k, v in zip(e.keys, e.values):
                if k is None:
                    raise _Unsupported("dict unpacking")
                d[self._key(d, self.eval(k, scope))] = self.eval(v, scope)
            return d
        if isinstance(e, ast.BinOp):
            return self.binop(e.op, self.eval(e.left, scope), self.eval(e.right, scope))
        if isinstance(e, ast.UnaryOp):
            v = self.eval(e.operand, scope)
            if isinstance(e.op, ast.Not):
                return not self.truth(v)
            if isinstance(v, (int, float)):
                if isinstance(e.op, ast.USub):
                    return -v
                if isinstance(e.op, ast.UAdd):
                    return +v
                if isinstance(e.op, ast.Invert) and isinstance(v, int):
                    return ~v
            raise _Abort(f"bad operand for unary {type(e.op).__name__}")
        if isinstance(e, ast.BoolOp):
            v = None
            for x in e.values:
                v = self.eval(x, scope)
                t = self.truth(v)
                if isinstance(e.op, ast.And) and not t:
                    return v
                if isinstance(e.op, ast.Or) and t:
                    return v
            return v
        if isinstance(e, ast.Compare):
            left = self.eval(e.left, scope)
            for op, r in zip(e.ops, e.comparators):
                right = self.eval(r, scope)
                if not self.compare(op, left, right):
                    return False
                left = right
            return True
        if isinstance(e, ast.IfExp):
            return self.eval(e.body if self.truth(self.eval(e.test, scope)) else e.orelse, scope)
        if isinstance(e, ast.Subscript):
            return self.subscript(self.eval(e.value, scope), e.slice, scope)
        if isinstance(e, ast.JoinedStr):
            vals = []
            for p in e.values:
                if isinstance(p, ast.Constant):
                    vals.append(p.value)
                else:
                    v = self.eval(p.value, scope)
                    if p.format_spec is not None or p.conversion not in (-1, 115):
                        v = _Alt("formatted with a conversion / format spec") if isinstance(v, (_Tok, _Cat, _Alt)) else self._plain_format(p, v, scope)
                    vals.append(self.to_str(v))
            return self.cat(*vals)
        if isinstance(e, (ast.ListComp, ast.GeneratorExp, ast.SetComp)):
            out = []
            self._comp(e.generators, 0, _Scope(scope.func, scope), lambda sc: out.append(self.eval(e.elt, sc)))
            if isinstance(e, ast.ListComp):
                return out
            if isinstance(e, ast.GeneratorExp):
                return _It(out)
            return set(out)
        if isinstance(e, ast.DictComp):
            d = {}

            def put(sc):
                d[self._key(d, self.eval(e.key, sc))] = self.eval(e.value, sc)

            self._comp(e.generators, 0, _Scope(scope.func, scope), put)
            return d
        if isinstance(e, ast.Lambda):
            return _Closure(e, _scope_func(scope), scope)
        if isinstance(e, ast.Attribute):
            base = self.eval(e.value, scope)
            return self.attribute(base, e.attr)
        if isinstance(e, ast.Call):
            return self.call(e, scope)
        if isinstance(e, (ast.Yield, ast.YieldFrom)):
            raise _Unsupported("value of a yield expression is used")
        raise _Unsupported(f"expression `{type(e).__name__}`")

    def _plain_format(self, p, v, scope):
        spec = self.eval(p.format_spec, scope) if p.format_spec is not None else ""
        if not isinstance(spec, str):
            raise _Unsupported("computed format spec")
        try:
            if p.conversion == 114:
                v = repr(v)
            elif p.conversion == 97:
                v = ascii(v)
            elif p.conversion == 115:
                v = str(v)
            return format(v, spec)
        except Exception as ex:
            raise _Abort(str(ex))

    def _comp(self, gens, i, scope, emit):
        if i == len(gens):
            emit(scope)
            return
        g = gens[i]
        for x in self.iterate(self.eval(g.iter, scope)):
            self.tick()
            self.store(g.target, x, scope)
            if all(self.truth(self.eval(c, scope)) for c in g.ifs):
                self._comp(gens, i + 1, scope, emit)

    def attribute(self, base, attr):
        if isinstance(base, _Self):
            try:
                attrs = self.ctx.repo.class_attrs(base.cls_fq)
            except Exception:
                attrs = {}
            mname, _, cname = base.cls_fq.partition(".")
            mod = self.ctx.repo.modules.get(mname)
            if mod is not None and f"{cname}.{attr}" in mod.funcs:
                fn = mod.funcs[f"{cname}.{attr}"]
                decos = {dotted(d) for d in getattr(fn.node, "decorator_list", [])}
                if decos & {"staticmethod"}:
                    return _Closure(fn.node, fn, None)
                if decos - {"classmethod"}:
                    raise _Unsupported(f"decorated method {attr}")
                return _Closure(fn.node, fn, None, recv=base)
            if attr in attrs:
                return self.eval(attrs[attr], _Scope(Func(mod, "<class>", mod.tree, None, None)))
            raise _Unsupported(f"instance attribute self.{attr}")
        if isinstance(base, _Builtin):
            return _Builtin(f"{base.name}.{attr}")
        raise _Unsupported(f"attribute .{attr} of a {type(base).__name__}")

    def binop(self, op, a, b):
        sym_a, sym_b = isinstance(a, (_Tok, _Cat, _Alt)), isinstance(b, (_Tok, _Cat, _Alt))
        if isinstance(op, ast.Add):
            if sym_a or sym_b:
                return self.cat(a, b)
            if isinstance(a, list) and isinstance(b, list):
                return a + b
            if isinstance(a, tuple) and isinstance(b, tuple):
                return a + b
        if isinstance(op, ast.Mult) and (sym_a or sym_b):
            s, n = (a, b) if sym_a else (b, a)
            if not isinstance(n, int):
                raise _Abort("can't multiply sequence by non-int")
            if isinstance(s, _Alt):
                return s
            if n > 64:
                raise _Unsupported("large repetition of token text")
            return self.cat(*([s] * max(n, 0))) if n > 0 else ""
        if isinstance(op, ast.Mod) and isinstance(a, str) and (sym_b or (isinstance(b, tuple) and any(isinstance(x, (_Tok, _Cat, _Alt)) for x in b))):
            args = list(b) if isinstance(b, tuple) else [b]
            pieces = a.split("%s")
            if "%" in "".join(pieces).replace("%%", "") or len(pieces) != len(args) + 1:
                return _Alt("%-formatted with a conversion other than %s")
            out = [pieces[0].replace("%%", "%")]
            for x, lit in zip(args, pieces[1:]):
                out += [self.to_str(x), lit.replace("%%", "%")]
            return self.cat(*out)
        if sym_a or sym_b:
            raise _Unsupported(f"operator {type(op).__name__} on token text")
        if isinstance(a, (_It, _Closure, _Self, _Builtin)) or isinstance(b, (_It, _Closure, _Self, _Builtin)):
            raise _Abort(f"unsupported operand for {type(op).__name__}")
        try:
            if isinstance(op, ast.Add):
                return a + b
            if isinstance(op, ast.Sub):
                return a - b
            if isinstance(op, ast.Mult):
                if isinstance(a, (str, list, tuple)) and isinstance(b, int) and b * max(len(a), 1) > 1 << 16 or isinstance(b, (str, list, tuple)) and isinstance(a, int) and a * max(len(b), 1) > 1 << 16:
                    raise _Unsupported("very large repetition")
                return a * b
            if isinstance(op, ast.FloorDiv):
                return a // b
            if isinstance(op, ast.Div):
                return a / b
            if isinstance(op, ast.Mod):
                if isinstance(a, str) and any(isinstance(x, (list, dict)) for x in (b if isinstance(b, tuple) else (b,))):
                    raise _Unsupported("%-format of a container")
                return a % b
            if isinstance(op, ast.Pow):
                if isinstance(a, int) and isinstance(b, int) and 0 <= b <= 64 and abs(a) <= 1 << 16:
                    return a ** b
                raise _Unsupported("pow")
            if isinstance(op, ast.BitAnd):
                return a & b
            if isinstance(op, ast.BitOr):
                return a | b
            if isinstance(op, ast.BitXor):
                return a ^ b
            if isinstance(op, ast.LShift) and isinstance(b, int) and b < 64:
                return a << b
            if isinstance(op, ast.RShift):
                return a >> b
        except _Unsupported:
            raise
        except Exception as ex:
            raise _Abort(str(ex))
        raise _Unsupported(f"operator {type(op).__name__}")

    def compare(self, op, a, b):
        if isinstance(op, ast.Eq):
            return self.eq(a, b)
        if isinstance(op, ast.NotEq):
            return not self.eq(a, b)
        if isinstance(op, ast.In):
            return self.contains(b, a)
        if isinstance(op, ast.NotIn):
            return not self.contains(b, a)
        if isinstance(op, (ast.Is, ast.IsNot)):
            if isinstance(a, _Tok) and isinstance(b, _Tok):
                same = a.idx == b.idx
            elif a is None or b is None or isinstance(a, bool) or isinstance(b, bool):
                same = a is b
            elif isinstance(a, (list, dict, set, _It, _Closure)) or isinstance(b, (list, dict, set, _It, _Closure)):
                same = a is b
            else:
                raise _Unsupported("identity comparison of values")
            return same if isinstance(op, ast.Is) else not same
        sym = (_Tok, _Cat, _Alt)
        if isinstance(a, sym) or isinstance(b, sym):
            if isinstance(a, _STRINGISH) and isinstance(b, _STRINGISH):
                ta = a.text if isinstance(a, _Tok) else a if isinstance(a, str) else None
                tb = b.text if isinstance(b, _Tok) else b if isinstance(b, str) else None
                if ta is not None and tb is not None:
                    a, b = ta, tb
                else:
                    return self.choose(None)
            else:
                raise _Abort("ordering of str and non-str")
        try:
            if isinstance(op, ast.Lt):
                return a < b
            if isinstance(op, ast.LtE):
                return a <= b
            if isinstance(op, ast.Gt):
                return a > b
            if isinstance(op, ast.GtE):
                return a >= b
        except Exception as ex:
            raise _Abort(str(ex))
        raise _Unsupported(f"comparison {type(op).__name__}")

    def subscript(self, base, sl, scope):
        if isinstance(sl, ast.Slice):
            s = self._slice(sl, scope)
            if isinstance(base, (list, tuple, str, range)):
                return base[s]
            if isinstance(base, (_Tok, _Cat, _Alt)):
                return _Alt("slice of token text")
            raise _Abort(f"{type(base).__name__} is not subscriptable")
        k = self.eval(sl, scope)
        if isinstance(base, (list, tuple, str, range)):
            if isinstance(k, bool) or not isinstance(k, int):
                raise _Abort("indices must be integers")
            try:
                return base[k]
            except IndexError as ex:
                raise _Abort(str(ex))
        if isinstance(base, dict):
            kk = self._key(base, k)
            if kk not in base:
                raise _Abort(f"KeyError {k!r}")
            return base[kk]
        if isinstance(base, (_Tok, _Cat, _Alt)):
            if isinstance(base, _Tok) and base.text is not None and isinstance(k, int):
                try:
                    return base.text[k]
                except IndexError as ex:
                    raise _Abort(str(ex))
            return _Alt("character of token text")
        if isinstance(base, (_Self, _Builtin)):
            raise _Unsupported("subscript of an object the executor does not model")
        raise _Abort(f"{type(base).__name__} is not subscriptable")

    # ------------------------------------------------------------------------------------------------ calls
    def call(self, e, scope):
        args, kwargs = [], {}
        fn = e.func
        # method calls on values
        if isinstance(fn, ast.Attribute):
            recv = self.eval(fn.value, scope)
            if not isinstance(recv, (_Self, _Builtin)):
                args, kwargs = self._args(e, scope)
                return self.method(recv, fn.attr, args, kwargs)
            callee = self.attribute(recv, fn.attr)
        else:
            callee = self.eval(fn, scope)
        args, kwargs = self._args(e, scope)
        return self.apply(callee, args, kwargs)

    def _args(self, e, scope):
        args, kwargs = [], {}
        for a in e.args:
            if isinstance(a, ast.Starred):
                args.extend(self.iterate(self.eval(a.value, scope)))
            else:
                args.append(self.eval(a, scope))
        for k in e.keywords:
            if k.arg is None:
                d = self.eval(k.value, scope)
                if not isinstance(d, dict) or not all(isinstance(x, str) for x in d):
                    raise _Unsupported("** of a non-constant mapping")
                kwargs.update(d)
            else:
                kwargs[k.arg] = self.eval(k.value, scope)
        return args, kwargs

    def apply(self, callee, args, kwargs):
        if isinstance(callee, _Closure):
            return self.invoke(callee, args, kwargs)
        if isinstance(callee, _Builtin):
            return self.builtin(callee.name, args, kwargs)
        raise _Abort(f"{type(callee).__name__} object is not callable")

    def invoke(self, c: _Closure, args, kwargs):
        node = c.node
        a = node.args
        if a.vararg is not None or a.kwarg is not None:
            raise _Unsupported("callee with *args / **kwargs")
        args = list(c.bound.get(None, ())) + list(args)
        kw = {k: v for k, v in c.bound.items() if k is not None}
        kw.update(kwargs)
        if c.recv is not None:
            args = [c.recv] + args
        names = [x.arg for x in a.posonlyargs + a.args]
        if len(args) > len(names):
            raise _Abort("too many positional arguments")
        scope = _Scope(c.func, c.outer)
        for n, v in zip(names, args):
            scope.vars[n] = v
        defaults = dict(zip(names[len(names) - len(a.defaults):], a.defaults))
        for x, d in zip(a.kwonlyargs, a.kw_defaults):
            names.append(x.arg)
            if d is not None:
                defaults[x.arg] = d
        for k, v in kw.items():
            if k not in names or k in scope.vars:
                raise _Abort(f"unexpected / duplicate argument {k}")
            scope.vars[k] = v
        for n in names:
            if n not in scope.vars:
                if n not in defaults:
                    raise _Abort(f"missing argument {n}")
                scope.vars[n] = self.eval(defaults[n], _Scope(c.func, c.outer))
        self.depth += 1
        if self.depth > self.MAX_DEPTH:
            raise _Unsupported("call depth")
        try:
            if isinstance(node, ast.Lambda):
                return self.eval(node.body, scope)
            if _is_generator(node):
                return _It(self._gen(node, scope))
            gen = self.block(node.body, scope)
            try:
                next(gen)
            except StopIteration as stop:
                sig = stop.value
                return sig[1] if isinstance(sig, tuple) else None
            raise _Unsupported("yield in a non-generator")  # pragma: no cover
        finally:
            self.depth -= 1

    def _gen(self, node, scope):
        sig = yield from self.block(node.body, scope)
        return sig

    def method(self, recv, name, args, kwargs):
        if kwargs and not (isinstance(recv, str) and name == "format"):
            raise _Unsupported(f"keyword arguments in .{name}()")
        try:
            if isinstance(recv, list):
                return self._list_method(recv, name, args)
            if isinstance(recv, dict):
                return self._dict_method(recv, name, args)
            if isinstance(recv, (set, frozenset)):
                if name in ("add", "discard", "remove") and isinstance(recv, set) and len(args) == 1:
                    k = args[0]
                    present = next((x for x in recv if self.eq(x, k)), None)
                    if name == "add":
                        if present is None:
                            if isinstance(k, (_Cat, _Alt, list, dict)):
                                raise _Unsupported("set of derived values")
                            recv.add(k)
                    elif present is not None:
                        recv.discard(present)
                    elif name == "remove":
                        raise _Abort("KeyError")
                    return None
                if name == "copy":
                    return set(recv)
                if name == "clear" and isinstance(recv, set):
                    recv.clear()
                    return None
                raise _Unsupported(f"set method .{name}()")
            if isinstance(recv, tuple):
                if name == "index" and len(args) == 1:
                    for i, x in enumerate(recv):
                        if self.eq(x, args[0]):
                            return i
                    raise _Abort("ValueError")
                if name == "count" and len(args) == 1:
                    return sum(1 for x in recv if self.eq(x, args[0]))
                raise _Unsupported(f"tuple method .{name}()")
            if isinstance(recv, _STRINGISH):
                return self._str_method(recv, name, args, kwargs)
        except (_Unsupported, _Abort):
            raise
        except Exception as ex:
            raise _Abort(f"{type(ex).__name__}: {ex}")
        raise _Unsupported(f"method .{name}() of a {type(recv).__name__}")

    def _list_method(self, recv, name, args):
        if name == "append" and len(args) == 1:
            recv.append(args[0])
            return None
        if name == "extend" and len(args) == 1:
            recv.extend(self.iterate(args[0]))
            return None
        if name == "clear" and not args:
            recv.clear()
            return None
        if name == "pop" and len(args) <= 1:
            if args and not isinstance(args[0], int):
                raise _Abort("pop index")
            return recv.pop(*args)
        if name == "insert" and len(args) == 2 and isinstance(args[0], int):
            recv.insert(args[0], args[1])
            return None
        if name == "copy" and not args:
            return list(recv)
        if name == "reverse" and not args:
            recv.reverse()
            return None
        if name in ("index", "count", "remove") and len(args) == 1:
            hits = [i for i, x in enumerate(recv) if self.eq(x, args[0])]
            if name == "count":
                return len(hits)
            if not hits:
                raise _Abort("ValueError: not in list")
            if name == "index":
                return hits[0]
            del recv[hits[0]]
            return None
        raise _Unsupported(f"list method .{name}()")

    def _dict_method(self, recv, name, args):
        if name == "get" and 1 <= len(args) <= 2:
            k = self._key(recv, args[0])
            return recv[k] if k in recv else (args[1] if len(args) == 2 else None)
        if name == "setdefault" and len(args) == 2:
            k = self._key(recv, args[0])
            return recv.setdefault(k, args[1])
        if name == "pop" and 1 <= len(args) <= 2:
            k = self._key(recv, args[0])
            if k in recv:
                return recv.pop(k)
            if len(args) == 2:
                return args[1]
            raise _Abort("KeyError")
        if name == "keys" and not args:
            return list(recv.keys())
        if name == "values" and not args:
            return list(recv.values())
        if name == "items" and not args:
            return [(k, v) for k, v in recv.items()]
        if name == "copy" and not args:
            return dict(recv)
        if name == "clear" and not args:
            recv.clear()
            return None
        raise _Unsupported(f"dict method .{name}()")

    def _str_method(self, recv, name, args, kwargs):
        if name == "join" and len(args) == 1:
            elems = list(self.iterate(args[0]))
            out = []
            for i, x in enumerate(elems):
                if not isinstance(x, _STRINGISH):
                    raise _Abort("sequence item: expected str instance")
                if i:
                    out.append(recv)
                out.append(x)
            return self.cat(*out) if out else ""
        if name == "format" and isinstance(recv, str):
            import string

            out, auto = [], 0
            try:
                fields = list(string.Formatter().parse(recv))
            except ValueError as ex:
                raise _Abort(str(ex))
            for lit, field, spec, conv in fields:
                out.append(lit)
                if field is None:
                    continue
                if field == "":
                    field, auto = str(auto), auto + 1
                if field.isdigit():
                    if int(field) >= len(args):
                        raise _Abort("format index")
                    v = args[int(field)]
                elif field in kwargs:
                    v = kwargs[field]
                else:
                    raise _Unsupported("format field with attribute / index access")
                if spec or conv not in (None, "s"):
                    if isinstance(v, (_Tok, _Cat, _Alt)):
                        v = _Alt("formatted with a conversion / format spec")
                    elif isinstance(v, (int, float, str, bool)) or v is None:
                        v = format(repr(v) if conv == "r" else v, spec or "")
                    else:
                        raise _Unsupported("format of a container")
                out.append(self.to_str(v))
            return self.cat(*out)
        plain_args = []
        for x in args:
            if isinstance(x, _Tok) and x.text is not None:
                plain_args.append(x.text)
            elif isinstance(x, (str, int, type(None))) or (isinstance(x, tuple) and all(isinstance(y, str) for y in x)):
                plain_args.append(x)
            else:
                plain_args = None
                break
        if name not in _STR_PURE:
            if name == "encode" and isinstance(recv, (_Tok, _Cat, _Alt)):
                return _Alt("encoded token text")
            raise _Unsupported(f"str method .{name}()")
        if isinstance(recv, str):
            if plain_args is None:
                if name in ("startswith", "endswith", "find", "rfind", "count", "index", "rindex") and args and isinstance(args[0], (_Tok, _Cat, _Alt)):
                    if name in ("startswith", "endswith"):
                        return self.choose(None) if recv else False
                    raise _Unsupported(f"position of token text inside a constant (.{name})")
                return _Alt(f".{name}() with token text as an argument")
            return getattr(recv, name)(*plain_args)
        # receiver carries token text
        if isinstance(recv, _Tok) and recv.text is not None and plain_args is not None and name in _STR_PREDICATES:
            return getattr(recv.text, name)(*plain_args)
        if name in _STR_PREDICATES:
            if name == "isspace" and isinstance(recv, (_Tok,)):
                return False  # an item of the stream is never blank
            if name == "isspace" and isinstance(recv, _Cat):
                return False  # contains a whole token
            key = ("pred", recv.idx, name, tuple(plain_args)) if isinstance(recv, _Tok) and plain_args is not None and all(isinstance(x, (str, int, type(None), tuple)) for x in plain_args) else None
            return self.choose(key)
        if name in ("find", "rfind", "index", "rindex", "count"):
            raise _Unsupported(f"position inside token text (.{name})")
        if name in ("split", "rsplit", "splitlines", "partition", "rpartition"):
            raise _Unsupported(f"token text is split (.{name})")
        return _Alt(f".{name}() applied to token text")

    def builtin(self, name, args, kwargs):
        try:
            return self._builtin(name, args, kwargs)
        except (_Unsupported, _Abort):
            raise
        except Exception as ex:
            raise _Abort(f"{type(ex).__name__}: {ex}")

    def _builtin(self, name, args, kwargs):
        if name in ("ext:functools.partial", "ext:functools.partial.partial") or name.endswith("functools.partial"):
            if not args or not isinstance(args[0], _Closure):
                raise _Unsupported("functools.partial of a non-package callable")
            c = args[0]
            bound = dict(c.bound)
            bound[None] = tuple(bound.get(None, ())) + tuple(args[1:])
            bound.update(kwargs)
            return _Closure(c.node, c.func, c.outer, bound, c.recv)
        if name.startswith(("ext:", "cls:")):
            raise _Unsupported(f"call of {name[4:]}")
        if kwargs and name not in ("enumerate", "print", "next", "min", "max", "sorted", "zip", "sum"):
            raise _Unsupported(f"keyword arguments in {name}()")
        if name == "len" and len(args) == 1:
            v = args[0]
            if isinstance(v, (list, tuple, dict, set, frozenset, str, range)):
                return len(v)
            if isinstance(v, _Tok) and v.text is not None:
                return len(v.text)
            if isinstance(v, (_Tok, _Cat, _Alt)):
                raise _Unsupported("length of token text")
            raise _Abort("object has no len()")
        if name == "range":
            if not all(isinstance(x, int) for x in args):
                raise _Abort("range() arguments must be integers")
            r = range(*args)
            if len(r) > 10000:
                raise _Unsupported("very long range")
            return r
        if name == "enumerate" and 1 <= len(args) <= 2:
            start = kwargs.get("start", args[1] if len(args) == 2 else 0)
            if not isinstance(start, int):
                raise _Abort("enumerate start")
            return _It(_lazy_enumerate(self.iterate(args[0]), start))
        if name == "zip":
            if kwargs:
                raise _Unsupported("zip(strict=)")
            return _It(zip(*[self.iterate(a) for a in args]))
        if name == "reversed" and len(args) == 1 and isinstance(args[0], (list, tuple, range, str)):
            return _It(reversed(args[0]))
        if name in ("list", "tuple") and len(args) <= 1:
            vals = list(self.iterate(args[0])) if args else []
            return vals if name == "list" else tuple(vals)
        if name in ("set", "frozenset") and len(args) <= 1:
            vals = list(self.iterate(args[0])) if args else []
            if any(isinstance(v, (_Cat, _Alt, list, dict)) for v in vals):
                raise _Unsupported("set of derived values")
            out = []
            for v in vals:
                if not any(self.eq(v, o) for o in out):
                    out.append(v)
            return set(out) if name == "set" else frozenset(out)
        if name == "dict" and not args:
            return dict(kwargs)
        if name == "str" and len(args) <= 1:
            return self.to_str(args[0]) if args else ""
        if name == "repr" and len(args) == 1:
            return _Alt("repr() of token text") if isinstance(args[0], (_Tok, _Cat, _Alt)) else repr(args[0]) if isinstance(args[0], (int, str, float, bool, type(None))) else _Alt("repr()")
        if name == "int" and len(args) == 1 and isinstance(args[0], (int, str, float, bool)):
            return int(args[0])
        if name == "float" and len(args) == 1 and isinstance(args[0], (int, str, float, bool)):
            return float(args[0])
        if name == "bool" and len(args) <= 1:
            return self.truth(args[0]) if args else False
        if name == "abs" and len(args) == 1 and isinstance(args[0], (int, float)):
            return abs(args[0])
        if name == "divmod" and len(args) == 2 and all(isinstance(x, int) for x in args):
            return divmod(*args)
        if name in ("min", "max"):
            vals = list(self.iterate(args[0])) if len(args) == 1 else list(args)
            if "key" in kwargs or not all(isinstance(v, (int, float)) for v in vals):
                raise _Unsupported(f"{name}() of non-numbers")
            if not vals:
                if "default" in kwargs:
                    return kwargs["default"]
                raise _Abort(f"{name}() of an empty sequence")
            return min(vals) if name == "min" else max(vals)
        if name == "sum" and 1 <= len(args) <= 2:
            vals = list(self.iterate(args[0]))
            if not all(isinstance(v, (int, float)) for v in vals):
                raise _Unsupported("sum() of non-numbers")
            return sum(vals, *(args[1:] if len(args) == 2 and isinstance(args[1], (int, float)) else ()))
        if name in ("any", "all") and len(args) == 1:
            ts = [self.truth(v) for v in self.iterate(args[0])]
            return any(ts) if name == "any" else all(ts)
        if name == "sorted":
            raise _Unsupported("sorted()")
        if name == "iter" and len(args) == 1:
            return args[0] if isinstance(args[0], _It) else _It(self.iterate(args[0]))
        if name == "next" and 1 <= len(args) <= 2:
            if not isinstance(args[0], _It):
                raise _Abort("next() of a non-iterator")
            for x in args[0].it:
                return x
            if len(args) == 2:
                return args[1]
            raise _Abort("StopIteration")
        if name == "print":
            return None
        if name == "isinstance" and len(args) == 2:
            return self._isinstance(args[0], args[1])
        if name in ("str", "int", "bool", "list", "tuple", "dict", "set", "bytes", "float", "object", "type", "frozenset"):
            raise _Unsupported(f"{name}() with these arguments")
        raise _Unsupported(f"builtin {name}()")

    def _isinstance(self, v, t):
        if isinstance(t, tuple):
            return any(self._isinstance(v, x) for x in t)
        if not isinstance(t, _Builtin):
            raise _Unsupported("isinstance against a computed type")
        py = {"str": (str, _Tok, _Cat, _Alt), "int": (int,), "bool": (bool,), "list": (list,), "tuple": (tuple,), "dict": (dict,), "set": (set,), "frozenset": (frozenset,),
              "float": (float,), "bytes": (bytes,), "object": (object,)}
        if t.name in py:
            return isinstance(v, py[t.name])
        if isinstance(v, _Tok):
            # lark yields filtered keywords as plain str and kept terminals as Token (a str subclass)
            if v.text is not None:
                return False
            return self.choose(("isinst", v.idx, t.name))
        if t.name.startswith(("ext:", "cls:")):
            return False
        raise _Unsupported(f"isinstance against {t.name}")


def _lazy_enumerate(it, start):
    i = start
    for x in it:
        yield i, x
        i += 1


def _as_load(t):
    import copy

    t = copy.copy(t)
    t.ctx = ast.Load()
    return t


def _scope_func(scope):
    return scope.func


# ---------------------------------------------------------------------------------------------- token stream families
def _sentences(max_tokens):
    """Family A - every token skeleton of the profile language with at most max_tokens items: a statement is 1-3 words
    and `;`, a block is a keyword, an optional variant word, `{`, statements/blocks, `}`; a profile is a non-empty
    sequence of them."""
    stm, seq = {}, {0: [()]}

    def stmts(n):
        if n not in stm:
            out = []
            if 2 <= n <= 4:
                out.append(("w",) * (n - 1) + (";",))
            for h in (1, 2):
                if n - h - 2 >= 0:
                    for body in seqs(n - h - 2):
                        out.append(("w",) * h + ("{",) + body + ("}",))
            stm[n] = out
        return stm[n]

    def seqs(n):
        if n not in seq:
            out = []
            for k in range(2, n + 1):
                for s in stmts(k):
                    for rest in seqs(n - k):
                        out.append(s + rest)
            seq[n] = out
        return seq[n]

    out = []
    for n in range(2, max_tokens + 1):
        out.extend(seqs(n))
    return out


def _short_streams(max_tokens):
    """Family B - every stream over {word, `{`, `}`, `;`} with at most max_tokens items that ends in a statement
    terminator (not necessarily a sentence: the post-processor is handed a flat item stream)."""
    import itertools

    out = []
    for n in range(1, max_tokens + 1):
        for head in itertools.product(("w", "{", "}", ";"), repeat=n - 1):
            for last in (";", "}"):
                out.append(tuple(head) + (last,))
    return out


_DEEP = [
    # http-get "v" { set uri "a"; client { header "a" "b"; metadata { base64; prepend "x"; header "Cookie"; } } server { output { print; } } } set sleeptime "1";
    "w w { w w w ; w { w w w ; w { w ; w w ; w w ; } } w { w { w ; } } } w w w ;",
    # stage { set x "y"; transform-x86 { strrep "a" "b"; } beacon_gate { All; } } post-ex { } process-inject { execute { CreateThread "x"; } }
    "w { w w w ; w { w w w ; } w { w ; } } w { } w { w { w w ; } }",
    "w { w { w { w { w ; } } } } w ;",
]


def _mk_stream(shape):
    return [_Tok(i, None if s == "w" else s) for i, s in enumerate(shape)]


def _show(shape):
    return " ".join(f"w{i}" if s == "w" else s for i, s in enumerate(shape))


def _audit(toks, out, spaces_between_items):
    """-> (taint problem | None, missing item indices).

    The emitted text is lexed as far as that is possible without knowing the words: a token piece is itself, constant
    text is whitespace and single-character delimiters (any other constant character is foreign text).  The output
    preserves the stream iff this lexeme sequence equals the item sequence: a word position must hold that very item, a
    delimiter position a delimiter with the same text (a constant `;` and the item `;` are the same text), and two words
    must be separated by whitespace or an item boundary (lark inserts a space there)."""
    lex = []  # (token | delimiter text, separated from the previous lexeme)
    sep = True
    prev_nonempty = False
    for v in out:
        # lark puts a space between two consecutive non-empty items that would otherwise fuse into one word
        nonempty = not (isinstance(v, str) and v == "")
        if spaces_between_items and prev_nonempty and nonempty:
            sep = True
        prev_nonempty = nonempty
        if isinstance(v, _Alt):
            return f"yields {v!r}: token text that went through an operation that can change it, not the stream item itself", []
        if not isinstance(v, _STRINGISH):
            return f"yields a {type(v).__name__} ({v!r}), not a stream item or whitespace", []
        for p in _parts(v):
            if isinstance(p, _Tok):
                lex.append((p, sep))
                sep = False
                continue
            for ch in p:
                if ch.isspace():
                    sep = True
                elif ch in _DELIMS:
                    lex.append((ch, sep))
                    sep = False
                else:
                    return f"yields the text {p!r}, which is neither a stream item nor whitespace", []

    def same(l, t):
        if isinstance(l, _Tok) and l.idx == t.idx:
            return True
        lt = l.text if isinstance(l, _Tok) else l
        return lt is not None and t.text is not None and lt == t.text

    j = 0
    missing = []
    prev_word = False
    for l, separated in lex:
        k = next((k for k in range(j, len(toks)) if same(l, toks[k])), None)
        if k is None:
            if isinstance(l, _Tok) and l.text is None:
                return f"emits item {l!r} (position {l.idx}) again / out of stream order", []
            return f"emits a `{l if isinstance(l, str) else l.text}` that is not at this place in the stream (extra, repeated or reordered delimiter)", []
        missing.extend(range(j, k))
        j = k + 1
        is_word = isinstance(l, _Tok) and l.text is None
        if is_word and prev_word and not separated:
            return f"emits item {l!r} glued to the previous word without whitespace between them", []
        prev_word = is_word
    missing.extend(range(j, len(toks)))
    return None, missing


_MAX_ALTERNATIVES = 40  # per stream
_ALTERNATIVES_BUDGET = 1500  # over all streams (the smallest streams come first)


def _run_postproc(ctx, pp: _Closure, shape, spaces, budget):
    """Symbolic runs of the post-processor on one stream shape -> (list of (taint, missing, aborted, forked), truncated).

    The first run answers every question about the text of a symbolic word with "no"; the alternatives (one more "yes"
    at a time, fewest first) are explored up to _MAX_ALTERNATIVES runs per stream and `budget[0]` runs overall."""
    results = []
    pending = [()]
    seen = {()}
    truncated = False
    while pending:
        if len(results) >= _MAX_ALTERNATIVES or (results and budget[0] <= 0):
            truncated = True
            break
        if results:
            budget[0] -= 1
        pending.sort(key=lambda o: (sum(o), len(o)))
        oracle = pending.pop(0)
        sym = _Sym(ctx, oracle)
        toks = _mk_stream(shape)
        aborted = None
        out = []
        try:
            res = sym.invoke(pp, [_It(toks)], {})
            if res is None:
                raise _Abort("the post-processor returns None (lark iterates over its result)")
            for x in sym.iterate(res):
                out.append(x)
        except _Abort as ex:
            aborted = str(ex)
        except (_Unsupported, RecursionError):
            raise
        except Exception as ex:  # a gap in the executor's model of Python must never look like a verdict
            raise _Unsupported(f"executor error {type(ex).__name__}: {ex}")
        for i in range(len(oracle), len(sym.trace)):
            alt = tuple(sym.trace[:i]) + (True,)
            if not sym.trace[i] and alt not in seen:
                seen.add(alt)
                pending.append(alt)
        if aborted is not None:
            results.append((None, [], aborted, bool(sym.trace)))
        else:
            taint, missing = _audit(toks, out, spaces)
            results.append((taint, missing, None, bool(sym.trace)))
    return results, truncated


# ---------------------------------------------------------------------------------------------- locating by role
def _external_name(ctx, f: Func, call: ast.Call):
    """Dotted external name a call's callee resolves to (through the module's imports), else None."""
    d = dotted(call.func)
    if not d:
        return None
    s = ctx.rs.lookup_dotted(f.module.name, d)
    if s is not None and s.kind == "external":
        return s.name
    return None


def _inl(f: Func, e):
    return strip_cast(inline(f.node, e))


def _module_value(f: Func, e):
    """A name bound once at module level -> its value expression (else e)."""
    for _ in range(4):
        if isinstance(e, ast.Name) and e.id in f.module.consts and not assignments_to(f.node, e.id) and e.id not in params(f.node):
            e = f.module.consts[e.id]
        else:
            break
    return e


def _is_reconstructor(ctx, f: Func, e) -> bool:
    e = _module_value(f, _inl(f, e))
    if isinstance(e, ast.Call):
        n = _external_name(ctx, f, e)
        return bool(n) and n.split(".")[-1] == "Reconstructor" and n.startswith("lark")
    return False


def _reconstruct_calls(ctx, f: Func):
    """(call, reconstructor-constructor call) for every `.reconstruct(...)` on a lark Reconstructor in f."""
    out = []
    for c in _own_nodes(f.node):
        if isinstance(c, ast.Call) and isinstance(c.func, ast.Attribute) and c.func.attr == "reconstruct" and _is_reconstructor(ctx, f, c.func.value):
            out.append((c, _module_value(f, _inl(f, c.func.value))))
    return out


def _lark_arg(call: ast.Call, idx: int, name: str):
    """Argument of lark's Reconstructor API by position or keyword (signatures are part of the trusted base)."""
    if len(call.args) > idx and not any(isinstance(a, ast.Starred) for a in call.args[: idx + 1]):
        return call.args[idx]
    return kwarg(call, name)


def _parser_identity(ctx, f: Func, e):
    """A stable identity for `the parser object` an expression denotes: the module-level name bound to a Lark instance."""
    e = _inl(f, e)
    if isinstance(e, ast.Name) and e.id in f.module.consts and not assignments_to(f.node, e.id) and e.id not in params(f.node):
        v = f.module.consts[e.id]
        seen = {e.id}
        while isinstance(v, ast.Name) and v.id in f.module.consts and v.id not in seen:
            seen.add(v.id)
            e, v = v, f.module.consts[v.id]
        if isinstance(v, ast.Call):
            n = _external_name(ctx, f, v) or ""
            if n.startswith("lark") and ".Lark" in "." + n:
                return e.id
    return None


def _callable_of(ctx, f: Func, e):
    """The package callable an expression of function f denotes -> _Closure, "none" (the constant None), or None."""
    e = _inl(f, e)
    if isinstance(e, ast.Constant) and e.value is None:
        return "none"
    sym = _Sym(ctx)
    try:
        v = sym.eval(e, _static_scope(f))
    except (_Unsupported, _Abort, RecursionError):
        return None
    return v if isinstance(v, _Closure) else None


def _static_scope(f: Func):
    """A scope in which the names of function f resolve statically (nested defs, single assignments, self)."""
    # evaluate as if inside a nested function of f: free-variable rules of `_Sym.lookup` then apply to f itself
    return _Scope(Func(f.module, f.qualname + ".<expr>", f.node, f.cls, f))


def _tree_stores(fn: Func):
    """Assignments `<x>.tree = value` of a function (the place where a parse tree is attached to a profile)."""
    out = []
    for s in _own_nodes(fn.node):
        tgts = s.targets if isinstance(s, ast.Assign) else [s.target] if isinstance(s, ast.AnnAssign) and s.value is not None else []
        for t in tgts:
            if isinstance(t, ast.Attribute) and t.attr == "tree":
                out.append((s, t))
    return out


def _stores_parsed_tree(fn: Func) -> bool:
    return any(isinstance(n, ast.Call) and isinstance(n.func, ast.Attribute) and n.func.attr == "parse" for s, _t in _tree_stores(fn) for n in ast.walk(_inl(fn, s.value)))


def _by_role(ctx, name: str, has_role, keeps_role=None):
    """The function `c2profile.<name>` if it (still) plays the role, else the functions of the module that do."""
    mod = ctx.repo.module(MOD)
    f = mod.funcs.get(name)
    if f is not None and (keeps_role or has_role)(f):
        return [f]
    return [g for _q, g in sorted(mod.funcs.items()) if g is not f and has_role(g)]


def r3(ctx):
    mod = ctx.repo.module(MOD)
    renderers = _by_role(ctx, "C2Profile.as_text", lambda g: bool(_reconstruct_calls(ctx, g)))
    readers = _by_role(ctx, "C2Profile.from_text", _stores_parsed_tree, lambda g: bool(_tree_stores(g)))
    recon_parsers = set()
    # ------------------------------------------------------------------ the post-processor of the token stream
    if not renderers:
        where = mod.funcs.get("C2Profile.as_text") or mod.relpath
        why = "no function of c2profile.py calls `.reconstruct(...)` on a lark Reconstructor: the text is produced by a different mechanism"
        ctx.undecided("R3", "TAINT", where, "postproc yields", why)
        ctx.undecided("R3", "TAINT", where, "flush on terminators", why)
        ctx.undecided("R3", "AGREE", where, "return Reconstructor(parser).reconstruct(self.tree, postproc)", why)
    for f in renderers:
        calls = _reconstruct_calls(ctx, f)
        for call, _mk in calls:
            _postproc_obligations(ctx, f, call)
        # -------------------------------------------------------------- it returns that reconstruction of its own tree
        rets = [s for s in _own_nodes(f.node) if isinstance(s, ast.Return)]
        problems, wrapped = [], []
        for r in rets:
            v = _inl(f, r.value) if r.value is not None else None
            if not (isinstance(v, ast.Call) and any(src(v) == src(_inl(f, c)) for c, _mk in calls)):
                problems.append(f"returns {src(r.value) if r.value is not None else None}, not the reconstruction itself")
        if not rets:
            problems.append(f"{f.qualname} has no return statement")
        pid_from = None
        for c, mk in calls:
            parser = _lark_arg(mk, 0, "parser")
            pid = _parser_identity(ctx, f, parser) if parser is not None else None
            if parser is None or pid is None:
                problems.append(f"Reconstructor is built from {src(parser) if parser is not None else None}, not from the module's Lark parser")
            else:
                pid_from = pid
                recon_parsers.add(pid)
            tree = _lark_arg(c, 0, "tree")
            self_name = params(f.node)[0] if params(f.node) else "self"
            tv = _inl(f, tree) if tree is not None else None
            if tv is None or not any(dotted(n) == f"{self_name}.tree" for n in ast.walk(tv)):
                problems.append(f"reconstructs {src(tree) if tree is not None else None}, not the profile's own tree")
            elif dotted(tv) != f"{self_name}.tree":
                wrapped.append(src(tree))
        if wrapped and not problems:
            ctx.undecided("R3", "AGREE", f, "return Reconstructor(parser).reconstruct(self.tree, postproc)", f"the tree handed to reconstruct is derived from the profile's tree (`{wrapped[0]}`); whether it is the same tree is not decided")
        else:
            ctx.ob("R3", "AGREE", f, "return Reconstructor(parser).reconstruct(self.tree, postproc)", not problems,
                   f"{f.qualname} returns the reconstruction of the profile's own tree by a Reconstructor of the module parser `{pid_from}`" if not problems else "; ".join(problems))
    # ------------------------------------------------------------------ from_text stores the parser's tree of the source unmodified
    if not readers:
        where = mod.funcs.get("C2Profile.from_text") or mod.relpath
        ctx.undecided("R3", "AGREE", where, "profile.tree = parser.parse(source)", "no function of c2profile.py assigns a `.parse(...)` result to a `.tree` attribute: the tree is attached by a different mechanism")
    for ft in readers:
        problems = []
        for s, _t in _tree_stores(ft):
            v = _inl(ft, s.value)
            if isinstance(v, ast.Call) and isinstance(v.func, ast.Attribute) and v.func.attr == "parse":
                pid = _parser_identity(ctx, ft, v.func.value)
                a = _lark_arg(v, 0, "text")
                a = _inl(ft, a) if a is not None else None
                src_ok = isinstance(a, ast.Name) and a.id in params(ft.node) and a.id not in ("self", "cls") and not assignments_to(ft.node, a.id)
                if pid is None:
                    problems.append(f"parses with {src(v.func.value)}, not the module's Lark parser")
                elif recon_parsers and pid not in recon_parsers:
                    problems.append(f"parses with `{pid}` but the text is reconstructed with `{sorted(recon_parsers)[0]}`")
                elif not src_ok:
                    problems.append(f"parses {src(a) if a is not None else None}, not the source text it was given")
                elif len(v.args) + len(v.keywords) > 1:
                    problems.append(f"passes extra arguments to parse(): {src(v)}")
            else:
                problems.append(f"stores {src(s.value)}")
        ctx.ob("R3", "AGREE", ft, "profile.tree = parser.parse(source)", not problems, f"{ft.qualname} stores the parser's tree of its source argument unmodified" if not problems else f"{ft.qualname}: " + "; ".join(problems))


def _postproc_obligations(ctx, f: Func, call: ast.Call):
    pp_arg = _lark_arg(call, 1, "postproc")
    spaces = True
    sp = _lark_arg(call, 2, "insert_spaces")
    if sp is not None:
        spv = _inl(f, sp)
        if isinstance(spv, ast.Constant) and spv.value in (False, 0, None):
            spaces = False
    if pp_arg is None or _callable_of(ctx, f, pp_arg) == "none":
        msg = "no post-processor is handed to Reconstructor.reconstruct: lark joins the item stream as it is"
        ctx.ob("R3", "TAINT", f, "postproc yields", True, msg, call, nontrivial=False)
        ctx.ob("R3", "TAINT", f, "flush on terminators", True, msg, call, nontrivial=False)
        return
    pp = _callable_of(ctx, f, pp_arg)
    if pp is None:
        why = f"the post-processor handed to Reconstructor.reconstruct (`{src(pp_arg)}`) cannot be resolved to a function of the package"
        ctx.undecided("R3", "TAINT", f, "postproc yields", why, call)
        ctx.undecided("R3", "TAINT", f, "flush on terminators", why, call)
        return
    where = pp.func if isinstance(pp.func, Func) and pp.func.node is pp.node else f
    families = [("sentence", [tuple(s) for s in _sentences(10)] + [tuple(d.split()) for d in _DEEP]), ("item stream", _short_streams(4))]
    taint_bad = flush_bad = None
    n_runs = n_abort = n_trunc = 0
    budget = [_ALTERNATIVES_BUDGET]
    try:
        for fam, shapes in families:
            for shape in shapes:
                results, truncated = _run_postproc(ctx, pp, shape, spaces, budget)
                n_trunc += 1 if truncated else 0
                for taint, missing, aborted, forked in results:
                    n_runs += 1
                    if aborted is not None:
                        n_abort += 1
                        if fam == "sentence" and forked:
                            # the run assumed answers about the text of words; they may be contradictory
                            raise _Unsupported(f"the post-processor may raise on the sentence `{_show(shape)}`: {aborted}")
                        if fam == "sentence" and taint_bad is None:
                            taint_bad = f"on the sentence `{_show(shape)}` the post-processor raises ({aborted}) instead of yielding the items"
                        continue
                    if taint and taint_bad is None:
                        taint_bad = f"on the {fam} `{_show(shape)}` the post-processor {taint}"
                    if not taint and missing and flush_bad is None:
                        names = ", ".join(f"`{_mk_stream(shape)[i]!r}` (position {i})" for i in missing)
                        flush_bad = f"on the {fam} `{_show(shape)}` the post-processor never emits {names}: the item is dropped or still buffered when the stream ends"
            if taint_bad and flush_bad:
                break
    except (_Unsupported, RecursionError) as ex:
        why = f"symbolic execution of the post-processor `{getattr(pp.func, 'qualname', '?')}` stopped: {ex}"
        # what was established before stopping is a located, real defect: report it; the rest is not claimed
        if taint_bad:
            ctx.ob("R3", "TAINT", where, "postproc yields", False, taint_bad, pp.node)
        else:
            ctx.undecided("R3", "TAINT", where, "postproc yields", why, pp.node)
        if flush_bad:
            ctx.ob("R3", "TAINT", where, "flush on terminators", False, flush_bad, pp.node)
        else:
            ctx.undecided("R3", "TAINT", where, "flush on terminators", why, pp.node)
        return
    scope_txt = f"{n_runs} symbolic runs: every statement/block skeleton of the language up to 10 items, {len(_DEEP)} deeper nestings, every item stream up to 4 items ending in `;` or `}}`" + (f" ({n_abort} non-sentence streams on which the post-processor raises were skipped)" if n_abort else "") + (
        f" (the post-processor branches on the text of words: the combinations of answers were explored up to {_MAX_ALTERNATIVES} per stream and {_ALTERNATIVES_BUDGET} overall, smallest streams first; {n_trunc} streams have more)" if n_trunc else "")
    ctx.ob("R3", "TAINT", where, "postproc yields", taint_bad is None,
           taint_bad or f"whitespace aside, the post-processor yields exactly the stream items themselves, each once, in stream order, never glued together ({scope_txt})", pp.node)
    ctx.ob("R3", "TAINT", where, "flush on terminators", flush_bad is None,
           flush_bad or ("on the runs whose output could be audited: " if taint_bad else "") + f"when the stream ends with a statement terminator (`;` or `}}`) every item has been emitted: nothing is dropped or left in a buffer ({scope_txt})", pp.node)


def r5(ctx, g: Grammar):
    """Every `keyword { X* }` block form accepts the empty body (quantifier: "repeated and empty blocks")."""
    blocks = {}
    for r in g.rules:
        if r.origin.startswith("__") or not g.is_block(r):
            continue
        key = (r.origin, r.tree_name)
        body = [s for s in r.expansion if not s.is_term and s.name != "variant"]
        blocks.setdefault(key, []).append(len(body) == 0)
    n = 0
    for (origin_, name), empties in sorted(blocks.items()):
        n += 1
        ok = any(empties)
        ctx.rep.ob("R5", "GRAM", f"c2profile.lark::{origin_}::{name} {{}}", ok, f"block `{name}` of rule {origin_} has an alternative with an empty body={ok}" + ("" if ok else ": an empty block is rejected by the parser"),
                   "dissect/cobaltstrike/c2profile.lark", 0)
    ctx.rep.count("block_forms", n, floor=25)
