"""C12 - Profile string literals encode and decode bytes losslessly and safely (structural core).

The encoder (`value_to_string`) and the decoder (`string_token_to_bytes`) are analysed by path-wise value flow over their
(normalised) ASTs instead of by matching statement shapes.  No input data is ever chosen by the checker: parameters,
characters and digits are symbolic terms; the only concrete values are constants written in the analysed code (or in the
reference tables), which are folded.

* encoder: the paths of the function are walked once under the named assumption "the argument is bytes" and once under
  "the argument is str" (this prunes the isinstance tests; every other branch is followed both ways).  The returned
  value of a path is a term over the parameter (repr / codec step / slice / replace / concatenation ...).  The rules look
  at that term, so it does not matter which variables carry the intermediate values, whether calls are chained, whether
  the branches are nested ifs or early returns, or whether a step lives in an (inlined) helper.  The escaper at the core of
  the term is described abstractly (`_Escaper`: which characters it emits as plain tokens, which as backslash pairs); two
  are known - repr() pinned to the single-quote style and the unicode_escape codec over a latin-1 decoding - and every
  replacement applied on top is judged against that token structure (does a match always coincide with a token the
  escaper emitted, or can it start in the middle of an escaped backslash?).  A test the encoder makes on the characters of its argument
  with a per-character predicate of CPython (`value.isascii()`, `.isprintable()`, `.isalnum()` ...) or `<constant> in value` is a data
  fork whose outcome is kept as a fact of the path; a path on which the value skips the escaper (a "fast path" for plain text) is judged by
  these facts in the abstract domain "ASCII byte values every byte of the value may take": they must exclude the backslash byte.
  A test of the SHAPE of the text - its length, its first / last character (`len(v) >= 2`, `v[0] == '"'`, `v[-1]`, `v[:1]`, `v.startswith(c)`,
  `v[0] == v[-1]`) on the str argument or on the escaped text of the bytes argument - is a data fork as well; a path it selects that returns the
  text WITHOUT the delimiters (in-band sniffing: "looks quoted already") is violated when a witness composed of the constants these tests
  name satisfies all facts of the path (for escaped text: only characters the escaper emits as plain tokens), otherwise undecided.
* decoder: the body of the decoding loop is walked ONCE, with the characters the iterator delivers symbolic.  The only
  thing learnt about a character is the outcome of the comparisons the decoder itself makes with its own literals
  (`c == "x"`, `c in "nrt"`, `c in TABLE`, `TABLE.get(c)`, `TABLE[c]`, `match c: case "n"`, `ord(c) == 0x6E`): such a
  comparison forks the path into "is that literal" (constant propagation into the case) and "is not" (exclusion set).
  So the cases are exactly the decoder's own vocabulary plus one "any other character" case in which the character stays
  symbolic and its code is the term `ord(c)`.  The iterator is abstract: `has_next(n)` forks the path, `next(..)` advances
  a constant offset relative to the start of the iteration and yields symbolic hex digits tagged with that offset.  Each
  path gives a trace of events (availability checks, reads, appended terms, raise) - the rules are phrased on these
  traces, so an elif chain, a lookup table, `match`, a helper returning the byte, `for c in it` or
  `while it.has_next(): c = next(it)` are all the same thing.  Nested loops are not unrolled (undecided).
  A decoder that reads the iterator's cursor directly (`it.index < len(text) - 1` instead of `it.has_next()`) is the same thing too:
  the iterator's own has_next(n) is read off its syntax tree as `<cursor> + n <= len(<buffer>)`, the cursor at a point of the iteration
  is the term CUR0 + <characters consumed so far>, len(<buffer>) / len(<the text the iterator was constructed from>) is the symbol LEN,
  and a comparison of two such linear terms is normalised to "CUR0 + A <= LEN" - an availability check for a definite number A of
  characters (lemma L14), recorded as the same event a has_next() call gives.  `==` / `!=` on the cursor are not modelled (undecided).
  The hex digits of an escape that are looked up in a constant table of the module (`TABLE[pair]`, `TABLE.get(pair)`,
  A `next(n)` made WITHOUT an availability check before it (act-then-validate) is a "tentative" read: StringIterator.next is read off
  its syntax tree as the slice `<buffer>[<cursor> : <cursor> + n]` taken before the cursor moves, so what it delivers is simply shorter
  when fewer characters are left (lemma L15) and a test of its length (`len(digits) < n`, `!= n`, `== n`, `if not digits`, also on the
  joined text) is the availability check made after the fact - recorded as the same `check` event at the offset of the read.  The read
  counts as covered when that test is the next thing the path does with the iterator / the output and covers everything that was read.
  `pair in TABLE`, `DIGITS.index(digit)`) are judged by folding the table (a comprehension over constants is a constant)
  and comparing it completely with the reference table of hex spellings: both cases of a-f, unless the code normalised
  the case of the digits first.  Missing spellings fork the path into found / not found; a complete, correct table IS the
  term int(<digits>, 16).  `try` statements are followed for the raises the walker models itself (explicit `raise`, KeyError
  / IndexError of a lookup in a constant table).
* around the decoder (R5): string_token_to_bytes is walked from its entry to the decoding loop under the named assumption "the
  argument is a STRING token"; the text of the literal is a symbolic term and slices / whole-text replacements / conversions
  build terms over it as in the encoder analysis; `<constant> in <text>` tests fork the path and are kept as facts.  What is
  handed to the iterator and what is returned without reaching the loop is judged against the token structure of a literal
  (lemma L8) - never by decoding sample literals.  The truth value of (a slice of) the text / `== ""` is a data fork too (the literal `""` is a
  STRING token).  A value returned before the loop must be a bytes object: a str-typed term over the text (or a str constant) returned on
  a path whose facts admit a literal (witnesses: the empty content, the escape pairs of tables.ESCAPES, the constants of the facts) is violated.
* STRING terminal: the regular expression is parsed (`re._parser`) and its syntax tree inspected; "the body matches every
  character" is decided on the tree by an interval cover of the code point range / a complementary category pair, never
  by matching sample strings.

Nothing of /repo is imported or executed: the walker only folds constants with Python builtins (ord, chr, int, dict
lookups, str methods on literals of the analysed code) and treats everything else as unknown.  A construct it does not
model makes the rule *undecided*, never violated.

Technique
---------
(numbers = the ALLOWED devices of RULES_GUIDE.md, "What counts as static here")

R1 (encoder)  1 (AST, inlined helpers), 2 (paths pruned by the named assumption isinstance(value, bytes|str); other tests
              followed both ways), 3 (per-path symbolic term of the returned literal over the parameter, compared
              structurally: `"` + X + `"`, X = replace layers over slice layers over repr(<const> + value + <const>), or
              replace layers over value.decode(latin-1).encode(unicode_escape).decode(<ascii compatible>)),
              6 (folding of the code's own constants: slice bounds, replace arguments, codec names, the escaped length of the
              pin constant, `re.sub` patterns via their parsed syntax tree),
              4 (finite abstract domain for the escaper's output: per character "plain token / backslash pair / hex escape";
              a replacement backslash + X is checked against it: X plain => a match can start at the second half of an
              escaped backslash => violated unless the replacement itself starts with a backslash (undecided));
              2 + 4 (a path on which the value reaches the literal without an escaper - as it is, or through an identity decoding
              ascii / latin-1 / utf-8: the facts of the path - outcomes of the encoder's own per-character predicates and `<constant> in
              value` tests, data forks - are evaluated over the interval-set domain "ASCII byte values a byte of the value may take"
              plus a witness composed of the constants the facts name: the backslash byte admitted => violated, excluded =>
              discharged, otherwise undecided; likewise the double quote for a path without the quote replacement).
              Lemmas: L1 repr(bytes) escapes byte-wise and picks the double-quote delimiter only for a value that
              contains ' and no " - a concatenated b'"' pins the single-quote style, and the text of the value starts
              2 + len(escaped prefix constant) characters in and ends 1 + len(escaped suffix constant) before the end;
              L2 the escaped text is printable ASCII in which a backslash only starts an escape pair, so replace
              ('"' -> backslash + '"') and (backslash + "'" -> "'") touch disjoint matches and commute, and a replacement
              whose pattern contains a character outside 0x20..0x7e can never match;
              L1b the unicode_escape codec applied to latin-1 decoded bytes emits the same tokens as L1 except that the
              single quote stays a plain token; its output is ASCII, so the final ascii / latin-1 / utf-8 decoding is the
              identity; decoding the value as ascii / utf-8 instead of latin-1 raises for bytes >= 0x80;
              L2b a backslash is always the first character of a token and the backslash byte is two backslashes: if X is
              a plain token, the bytes (0x5c, X) give backslash backslash X and str.replace(backslash + X, R) matches at the
              second backslash - the first one then pairs with R[0]; if X is always escaped, every match is that pair;
              2 + 4 (shape tests - length / first / last character of the text - fork the path and are kept as facts; a path that returns
              the text without its delimiters under such facts is judged with a witness built from the constants the facts name, every
              fact evaluated on that constant; for the escaped text of bytes the abstract `_Escaper` says a plain token stands for the byte
              with the same code, so the witness is its own escaped text; no witness found => undecided).
              L13 (reference table) `s.<pred>()` for isascii / isprintable / isalnum / isalpha / isdigit / isdecimal / isnumeric holds iff
              every character of s satisfies the predicate (and s is not empty, except isascii / isprintable); the ASCII characters
              that do are 0x00-0x7f / 0x20-0x7e / 0-9A-Za-z / A-Za-z / 0-9; bytes.<pred> knows ASCII only.  The backslash 0x5c is
              printable ASCII and neither a letter nor a digit.
R2 (decoder)  1, 2 (has_next() / data-dependent tests fork the path; tests on unknown values are followed both ways and
              mark the path as guessed -> undecided, not violated), 3 (ONE symbolic iteration: event traces with appended
              terms ord(c), int(<digits at offsets>, base), constants), 4 (cursor offset / availability typestate: a read
              must be covered by an earlier successful availability check; interval + known-bits facts for masks),
              5 (case analysis over the decoder's own literals / table keys + "any other character"; reference table
              tables.ESCAPES), 6 (constant tables of the module folded).
              Lemmas: L3 ord/chr are inverse bijections (ord(c) == k <=> c == chr(k)); L4 a one-character string is in a
              str s iff it is one of the characters of s, and equals no string of another length; L5 for 0 <= x <= 255:
              x & K == x iff the low eight bits of K are set, x % K == x iff K > 255 (the range 0..255 is the iterator's
              `& 0xFF`, itself an R2 obligation); L7 under the named assumption that the characters of a \\xHH / \\uHHHH
              escape are hex digits, int(<n digits>, 16) ranges over 0..16**n - 1 and equals 256 * <leading digits> + <low
              pair>, so `& K` yields the low pair iff K & (16**n - 1) == 0xFF and `% K` iff K == 256 (n > 2) / K > 255 (n == 2).
              Hex digits through a table: 6 (the module's table / comprehension over constants folded, compared completely
              with the reference table of the spellings of one hex digit / a digit pair, 22 resp. 484 keys), 5 (case analysis
              found / not found over that reference vocabulary), 2 (try/except followed for modelled raises).  Lemmas: L9
              positional notation - int(A, 16) * 16**len(B) + int(B, 16) == int(A + B, 16), `<< 4*len(B)` is that product and `|`
              equals `+` there (disjoint bits); L10 int(s, 16) does not depend on the case of s, str.lower/upper/casefold map
              a hex digit to the hex digit of the same value; L11 index()/find() of a one-character string in a sequence is the
              position of its first occurrence (ValueError / -1 when absent).
              Bytes appended through a text codec (`chr(<code>).encode(C)`, `<character>.encode(C)`, `bytes(<character>, C)`): 3 (the term
              encchr(<code>, C) is ONE appended value), judged by lemma L12: chr(n).encode('latin-1') is the single byte n for 0 <= n <= 255
              (raises above); chr(n).encode('utf-8' / 'ascii') is the single byte n only for n < 0x80 (two to four bytes / an exception
              from 0x80 on).  The low pair of an escape and the code of a character both range over 0..255, so latin-1 over such a code
              is that byte and utf-8 / ascii are not (other codecs: undecided); ord(chr(n)) == n (L3).
              Quote stripping and the `& 0xFF` mask: 1, 3 (definitions inlined, slice/strip layers compared structurally).
              The cursor read directly: 1 (has_next() / the stores to the cursor / the constructor's buffer assignment matched on the
              syntax tree of the StringIterator class), 3 + 4 (linear terms a * CUR0 + b * LEN + k over two symbols; lemma L14: for
              integers CUR0 + k < LEN <=> CUR0 + (k + 1) <= LEN, x >= y <=> not x < y, and CUR0 + A <= LEN is has_next(A - <consumed>)
              by the iterator's own definition; a list comprehension over a sequence without a filter has the length of the sequence).
              Act-then-validate: 1 (StringIterator.next matched on its syntax tree: returns `<buffer>[<cursor> : <cursor> + n]`, evaluated
              before the only cursor store `+= n`), 3 + 4 (the length of a tentative read is the term rdlen(p, n); lemma L15: for a slice
              b[i:i+n], len == min(n, max(0, len(b) - i)), so for 1 <= k <= n: len >= k <=> i + k <= len(b) <=> has_next(k) before the read;
              `rdlen op <constant>` is normalised to that availability event at the offset of the read, k <= 0 / k > n fold to constants).
R3            5 (the escape letters CPython's repr(bytes) and the encoder can emit - a reference vocabulary - looked up
              in the case split of R2).
R6 (private   1 (the accumulator is located by role: the receiver of the append / extend / += events of the decoding loop; its definitions
 accumulator) are followed through local copies, parameter defaults and module-level bindings and classified on their syntax: created by the
              call / immutable constant / object that outlives the call / unknown), 2 (CFG: an emptying statement - X.clear(), del X[:],
              X[:] = [] - dominates the loop, or lies in a `finally` covering it; otherwise graph reachability from an appending statement
              to an explicit `raise` / `return` / the end of the function avoiding every emptying statement, on the engine's CFG with the
              exits of `try` statements made precise and its implicit-exception edges removed).  A shared accumulator that an explicit
              exit leaves non-empty is violated; one that only an implicit exception could leave non-empty is undecided.
R5 (around    1, 2 (paths pruned by the named assumption "the argument is a STRING token"; `<constant> in <text>` tests fork and
 the loop)    are kept as path facts; other tests are followed both ways and mark the path guessed -> undecided), 3 (per-path terms
              over the symbolic text of the literal for the iterator's argument and for values returned before the loop), 6 (a
              `for` over a constant table of the module is its body once per entry; constants folded), 4 (token structure of
              a literal's content as a finite abstract domain: plain character / backslash pair / hex escape).
              Lemma L8 (str.replace scans left to right, non-overlapping; a backslash always starts a token, the backslash byte
              is the pair backslash backslash, an unescaped double quote cannot occur inside a literal): (a) the pattern
              backslash backslash matches exactly the escaped-backslash tokens; (b) a pattern backslash + X (X a plain token,
              not the double quote) applied while escaped backslashes are still pairs matches inside backslash backslash X at the
              second backslash; (c) applied after backslash backslash -> backslash it re-scans the produced backslash, and so
              does the decoding loop after such a pass - no order of whole-text passes decodes both; (d) backslash + double
              quote only matches its own token.  A path fact `S (not) in T` admits the content W iff S is (not) a substring of
              W (two constants).  A return that bypasses the loop without any rewriting is wrong unless the facts exclude every
              backslash pair of the reference table tables.ESCAPES.
              Type of an early return: 3 (the term's Python type: str for the text / its slices / replacements, bytes after an encode), 2 (emptiness
              of the text as a path fact), witnesses as above - "a value returned for a STRING token before the loop is bytes".
R4 (STRING)   1, 6 (compiled grammar terminals; regex *syntax tree*), 4 (interval cover of 0..0x10FFFF for the body's
              character class).  Lemma: L6 a category and its negation (\\s|\\S, \\d|\\D, \\w|\\W) partition the characters;
              `.` is every character except code 10 unless DOTALL.  Unmodelled classes -> undecided.
"""

from __future__ import annotations

import ast
import operator

from csverif import tables
from csverif.astutil import assignments_to, bind_args, body_walk, dotted, param_defaults, params, src, statements
from csverif.cfg import EXIT, RAISE
from csverif.grammar import Grammar
from csverif.q import FuncView, inline, raise_class


# ============================================================================================ path walker over symbolic terms
class _Unsupported(Exception):
    """The code uses a construct the interpreter does not model: the rule cannot locate its subject -> undecided."""


class _NotConstant(Exception):
    """A comprehension is not a constant of the analysed code (internal to `_Interp._comp`)."""


class _Flow(Exception):
    def __init__(self, kind, value=None):
        Exception.__init__(self, kind)
        self.kind = kind
        self.value = value


class _Sym:
    """A symbolic (not constant) value: tag + arguments (+ the Python type it is known to have, if any)."""

    __slots__ = ("tag", "args", "typ")

    def __init__(self, tag, args=(), typ=None):
        self.tag = tag
        self.args = tuple(args)
        self.typ = typ

    def __eq__(self, other):
        return isinstance(other, _Sym) and (self.tag, self.args, self.typ) == (other.tag, other.args, other.typ)

    def __ne__(self, other):
        return not self.__eq__(other)

    def __hash__(self):
        return hash((self.tag, self.typ))

    def __bool__(self):  # a symbolic value has no truth value: the interpreter must fork explicitly
        raise TypeError("truth value of a symbolic value")

    def __repr__(self):
        if self.tag == "unk":
            return f"<?{self.args[0] if self.args else ''}>"
        if self.tag == "digits":
            return f"<characters {', '.join(str(p - 2) for p in self.args[0])} after the escape letter>"
        if self.tag == "int":
            return f"int(<characters {', '.join(str(p - 2) for p in self.args[0])} after the escape letter>, {self.args[1]})"
        if self.tag == "mask":
            return f"{self.args[0]!r} {self.args[1]} 0x{self.args[2]:x}" if self.args[2] >= 0 else f"{self.args[0]!r} {self.args[1]} {self.args[2]}"
        if self.tag == "lookup":
            return f"<table entry for characters {', '.join(str(p - 2) for p in self.args[0])} after the escape letter: {self.args[1]}>"
        if self.tag == "chr":
            return f"chr({self.args[0]!r})"
        if self.tag == "encchr":
            code = self.args[0]
            who = repr(code.args[0]) if isinstance(code, _Sym) and code.tag == "ord" else f"chr({code!r})"
            return f"{who}.encode({self.args[1]!r})"
        if self.tag == "scaled":
            return f"int(<characters {', '.join(str(p - 2) for p in self.args[0])} after the escape letter>, 16) * 16**{self.args[1]}"
        return f"{self.tag}({', '.join(map(repr, self.args))})"


_NOHOOK = object()
_ITER = _Sym("iter")

_BINOPS = {
    ast.Add: operator.add, ast.Sub: operator.sub, ast.Mult: operator.mul, ast.FloorDiv: operator.floordiv, ast.Mod: operator.mod,
    ast.BitAnd: operator.and_, ast.BitOr: operator.or_, ast.BitXor: operator.xor, ast.LShift: operator.lshift, ast.RShift: operator.rshift,
}
_CMPOPS = {
    ast.Eq: operator.eq, ast.NotEq: operator.ne, ast.Lt: operator.lt, ast.LtE: operator.le, ast.Gt: operator.gt, ast.GtE: operator.ge,
    ast.Is: operator.is_, ast.IsNot: operator.is_not, ast.In: lambda a, b: a in b, ast.NotIn: lambda a, b: a not in b,
}
# methods of builtin *constants* the interpreter may evaluate (pure, no repository code involved)
_PURE_METHODS = {
    str: {"join", "lower", "upper", "strip", "lstrip", "rstrip", "startswith", "endswith", "replace", "encode", "format", "isdigit", "isalnum", "isalpha",
          "split", "removeprefix", "removesuffix", "zfill", "find", "index", "count", "casefold", "isprintable", "isascii", "partition", "rpartition"},
    bytes: {"decode", "hex", "startswith", "endswith", "replace", "join", "strip", "lstrip", "rstrip", "find", "index", "count", "split", "removeprefix", "removesuffix"},
    dict: {"get", "keys", "values", "items", "copy"},
    list: {"index", "count", "copy"},
    tuple: {"index", "count"},
    frozenset: {"union", "intersection", "copy"},
    set: {"union", "intersection", "copy"},
    int: {"to_bytes", "bit_length"},
}
_NOT_NONE_TAGS = {"digits", "int", "bytesof", "chr", "encchr", "buf", "iter", "repr", "slice", "rep", "condrep", "cat", "fmt", "char", "ord", "mask", "codec", "lookup", "scaled", "text", "toktype"}


def _concrete(v, depth=0) -> bool:
    if isinstance(v, _Sym):
        return False
    if depth > 6:
        return False
    if isinstance(v, (list, tuple, set, frozenset)):
        return all(_concrete(x, depth + 1) for x in v)
    if isinstance(v, dict):
        return all(_concrete(k, depth + 1) and _concrete(x, depth + 1) for k, x in v.items())
    return True


def _mentions(v, target, depth=0) -> bool:
    if v is target:
        return True
    if depth > 6:
        return False
    if isinstance(v, _Sym):
        return any(_mentions(a, target, depth + 1) for a in v.args)
    if isinstance(v, (list, tuple, set, frozenset)):
        return any(_mentions(x, target, depth + 1) for x in v)
    if isinstance(v, dict):
        return any(_mentions(x, target, depth + 1) for x in v.values())
    return False


class _PathChoice:
    """Selects ONE path of the analysed code: replays a prefix of branch outcomes, then takes the true edge; `taken` records every
    outcome of the walk.  It only chooses between the two edges of a branch whose test is symbolic (path enumeration, see
    `_all_paths`) - it never supplies data."""

    def __init__(self, pre):
        self.pre = list(pre)
        self.taken = []

    def decide(self) -> bool:
        i = len(self.taken)
        v = self.pre[i] if i < len(self.pre) else True
        self.taken.append(v)
        return v


def _all_paths(run, limit=64):
    """Enumerate the paths of `run(oracle)` (depth-first over the decisions the runs ask for)."""
    out, todo = [], [[]]
    while todo:
        pre = todo.pop()
        o = _PathChoice(pre)
        out.append(run(o))
        if len(out) > limit:
            raise _Unsupported("too many paths")
        for i in range(len(pre), len(o.taken)):
            todo.append(o.taken[:i] + [False])
    return out


def _module_const_stable(mod, name: str) -> bool:
    """`name` is bound exactly once at module level and never mutated / rebound anywhere in the module."""
    if name not in mod.consts:
        return False
    hit = getattr(mod, "_c12_stable", None)
    if hit is None:
        hit = {}
        try:
            mod._c12_stable = hit
        except Exception:
            pass
    if name in hit:
        return hit[name]
    binds = 0
    ok = True
    for n in ast.walk(mod.tree):
        if isinstance(n, ast.Name) and n.id == name and isinstance(n.ctx, (ast.Store, ast.Del)):
            binds += 1
        elif isinstance(n, (ast.Subscript, ast.Attribute)) and isinstance(n.ctx, (ast.Store, ast.Del)) and isinstance(n.value, ast.Name) and n.value.id == name:
            ok = False
        elif isinstance(n, ast.Call) and isinstance(n.func, ast.Attribute) and isinstance(n.func.value, ast.Name) and n.func.value.id == name \
                and n.func.attr in ("update", "pop", "popitem", "clear", "setdefault", "__setitem__", "__delitem__", "append", "extend", "insert", "remove", "add", "discard"):
            ok = False
        elif isinstance(n, ast.Global) and name in n.names:
            ok = False
    hit[name] = ok and binds == 1
    return hit[name]


class _Interp:
    """Walks ONE path of straight-line/branching code building symbolic terms (`_Sym`) for the values; constants of the analysed
    code are folded, tests on symbolic terms are resolved by the path selector (both edges are explored by `_all_paths`)."""

    def __init__(self, ctx, f, oracle):
        self.ctx = ctx
        self.f = f
        self.mod = f.module
        self.o = oracle
        self.env = {}
        self.events = []
        self.guess_at = None  # index into events of the first branch taken on an unknown condition
        self._busy = set()

    # ------------------------------------------------------------------------------------------------ values
    def unk(self, node=None):
        return _Sym("unk", (src(node)[:60] if node is not None else "",))

    def guess(self) -> bool:
        if self.guess_at is None:
            self.guess_at = len(self.events)
        return self.o.decide()

    def truth(self, v) -> bool:
        if isinstance(v, _Sym):
            t = self.sym_truth(v)
            return self.guess() if t is None else t
        try:
            return bool(v)
        except TypeError:  # a container holding symbolic values
            return len(v) > 0

    def sym_truth(self, v):
        return None

    def escapes(self, values):
        """An unmodelled operation received `values`: subclasses refuse when that loses track of a tracked object."""

    def lookup(self, name: str):
        if name in self.env:
            return self.env[name]
        return self.free_name(name)

    def free_name(self, name: str):
        return self.modconst(name)

    def modconst(self, name: str):
        if name in self._busy or not _module_const_stable(self.mod, name):
            return _Sym("unk", (name,))
        cache = self.mod.__dict__.setdefault("_c12_constvals", {})
        if name not in cache:
            self._busy.add(name)
            try:
                sub = _Interp(self.ctx, self.f, _PathChoice([]))
                sub._busy = self._busy
                try:
                    v = sub.ev(self.mod.consts[name])
                except (_Unsupported, _Flow):
                    v = _Sym("unk", (name,))
                if sub.o.taken or sub.events:
                    v = _Sym("unk", (name,))
                cache[name] = v
            finally:
                self._busy.discard(name)
        return cache[name]

    # ------------------------------------------------------------------------------------------------ expressions
    def ev(self, e):
        m = getattr(self, "ev_" + type(e).__name__, None)
        if m is None:
            self.scan(e)
            return self.unk(e)
        return m(e)

    def scan(self, e):
        """An expression that is not evaluated: make sure it cannot touch a tracked object behind our back."""
        vals = []
        for n in ast.walk(e):
            if isinstance(n, ast.Name) and isinstance(n.ctx, ast.Load) and n.id in self.env:
                vals.append(self.env[n.id])
        self.escapes(vals)

    def ev_Constant(self, e):
        return e.value

    def ev_Name(self, e):
        return self.lookup(e.id)

    def ev_NamedExpr(self, e):
        v = self.ev(e.value)
        self.bind(e.target, v)
        return v

    def _elts(self, elts):
        out = []
        for x in elts:
            if isinstance(x, ast.Starred):
                v = self.ev(x.value)
                if isinstance(v, (list, tuple)):
                    out.extend(v)
                else:
                    self.escapes([v])
                    return None
            else:
                out.append(self.ev(x))
        return out

    def ev_Tuple(self, e):
        v = self._elts(e.elts)
        return self.unk(e) if v is None else tuple(v)

    def ev_List(self, e):
        v = self._elts(e.elts)
        return self.unk(e) if v is None else list(v)

    def ev_Set(self, e):
        v = self._elts(e.elts)
        if v is None or not _concrete(v):
            return self.unk(e)
        try:
            return set(v)
        except TypeError:
            return self.unk(e)

    def ev_Dict(self, e):
        out = {}
        for k, v in zip(e.keys, e.values):
            val = self.ev(v)
            if k is None:
                if isinstance(val, dict):
                    out.update(val)
                    continue
                return self.unk(e)
            key = self.ev(k)
            if not _concrete(key):
                return self.unk(e)
            try:
                out[key] = val
            except TypeError:
                return self.unk(e)
        return out

    # comprehensions of the analysed code over its own constants are folded (constant folding of a constant table, e.g.
    # `{f"{v:02x}": v for v in range(256)}`); as soon as anything symbolic is involved nothing is folded
    def _comp(self, e, kind):
        saved = dict(self.env)
        n_ev, n_dec = len(self.events), len(self.o.taken)
        out = []
        budget = [1 << 17]

        def go(i):
            if i == len(e.generators):
                vals = [self.ev(e.key), self.ev(e.value)] if kind == "dict" else [self.ev(e.elt)]
                if not _concrete(vals):
                    raise _NotConstant()
                out.append(tuple(vals) if kind == "dict" else vals[0])
                return
            g = e.generators[i]
            seq = self.ev(g.iter)
            if g.is_async or isinstance(seq, _Sym) or not _concrete(seq) or not isinstance(seq, (list, tuple, str, bytes, range, dict, set, frozenset)):
                raise _NotConstant(seq)
            for x in (sorted(seq, key=repr) if isinstance(seq, (set, frozenset)) else seq):
                budget[0] -= 1
                if budget[0] < 0:
                    raise _NotConstant()
                self.bind(g.target, x)
                keep = True
                for c in g.ifs:
                    t = self.ev(c)
                    if isinstance(t, _Sym) or not _concrete(t):
                        raise _NotConstant()
                    if not t:
                        keep = False
                        break
                if keep:
                    go(i + 1)

        res = _NOHOOK
        try:
            go(0)
            if kind == "dict":
                res = dict(out)
            elif kind == "set":
                res = set(out)
            else:
                res = list(out)
        except _NotConstant as nc:
            if nc.args and isinstance(nc.args[0], _Sym):
                res = self.sym_comp(e, nc.args[0])
        except TypeError:
            pass
        finally:
            self.env = saved
        if len(self.events) != n_ev or len(self.o.taken) != n_dec:
            raise _Unsupported("a comprehension reads the iterator / depends on the data (a nested loop, not unrolled)")
        if res is _NOHOOK:
            self.scan(e)
            return self.unk(e)
        return res

    def sym_comp(self, e, seq):
        """A comprehension whose (first non-constant) iterable is the symbolic value `seq`."""
        return _NOHOOK

    def ev_ListComp(self, e):
        return self._comp(e, "list")

    def ev_GeneratorExp(self, e):
        return self._comp(e, "list")

    def ev_SetComp(self, e):
        return self._comp(e, "set")

    def ev_DictComp(self, e):
        return self._comp(e, "dict")

    def ev_UnaryOp(self, e):
        v = self.ev(e.operand)
        if isinstance(e.op, ast.Not):
            return not self.truth(v)
        if _concrete(v):
            try:
                if isinstance(e.op, ast.USub):
                    return -v
                if isinstance(e.op, ast.UAdd):
                    return +v
                if isinstance(e.op, ast.Invert):
                    return ~v
            except Exception:
                pass
        return self.unk(e)

    def ev_BoolOp(self, e):
        v = None
        for x in e.values:
            v = self.ev(x)
            t = self.truth(v)
            if isinstance(e.op, ast.And) and not t:
                return v if not isinstance(v, _Sym) else False
            if isinstance(e.op, ast.Or) and t:
                return v if not isinstance(v, _Sym) else True
        return v if not isinstance(v, _Sym) else isinstance(e.op, ast.And)

    def ev_IfExp(self, e):
        return self.ev(e.body) if self.truth(self.ev(e.test)) else self.ev(e.orelse)

    def ev_Compare(self, e):
        left = self.ev(e.left)
        res = True
        for op, c in zip(e.ops, e.comparators):
            right = self.ev(c)
            r = self.compare(op, left, right)
            if isinstance(r, _Sym):
                # the remaining comparators are still evaluated for their effects by Python only when this one holds;
                # an unknown outcome is resolved by the caller's truth() - comparison chains are rare enough to stop here
                return r
            if not r:
                return False
            res = r
            left = right
        return res

    def compare(self, op, a, b):
        if isinstance(op, (ast.Is, ast.IsNot)):
            for x, y in ((a, b), (b, a)):
                if y is None and isinstance(x, _Sym):
                    if x.tag in _NOT_NONE_TAGS or x.typ is not None:
                        return isinstance(op, ast.IsNot)
                    return _Sym("unk", ("is None",))
            if not isinstance(a, _Sym) and not isinstance(b, _Sym) and (a is None or b is None or isinstance(a, bool) or isinstance(b, bool)):
                return _CMPOPS[type(op)](a, b)
            return _Sym("unk", ("is",))
        if _concrete(a) and _concrete(b):
            try:
                return bool(_CMPOPS[type(op)](a, b))
            except Exception:
                return _Sym("unk", ("cmp",))
        if isinstance(op, (ast.In, ast.NotIn)) and _concrete(a) and isinstance(b, dict):
            try:
                return (a in b) == isinstance(op, ast.In)
            except TypeError:
                pass
        return self.sym_compare(op, a, b)

    def sym_compare(self, op, a, b):
        return _Sym("unk", ("cmp",))

    def ev_BinOp(self, e):
        a, b = self.ev(e.left), self.ev(e.right)
        if _concrete(a) and _concrete(b) and type(e.op) in _BINOPS:
            try:
                if isinstance(e.op, (ast.Mult, ast.LShift)) and isinstance(b, int) and abs(b) > 4096:
                    return self.unk(e)
                return _BINOPS[type(e.op)](a, b)
            except Exception:
                return self.unk(e)
        if isinstance(e.op, ast.Add) and isinstance(a, list) and isinstance(b, list):
            return a + b
        if isinstance(e.op, ast.Add) and isinstance(a, tuple) and isinstance(b, tuple):
            return a + b
        r = self.sym_binop(e, a, b)
        if r is _NOHOOK:
            self.escapes([a, b])
            return self.unk(e)
        return r

    def sym_binop(self, e, a, b):
        return _NOHOOK

    def ev_Attribute(self, e):
        v = self.ev(e.value)
        self.escapes([v])
        return self.unk(e)

    def ev_Subscript(self, e):
        base = self.ev(e.value)
        if isinstance(e.slice, ast.Slice):
            idx = tuple(self.ev(x) if x is not None else None for x in (e.slice.lower, e.slice.upper, e.slice.step))
            is_slice = True
        else:
            idx = self.ev(e.slice)
            is_slice = False
        if not isinstance(base, _Sym) and _concrete(idx):
            try:
                return base[slice(*idx)] if is_slice else base[idx]
            except KeyError:
                raise _Flow("raise", "KeyError")
            except IndexError:
                raise _Flow("raise", "IndexError")
            except Exception:
                return self.unk(e)
        r = self.sym_subscript(e, base, idx, is_slice)
        if r is _NOHOOK:
            self.escapes([base, idx])
            return self.unk(e)
        return r

    def sym_subscript(self, e, base, idx, is_slice):
        return _NOHOOK

    def ev_JoinedStr(self, e):
        parts = []
        for p in e.values:
            if isinstance(p, ast.Constant):
                parts.append(p.value)
                continue
            v = self.ev(p.value)
            spec = self.ev(p.format_spec) if p.format_spec is not None else None
            parts.append(self.formatted(p, v, p.conversion, spec))
        if all(isinstance(p, str) for p in parts):
            return "".join(parts)
        return self.sym_joined(e, parts)

    def formatted(self, node, v, conversion, spec):
        if _concrete(v) and (spec is None or isinstance(spec, str)):
            try:
                if conversion == 114:
                    v = repr(v)
                elif conversion == 115:
                    v = str(v)
                elif conversion == 97:
                    v = ascii(v)
                return format(v, spec or "")
            except Exception:
                pass
        return self.sym_formatted(node, v, conversion, spec)

    def sym_formatted(self, node, v, conversion, spec):
        self.escapes([v])
        return self.unk(node)

    def sym_joined(self, e, parts):
        return self.unk(e)

    def ev_Call(self, e):
        r = self.call_hook(e)
        if r is not _NOHOOK:
            return r
        if any(isinstance(a, ast.Starred) for a in e.args) or any(k.arg is None for k in e.keywords):
            self.scan(e)
            return self.unk(e)
        fn = e.func
        if isinstance(fn, ast.Attribute):
            recv = self.ev(fn.value)
            args = [self.ev(a) for a in e.args]
            kws = {k.arg: self.ev(k.value) for k in e.keywords}
            return self.method(e, recv, fn.attr, args, kws)
        if not isinstance(fn, ast.Name):
            self.scan(e)
            return self.unk(e)
        args = [self.ev(a) for a in e.args]
        kws = {k.arg: self.ev(k.value) for k in e.keywords}
        return self.function(e, fn.id, args, kws)

    def call_hook(self, e):
        return _NOHOOK

    def method(self, e, recv, attr, args, kws):
        if isinstance(recv, list) and attr in ("append", "extend", "insert", "clear", "pop") and not kws:
            try:
                return getattr(recv, attr)(*args)
            except Exception:
                return self.unk(e)
        if not isinstance(recv, _Sym) and _concrete(recv) and _concrete(args) and _concrete(kws):
            for t, names in _PURE_METHODS.items():
                if type(recv) is t and attr in names:
                    try:
                        return getattr(recv, attr)(*args, **kws)
                    except Exception:
                        return self.unk(e)
        if isinstance(recv, dict) and attr == "get" and args and _concrete(args[0]) and not kws:
            try:
                return recv.get(*args)
            except Exception:
                return self.unk(e)
        r = self.sym_method(e, recv, attr, args, kws)
        if r is _NOHOOK:
            self.escapes([recv] + list(args) + list(kws.values()))
            return self.unk(e)
        return r

    def sym_method(self, e, recv, attr, args, kws):
        return _NOHOOK

    def function(self, e, name, args, kws):
        if name in self.env or (name in self.mod.consts) or (name in self.mod.funcs):
            self.escapes(list(args) + list(kws.values()))
            return self.unk(e)
        if name == "isinstance" and len(args) == 2:
            r = self.isinstance_of(e, args[0], e.args[1])
            if r is not None:
                return r
            return self.unk(e)
        if name.endswith("MappingProxyType") and len(args) == 1 and not kws:
            return args[0]
        if _concrete(args) and _concrete(kws):
            try:
                if name in ("ord", "chr", "len", "str", "bytes", "list", "tuple", "set", "frozenset", "bool", "repr", "ascii", "hex", "min", "max", "abs", "sorted", "bytearray") and not kws:
                    import builtins

                    if name in ("bytes", "bytearray", "str") and args and isinstance(args[0], int):
                        return self.unk(e)
                    return getattr(builtins, name)(*args)
                if name == "int" and not kws:
                    return int(*args)
                if name == "dict":
                    return dict(*args, **kws)
                if name == "range" and not kws and all(isinstance(a, int) and not isinstance(a, bool) for a in args):
                    r = range(*args)
                    return r if len(r) <= 1 << 17 else self.unk(e)
                if name in ("enumerate", "zip", "reversed") and not kws and all(isinstance(a, (list, tuple, str, bytes, range, dict)) for a in args):
                    import builtins

                    return list(getattr(builtins, name)(*args))
                if name in ("format", "divmod", "sum", "any", "all") and not kws:
                    import builtins

                    return getattr(builtins, name)(*args)
            except Exception:
                return self.unk(e)
        if name == "dict" and not args:
            return dict(kws)
        if name in ("list", "tuple") and len(args) == 1 and isinstance(args[0], (list, tuple)):
            return list(args[0]) if name == "list" else tuple(args[0])
        r = self.sym_function(e, name, args, kws)
        if r is _NOHOOK:
            self.escapes(list(args) + list(kws.values()))
            return self.unk(e)
        return r

    def sym_function(self, e, name, args, kws):
        return _NOHOOK

    def isinstance_of(self, e, value, types_node):
        return None

    # ------------------------------------------------------------------------------------------------ statements
    def bind(self, target, v):
        if isinstance(target, ast.Name):
            self.env[target.id] = v
            return
        if isinstance(target, (ast.Tuple, ast.List)) and isinstance(v, (list, tuple)) and len(v) == len(target.elts) and not any(isinstance(t, ast.Starred) for t in target.elts):
            for t, x in zip(target.elts, v):
                self.bind(t, x)
            return
        if isinstance(target, (ast.Tuple, ast.List)):
            self.escapes([v])
            for n in ast.walk(target):
                if isinstance(n, ast.Name):
                    self.env[n.id] = self.unk(target)
            return
        self.store(target, v)

    def store(self, target, v):
        raise _Unsupported(f"assignment to `{src(target)}`")

    def block(self, stmts):
        for st in stmts:
            self.stmt(st)

    def stmt(self, st):
        m = getattr(self, "st_" + type(st).__name__, None)
        if m is None:
            raise _Unsupported(f"statement `{type(st).__name__}`")
        m(st)

    def st_Expr(self, st):
        self.ev(st.value)

    def st_Pass(self, st):
        pass

    def st_Import(self, st):
        pass

    st_ImportFrom = st_Global = st_Nonlocal = st_Import

    def st_Assert(self, st):
        self.scan(st.test)

    def st_Assign(self, st):
        v = self.ev(st.value)
        for t in st.targets:
            self.bind(t, v)

    def st_AnnAssign(self, st):
        if st.value is not None:
            self.bind(st.target, self.ev(st.value))

    def st_AugAssign(self, st):
        if not isinstance(st.target, ast.Name):
            raise _Unsupported(f"augmented assignment to `{src(st.target)}`")
        cur = self.lookup(st.target.id)
        rhs = self.ev(st.value)
        self.env[st.target.id] = self.augassign(st, cur, rhs)

    def augassign(self, st, cur, rhs):
        if _concrete(cur) and _concrete(rhs) and type(st.op) in _BINOPS:
            try:
                return _BINOPS[type(st.op)](cur, rhs)
            except Exception:
                return self.unk(st)
        if isinstance(st.op, ast.Add) and isinstance(cur, list) and isinstance(rhs, (list, tuple)):
            return cur + list(rhs)
        fake = ast.BinOp(left=st.target, op=st.op, right=st.value)
        r = self.sym_binop(fake, cur, rhs)
        if r is _NOHOOK:
            self.escapes([cur, rhs])
            return self.unk(st)
        return r

    def st_If(self, st):
        self.block(st.body if self.truth(self.ev(st.test)) else st.orelse)

    def st_Return(self, st):
        raise _Flow("return", self.ev(st.value) if st.value is not None else None)

    def st_Raise(self, st):
        if st.exc is not None:
            self.scan(st.exc)
        raise _Flow("raise", raise_class(st))

    def st_Try(self, st):
        """try/except/else/finally: a handler is entered for the raises the walker itself models - an explicit `raise` of the
        analysed code and the KeyError / IndexError of a lookup in one of its constant tables.  Exceptions of operations that
        are kept symbolic are not modelled (their handler paths are simply not walked: nothing is claimed about them)."""
        pending = None
        try:
            try:
                self.block(st.body)
            except _Flow as fl:
                if fl.kind != "raise":
                    raise
                h = self.handler_for(st, fl.value)
                if h is None:
                    raise
                if h.name:
                    self.env[h.name] = self.unk(h)
                self.block(h.body)
            else:
                self.block(st.orelse)
        except _Flow as fl:
            pending = fl
        if st.finalbody:
            self.block(st.finalbody)  # a return / raise of the finally block replaces the pending one
        if pending is not None:
            raise pending

    st_TryStar = st_Try

    def handler_for(self, st, exc):
        """The first handler of `st` that catches the exception class named `exc` (None: it propagates)."""
        import builtins

        def cls(name):
            parts = (name or "").split(".")
            if not (len(parts) == 1 or (len(parts) == 2 and parts[0] == "builtins")):
                return None
            c = getattr(builtins, parts[-1], None)
            return c if isinstance(c, type) and issubclass(c, BaseException) else None

        for h in st.handlers:
            if h.type is None:
                return h
            nodes = h.type.elts if isinstance(h.type, ast.Tuple) else [h.type]
            for n in nodes:
                name = dotted(n)
                if name is None or exc is None:
                    raise _Unsupported("exception matching of a try statement is not understood")
                if name == exc:
                    return h
                a, b = cls(exc), cls(name)
                if a is None or b is None or name.split(".")[-1] in self.mod.consts or name.split(".")[-1] in self.env:
                    raise _Unsupported(f"exception matching `{exc}` against `except {name}` is not understood")
                if issubclass(a, b):
                    return h
        return None

    def st_Continue(self, st):
        raise _Flow("continue")

    def st_Break(self, st):
        raise _Flow("break")

    def st_For(self, st):
        # a nested loop is not unrolled (not even over a constant sequence): the rule is undecided on such code
        raise _Unsupported(f"loop over `{src(st.iter)}`")

    def st_Match(self, st):
        subj = self.ev(st.subject)
        for case in st.cases:
            if self.match(case.pattern, subj) and (case.guard is None or self.truth(self.ev(case.guard))):
                self.block(case.body)
                return

    def match(self, pat, subj) -> bool:
        if isinstance(pat, ast.MatchValue):
            v = self.ev(pat.value)
            r = self.compare(ast.Eq(), subj, v)
            return self.truth(r)
        if isinstance(pat, ast.MatchSingleton):
            return self.truth(self.compare(ast.Is(), subj, pat.value))
        if isinstance(pat, ast.MatchOr):
            return any(self.match(p, subj) for p in pat.patterns)
        if isinstance(pat, ast.MatchAs):
            if pat.pattern is not None and not self.match(pat.pattern, subj):
                return False
            if pat.name:
                self.env[pat.name] = subj
            return True
        raise _Unsupported(f"match pattern `{type(pat).__name__}`")


# ============================================================================================ encoder: value_to_string
class _Enc(_Interp):
    """Symbolic evaluation of the encoder under an assumption on the argument's type ('bytes' or 'str')."""

    def __init__(self, ctx, f, oracle, ptype):
        _Interp.__init__(self, ctx, f, oracle)
        self.param = _Sym("param", (), ptype)
        self.cfacts = []  # what the path's own tests say about the characters of the argument (see `_admits_byte`)
        ps = params(f.node)
        for p in ps:
            self.env[p] = _Sym("unk", (p,))
        self.env[ps[0]] = self.param

    @staticmethod
    def typ(v):
        if isinstance(v, _Sym):
            return v.typ
        return type(v).__name__

    def isinstance_of(self, e, value, types_node):
        t = self.typ(value)
        if t is None:
            return None
        nodes = types_node.elts if isinstance(types_node, (ast.Tuple, ast.List)) else [types_node]
        names = [(dotted(n) or "?").split(".")[-1] for n in nodes]
        if "?" in names:
            return None
        if t in names:
            return True
        if set(names) <= {"str", "bytes", "bytearray", "memoryview", "int", "float", "bool", "list", "tuple", "dict", "NoneType"}:
            return False
        return None

    def value_chars(self, v) -> bool:
        """`v` has the characters of the argument: the argument itself or a decoding of it that maps every ASCII byte to the
        character with the same code (ascii / latin-1 / utf-8) - so a test on the characters of `v` is a test on the bytes of the argument
        as far as ASCII values are concerned."""
        if not isinstance(v, _Sym):
            return False
        if v.tag == "param":
            return v.typ in ("bytes", "str")
        return v.tag == "codec" and v.args[1] == "decode" and v.args[2] in _ASCII_COMPATIBLE and isinstance(v.args[0], _Sym) and v.args[0].tag == "param" and v.args[0].typ == "bytes"

    shape_tests = True  # tests of the first / last character and of the length of the text are data forks kept as facts (`_Txt`: not modelled)

    def shape_subject(self, v) -> bool:
        """`v` is a str term over the argument (the str argument itself, or the text an escaper made of the bytes argument): a test of
        its length or of its first / last character is a test on the DATA - an in-band look at what the value happens to contain."""
        return self.shape_tests and isinstance(v, _Sym) and v.typ == "str" and v.tag in ("param", "slice", "repr", "codec", "rep", "fmt") and _mentions(v, self.param)

    def shape_fact(self, what, holds_when_true=True):
        holds = self.o.decide()
        self.cfacts.append(("shape", what, holds))
        return holds == holds_when_true

    def _end_char(self, v):
        """(term, 0 | -1) when `v` is the first / last character of a shape subject: v[0], v[-1], v[:1], v[-1:]."""
        if isinstance(v, _Sym) and v.tag == "charat":
            return v.args
        if isinstance(v, _Sym) and v.tag == "slice" and self.shape_subject(v.args[0]):
            if v.args[1:] in ((None, 1, None), (0, 1, None)):
                return v.args[0], 0
            if v.args[1:] == (-1, None, None):
                return v.args[0], -1
        return None

    def sym_compare(self, op, a, b):
        # `<constant> in <argument>`: a data fork (values with and without the substring both exist), kept as a fact of the path
        if isinstance(op, (ast.In, ast.NotIn)) and isinstance(a, (bytes, str)) and a and self.value_chars(b) and type(a).__name__ == b.typ:
            holds = self.o.decide()
            self.cfacts.append(("has", a, holds))
            return holds == isinstance(op, ast.In)
        if self.shape_tests:
            names = {ast.Lt: "<", ast.LtE: "<=", ast.Gt: ">", ast.GtE: ">=", ast.Eq: "==", ast.NotEq: "!="}
            mirror = {"<": ">", ">": "<", "<=": ">=", ">=": "<=", "==": "==", "!=": "!="}
            if type(op) in names:
                for x, y, opn in ((a, b, names[type(op)]), (b, a, mirror[names[type(op)]])):
                    if isinstance(x, _Sym) and x.tag == "len" and isinstance(y, int) and not isinstance(y, bool):
                        return self.shape_fact(("len", x.args[0], opn, y))
            if isinstance(op, (ast.Eq, ast.NotEq)):
                ea, eb = self._end_char(a), self._end_char(b)
                for x, y in ((ea, b), (eb, a)):
                    if x is not None and isinstance(y, str) and len(y) == 1:
                        return self.shape_fact(("char", x[0], x[1], y), isinstance(op, ast.Eq))
                if ea is not None and eb is not None and ea[0] == eb[0]:
                    return self.shape_fact(("same", ea[0], ea[1], eb[1]), isinstance(op, ast.Eq))
        return _Interp.sym_compare(self, op, a, b)

    def sym_binop(self, e, a, b):
        if isinstance(e.op, ast.Add):
            ta, tb = self.typ(a), self.typ(b)
            t = ta if ta in ("str", "bytes") else tb if tb in ("str", "bytes") else None
            if t is not None:
                return _Sym("cat", (a, b), t)
        if isinstance(e.op, ast.Mod) and isinstance(a, str) and a.count("%") == 1 and "%s" in a:
            x = b[0] if isinstance(b, tuple) and len(b) == 1 else b
            if isinstance(x, _Sym):
                pre, post = a.split("%s")
                return _Sym("cat", (pre, _Sym("cat", (self.as_str(x), post), "str")), "str")
        return _NOHOOK

    def as_str(self, v):
        """str(v) / format(v)"""
        if isinstance(v, _Sym):
            if v.typ == "str":
                return v
            if v.typ == "bytes":
                return _Sym("fmt", (v,), "str")  # str(bytes) is its repr, *with* the b'' delimiters: kept distinct from repr+slice
            return _Sym("fmt", (v,), "str")
        return str(v)

    def sym_formatted(self, node, v, conversion, spec):
        if spec not in (None, ""):
            return _Sym("opaque", (src(node)[:60], v), "str")
        if conversion in (114, 97):
            return _Sym("repr", (v,), "str")
        return self.as_str(v)

    def sym_joined(self, e, parts):
        out = parts[-1]
        for p in reversed(parts[:-1]):
            out = _Sym("cat", (p, out), "str")
        return out

    def sym_subscript(self, e, base, idx, is_slice):
        if isinstance(base, _Sym) and base.tag != "unk" and is_slice and _concrete(idx):
            return _Sym("slice", (base,) + tuple(idx), base.typ)
        if not is_slice and idx in (0, -1) and not isinstance(idx, bool) and self.shape_subject(base):
            return _Sym("charat", (base, idx), "str")  # the first / last character of the text (see `shape_subject`)
        if isinstance(base, _Sym) and base.tag != "unk":
            return _Sym("opaque", (src(e)[:60], base), None)
        return _NOHOOK

    def call_hook(self, e):
        name = dotted(e.func) or ""
        if name in ("re.sub", "re.subn") and len(e.args) >= 3 and not any(isinstance(a, ast.Starred) for a in e.args):
            pat, rep, subject = (self.ev(a) for a in e.args[:3])
            extra = e.args[3:] or e.keywords
            if isinstance(subject, _Sym) and subject.tag != "unk":
                lit = _literal_regex(pat) if not extra and name == "re.sub" else None
                rl = _literal_template(rep)
                if lit is not None and rl is not None:
                    return _Sym("rep", (subject, lit, rl), "str")
                return _Sym("condrep", (subject, repr(pat), repr(rep)), "str")
        if name in ("codecs.decode", "codecs.encode") and 1 <= len(e.args) <= 2 and not e.keywords and not any(isinstance(a, ast.Starred) for a in e.args):
            vals = [self.ev(a) for a in e.args]
            r = self.codec_step(vals[0], name.split(".")[1], vals[1:], {})
            if r is not None:
                return r
            syms = [a for a in vals if isinstance(a, _Sym) and a.tag != "unk"]
            return _Sym("opaque", (src(e)[:60],) + tuple(syms), None) if syms else self.unk(e)
        return _NOHOOK

    def codec_step(self, recv, direction, args, kws):
        """bytes.decode(<codec>) / str.encode(<codec>) with a constant codec name and default error handling: a `codec` term."""
        if not (isinstance(recv, _Sym) and recv.tag != "unk" and recv.typ == ("bytes" if direction == "decode" else "str")):
            return None
        if len(args) == 1 and not kws:
            name = args[0]
        elif not args and set(kws) == {"encoding"}:
            name = kws["encoding"]
        elif not args and not kws:
            name = "utf-8"
        else:
            return None
        name = _codec_name(name)
        if name is None:
            return None
        return _Sym("codec", (recv, direction, name), "str" if direction == "decode" else "bytes")

    def sym_method(self, e, recv, attr, args, kws):
        if attr in ("decode", "encode"):
            r = self.codec_step(recv, attr, args, kws)
            if r is not None:
                return r
        if attr in _CHAR_CLASSES and not args and not kws and self.value_chars(recv) and recv.typ in _CHAR_CLASSES[attr][0]:
            # a per-character predicate of CPython on the argument (lemma L13): a data fork - values on both sides exist - whose
            # outcome is a fact of the path about the class every character belongs to; no value is ever tried
            holds = self.o.decide()
            self.cfacts.append(("class", attr, holds))
            if holds and (attr == "isascii" or recv.typ == "bytes"):
                self.cfacts.append(("ascii", None, True))  # every byte of the argument is below 0x80 (bytes.<pred> knows ASCII only)
            return holds
        if attr in ("startswith", "endswith") and len(args) == 1 and not kws and isinstance(args[0], str) and len(args[0]) == 1 and self.shape_subject(recv):
            return self.shape_fact(("char", recv, 0 if attr == "startswith" else -1, args[0]))
        if isinstance(recv, _Sym) and recv.tag != "unk":
            if attr == "replace" and recv.typ == "str" and len(args) >= 2 and isinstance(args[0], str) and isinstance(args[1], str):
                if len(args) == 2 and not kws:
                    return _Sym("rep", (recv, args[0], args[1]), "str")
                return _Sym("condrep", (recv, repr(args[0]), repr(args[1])), "str")
            keeps = recv.typ == "str" and attr in ("translate", "strip", "lstrip", "rstrip", "lower", "upper", "expandtabs", "removeprefix", "removesuffix", "format", "join", "casefold", "title", "swapcase")
            return _Sym("opaque", (src(e)[:60], recv), "str" if keeps else None)
        if isinstance(recv, str) and attr == "join" and len(args) == 1 and isinstance(args[0], (list, tuple)) and args[0] and not kws:
            items = list(args[0])
            if all(self.typ(x) == "str" for x in items):
                out = items[-1]
                for x in reversed(items[:-1]):
                    out = _Sym("cat", (x, _Sym("cat", (recv, out), "str") if recv else out), "str")
                return out
        if isinstance(recv, str) and attr == "format" and len(args) == 1 and not kws and isinstance(args[0], _Sym):
            for ph in ("{}", "{0}", "{0!s}", "{!s}"):
                if recv.count(ph) == 1 and recv.replace(ph, "").count("{") == 0 and recv.replace(ph, "").count("}") == 0:
                    pre, post = recv.split(ph)
                    return _Sym("cat", (pre, _Sym("cat", (self.as_str(args[0]), post), "str")), "str")
        syms = [a for a in list(args) + list(kws.values()) if isinstance(a, _Sym) and a.tag != "unk"]
        if syms:
            return _Sym("opaque", (src(e)[:60],) + tuple(syms), None)
        return _NOHOOK

    def sym_function(self, e, name, args, kws):
        if name == "len" and len(args) == 1 and not kws and self.shape_subject(args[0]):
            return _Sym("len", (args[0],), "int")
        if name in ("repr", "ascii") and len(args) == 1 and isinstance(args[0], _Sym) and args[0].tag != "unk":
            return _Sym("repr", (args[0],), "str")
        if name == "str" and len(args) == 1 and isinstance(args[0], _Sym) and args[0].tag != "unk" and not kws:
            if args[0].typ == "bytes":
                return _Sym("repr", (args[0],), "str")  # str(b) == repr(b) for bytes
            return self.as_str(args[0])
        if name in ("bytes", "bytearray") and len(args) == 1 and isinstance(args[0], _Sym) and args[0].typ == "bytes" and not kws:
            return args[0]
        if name in ("str", "bytes") and len(args) == 2 and not kws:  # str(b, codec) == b.decode(codec), bytes(s, codec) == s.encode(codec)
            r = self.codec_step(args[0], "decode" if name == "str" else "encode", [args[1]], {})
            if r is not None:
                return r
        syms = [a for a in list(args) + list(kws.values()) if isinstance(a, _Sym) and a.tag != "unk"]
        if syms:
            return _Sym("opaque", (src(e)[:60],) + tuple(syms), None)
        return _NOHOOK


def _codec_name(name):
    """Canonical name of a codec given by a constant of the analysed code (the stdlib codec registry is a reference table)."""
    if not isinstance(name, str):
        return None
    import codecs

    try:
        return codecs.lookup(name).name
    except Exception:
        return None


def _literal_regex(pat):
    """The string a regular expression matches when it is a plain sequence of literal characters, else None."""
    if not isinstance(pat, str):
        return None
    import re._constants as sc
    import re._parser as sp

    try:
        parsed = list(sp.parse(pat))
    except Exception:
        return None
    if not parsed or any(op is not sc.LITERAL for op, _ in parsed):
        return None
    return "".join(chr(av) for _, av in parsed)


def _literal_template(rep):
    """The text a re.sub replacement template inserts when it has no group references, else None."""
    if not isinstance(rep, str):
        return None
    out, i = [], 0
    while i < len(rep):
        c = rep[i]
        if c == "\\":
            if i + 1 >= len(rep):
                return None
            n = rep[i + 1]
            simple = {"\\": "\\", "n": "\n", "r": "\r", "t": "\t"}
            if n not in simple:
                return None
            out.append(simple[n])
            i += 2
        else:
            out.append(c)
            i += 1
    return "".join(out)


def _flatten(v):
    """Concatenation term -> list of parts (adjacent constants merged)."""
    parts = []

    def go(x):
        if isinstance(x, _Sym) and x.tag == "cat":
            for a in x.args:
                go(a)
        elif isinstance(x, (str, bytes)) and parts and type(parts[-1]) is type(x):
            parts[-1] = parts[-1] + x
        elif isinstance(x, (str, bytes)) and len(x) == 0:
            pass
        else:
            parts.append(x)

    go(v)
    return parts


def _show(v) -> str:
    if isinstance(v, _Sym):
        if v.tag == "param":
            return "value"
        if v.tag == "text":
            return "<text of the token>"
        if v.tag == "cat":
            return " + ".join(_show(p) for p in _flatten(v))
        if v.tag == "slice":
            lo, hi, st = v.args[1:4]
            return f"{_show(v.args[0])}[{'' if lo is None else lo}:{'' if hi is None else hi}{'' if st is None else ':' + str(st)}]"
        if v.tag == "rep":
            return f"{_show(v.args[0])}.replace({v.args[1]!r}, {v.args[2]!r})"
        if v.tag == "condrep":
            return f"{_show(v.args[0])}.<conditional replace {v.args[1]} -> {v.args[2]}>"
        if v.tag == "repr":
            return f"repr({_show(v.args[0])})"
        if v.tag == "fmt":
            return f"str({_show(v.args[0])})"
        if v.tag == "codec":
            return f"{_show(v.args[0])}.{v.args[1]}({v.args[2]!r})"
        if v.tag == "opaque":
            return f"<{v.args[0]}>"
        return repr(v)
    return repr(v)


def _peel(x):
    """Unary string transformations applied on top of a core term: returns (layers outermost first, core)."""
    layers = []
    while isinstance(x, _Sym):
        if x.tag in ("rep", "condrep"):
            layers.append(x)
            x = x.args[0]
        elif x.tag == "fmt" and isinstance(x.args[0], _Sym) and (x.args[0].typ == "str" or x.args[0].tag == "opaque"):
            x = x.args[0]
        elif x.tag == "opaque" and len([a for a in x.args[1:] if isinstance(a, _Sym)]) == 1:
            layers.append(x)
            x = [a for a in x.args[1:] if isinstance(a, _Sym)][0]
        else:
            break
    return layers, x


def _is_raw(x) -> bool:
    """the parameter itself, possibly only str()-formatted"""
    return isinstance(x, _Sym) and (x.tag == "param" or (x.tag == "fmt" and _is_raw(x.args[0])))


def _net_slice(x):
    """slice layers on top of a term -> (lo, hi, inner) with lo >= 0 counted from the start, hi <= 0 from the end; None when not of that form."""
    lo, hi = 0, 0
    while isinstance(x, _Sym) and x.tag == "slice":
        inner, a, b, st = x.args
        if st not in (None, 1):
            return None
        a = 0 if a is None else a
        b = 0 if b is None else b
        if not (isinstance(a, int) and isinstance(b, int)) or isinstance(a, bool) or a < 0 or b > 0:
            return None
        # slices are applied inside-out: this (outer) slice acts on the result of the inner ones - offsets simply add
        lo += a
        hi += b
        x = inner
    return lo, hi, x


def _esc_len(b: bytes) -> int:
    """Length of the escaped text of `b` inside a single-quoted bytes repr."""
    return len(repr(b'"' + b)) - 4


class _Escaper:
    """Abstract description of a byte-wise escaper (a reference fact about a CPython primitive, see lemmas L1 / L1b): the escaped
    text is a sequence of tokens, one per byte - a printable ASCII character standing for itself (`plain`), a two-character
    pair backslash + letter (`pairs`), or backslash + x + two hex digits.  A backslash only ever occurs as the first character
    of a token; the backslash byte itself is the pair backslash + backslash."""

    def __init__(self, name, unescaped_quote):
        self.name = name
        # the single quote is the one printable character the two escapers treat differently
        self.pairs = {"\\", "n", "r", "t"} | (set() if unescaped_quote else {"'"})
        self.not_plain = {"\\"} | (set() if unescaped_quote else {"'"})

    def plain(self, ch) -> bool:
        """`ch` can occur in the escaped text as a token of its own (directly after any other token, e.g. an escaped backslash)."""
        return len(ch) == 1 and 0x20 <= ord(ch) <= 0x7E and ch not in self.not_plain


_REPR_PINNED = _Escaper("repr() pinned to the single-quote style", unescaped_quote=False)
_UNICODE_ESCAPE = _Escaper("the unicode_escape codec over the latin-1 decoding", unescaped_quote=True)
_ASCII_COMPATIBLE = ("ascii", "iso8859-1", "utf-8")


def _codec_escaper(x):
    """`x` = <bytes value>.decode(C1).encode('unicode_escape').decode(C3): ("ok", description) / ("bad", why) / ("und", why);
    None when `x` is not a codec chain over the parameter at all.

    Lemma L1b (CPython unicode_escape encoder, code points below 0x100): a printable ASCII character other than the backslash
    stands for itself (so BOTH quote characters stay unescaped), the backslash becomes two backslashes, TAB / LF / CR become
    backslash + t / n / r, every other code point backslash + x + two hex digits; the output is pure ASCII.  latin-1 decoding
    maps byte b to code point b (a bijection onto 0..255); decoding pure ASCII as ascii / latin-1 / utf-8 is the identity."""
    chain = []
    y = x
    while isinstance(y, _Sym) and y.tag == "codec":
        chain.append((y.args[1], y.args[2]))
        y = y.args[0]
    if not chain or not (isinstance(y, _Sym) and y.tag == "param"):
        return None
    chain.reverse()  # innermost first
    desc = "value" + "".join(f".{d}({c!r})" for d, c in chain)
    if len(chain) != 3 or [d for d, _ in chain] != ["decode", "encode", "decode"] or chain[1][1] != "unicode-escape":
        return "und", f"the bytes value is converted with {desc}, which is not an escaper the analysis knows"
    c1, c3 = chain[0][1], chain[2][1]
    if c1 in ("ascii", "utf-8"):
        return "bad", f"{desc}: decoding the bytes value as {c1} raises for (sequences of) bytes >= 0x80, the value must be decoded byte-wise (latin-1)"
    if c1 != "iso8859-1" or c3 not in _ASCII_COMPATIBLE:
        return "und", f"{desc}: codec {c1 if c1 != 'iso8859-1' else c3!r} is not modelled"
    return "ok", desc


# Lemma L13 (reference table about CPython's per-character predicates, restricted to the ASCII range): `s.<pred>()` holds iff s is
# not empty (isascii / isprintable: also when empty) and EVERY character of s satisfies the predicate; the ASCII characters that do
# are the intervals below (bytes.<pred> knows ASCII only; the str versions also accept characters from 0x80 on, about which nothing
# is claimed here).  Entry: (types that have the method, intervals).
_CHAR_CLASSES = {
    "isascii": (("bytes", "str"), ((0x00, 0x7F),)),
    "isprintable": (("str",), ((0x20, 0x7E),)),
    "isalnum": (("bytes", "str"), ((0x30, 0x39), (0x41, 0x5A), (0x61, 0x7A))),
    "isalpha": (("bytes", "str"), ((0x41, 0x5A), (0x61, 0x7A))),
    "isdigit": (("bytes", "str"), ((0x30, 0x39),)),
    "isdecimal": (("str",), ((0x30, 0x39),)),
    "isnumeric": (("str",), ((0x30, 0x39),)),
}
_BACKSLASH, _DQUOTE = 0x5C, 0x22


def _in_class(name, b) -> bool:
    return any(lo <= b <= hi for lo, hi in _CHAR_CLASSES[name][1])


def _admits_byte(cfacts, b):
    """`_admits_byte0` for a path that may also carry facts about the shape of the text (its length, its first / last character): those
    are not evaluated here, so a value that contains `b` is only known to be admitted when there are none."""
    r = _admits_byte0(cfacts, b)
    if r is True and any(k == "shape" for k, _x, _h in cfacts):
        return None
    return r


def _admits_byte0(cfacts, b):
    """Do the facts of an encoder path admit an argument that contains the ASCII byte `b`?  True / False / None (not worked out).

    Facts: ("class", pred, holds) - outcome of a per-character predicate (lemma L13); ("has", S, holds) - outcome of `S in value`
    for a constant S of the analysed code.  A positive class fact confines every byte to the class; a negative one needs one byte
    outside it; `S in value` needs S; `S not in value` forbids S.  Decided on the abstract domain "set of ASCII byte values every
    byte of the value may take" (an interval set) plus a symbolic witness made of the constants the facts themselves name - nothing
    of /repo is evaluated: False when `b` is outside a class the path requires or `b` itself is the forbidden substring; True when
    the witness <required substrings> + <one byte outside each refuted class> + <b> satisfies every fact; None otherwise."""
    allowed = [(0x00, 0x7F)]

    def ok(x):
        return any(lo <= x <= hi for lo, hi in allowed)

    pos = [n for k, n, h in cfacts if k == "class" and h]
    for n in pos:
        allowed = [(max(lo, a), min(hi, c)) for lo, hi in allowed for a, c in _CHAR_CLASSES[n][1] if max(lo, a) <= min(hi, c)]
    if not ok(b):
        return False
    subs = []
    for k, S, h in cfacts:
        if k == "has":
            codes = list(S) if isinstance(S, bytes) else [ord(ch) for ch in S]
            if any(c > 0x7F for c in codes):
                return None
            subs.append((codes, h))
    if any(not h and codes == [b] for codes, h in subs):
        return False
    witness = []
    for codes, h in subs:
        if h:
            witness += codes
    for k, n, h in cfacts:
        if k == "class" and not h:
            # one byte outside the refuted class that the required classes allow: taken from the interval bounds (lowest bound first)
            cand = [x for lo, hi in allowed for x in (lo, hi) if not _in_class(n, x)] + \
                   [x for lo, hi in _CHAR_CLASSES[n][1] for x in (lo - 1, hi + 1) if 0 <= x <= 0x7F and ok(x) and not _in_class(n, x)]
            if not cand:
                return None
            witness.append(cand[0])
    witness.append(b)
    if not all(ok(x) for x in witness):
        return None
    for codes, h in subs:
        inside = any(witness[i:i + len(codes)] == codes for i in range(len(witness) - len(codes) + 1))
        if inside != h:
            return None
    return True


def _show_facts(cfacts) -> str:
    out = []
    for k, x, h in cfacts:
        if k == "ascii":
            continue
        if k == "shape":
            what = {0: "the first character", -1: "the last character"}
            t = (f"len(text) {x[2]} {x[3]}" if x[0] == "len" else f"{what[x[2]]} of the text == {x[3]!r}" if x[0] == "char" else f"{what[x[2]]} of the text == {what[x[3]]}")
            out.append(t if h else f"not ({t})")
            continue
        out.append((f"value.{x}()" if h else f"not value.{x}()") if k == "class" else f"{x!r} {'in' if h else 'not in'} value")
    return " and ".join(out) if out else "no condition"


def _identity_decoding(x):
    """`x` = value.decode(C) with C ascii / latin-1 / utf-8: the characters are the bytes themselves as far as ASCII is concerned -
    no escaper at all.  Returns C or None."""
    if isinstance(x, _Sym) and x.tag == "codec" and x.args[1] == "decode" and x.args[2] in _ASCII_COMPATIBLE and _is_raw(x.args[0]) and x.args[0].typ == "bytes":
        return x.args[2]
    return None


def _encoder_paths_facts(ctx, f, ptype):
    """[((end kind, value), guessed, facts)] for the paths of the encoder under the assumption on the argument's type."""
    def run(o):
        it = _Enc(ctx, f, o, ptype)
        try:
            it.block(f.node.body)
            res = ("return", None)
        except _Flow as fl:
            res = (fl.kind, fl.value)
        return res, it.guess_at is not None, list(it.cfacts)

    return _all_paths(run)


def _encoder_paths(ctx, f, ptype):
    """[((end kind, value), guessed)]: as `_encoder_paths_facts` for callers that do not evaluate the facts of a path - for them a
    path taken on a test of the argument's characters depends on a condition they do not understand."""
    return [(res, guessed or bool(facts)) for res, guessed, facts in _encoder_paths_facts(ctx, f, ptype)]


def _verdict(ctx, rule, kind, where, text, bad, und, ok_detail, node=None, nontrivial=True):
    """bad: reasons the located construct is wrong (-> violated); und: reasons it could not be judged (-> undecided)."""
    if bad:
        ctx.ob(rule, kind, where, text, False, "; ".join(dict.fromkeys(bad)), node, nontrivial=nontrivial)
    elif und:
        ctx.undecided(rule, kind, where, text, "; ".join(dict.fromkeys(und)), node)
    else:
        ctx.ob(rule, kind, where, text, True, ok_detail, node, nontrivial=nontrivial)


def r1(ctx):
    f = ctx.repo.func("c2profile.value_to_string")
    try:
        pb = _encoder_paths_facts(ctx, f, "bytes")
        ps = _encoder_paths_facts(ctx, f, "str")
    except _Unsupported as e:
        for text in ("bytes escaper", "quote replacement after escaper", "quote replacement for str", "return f'\"{value}\"'"):
            ctx.undecided("R1", "TAINT", f, text, f"value_to_string is not understood by the path-wise value-flow analysis ({e})")
        return

    esc_bad, esc_und, esc_seen = [], [], []
    q_bad, q_und = [], []
    o_bad, o_und, o_seen = [], [], []
    ret_bad, ret_und = [], []
    def unescaped(codec, guessed, facts, layers):
        """The bytes value reaches the literal as it is (`codec`: the identity decoding applied, None for none): the conditions of a
        path that skips the escaper must exclude the backslash byte - a printable ASCII character that starts an escape (or escapes
        the closing quote) when the literal is read back.  (The double quote is the business of the next obligation.)"""
        if guessed:
            esc_und.append("the bytes value reaches the literal without the repr-based escaper on a condition that is not understood")
            return
        own = [l for l in layers if not (l.tag == "rep" and (l.args[1], l.args[2]) in (('"', '\\"'), ("\\'", "'")))]
        if own and (codec is not None or facts):
            # rewrites other than the quote escape / the quote un-escape on top of the unescaped value: an escaper written by hand
            esc_und.append(f"the bytes value is escaped by its own replacements instead of a known escaper ({_show(own[0])[-70:]}); not worked out")
            return
        adm = _admits_byte(facts, _BACKSLASH)
        real = [x for x in facts if x[0] != "ascii"]
        if adm is True:
            esc_bad.append("the bytes value reaches the literal without the repr-based escaper" + (
                f" on the path taken when {_show_facts(facts)}: these conditions admit a value that contains the backslash byte (0x5c is printable ASCII), which is then written "
                f"as it is - it starts an escape or escapes the closing quote when the literal is read back; a path that skips the escaper must exclude the backslash byte" if real else ""))
        elif adm is None:
            esc_und.append(f"the bytes value reaches the literal without the repr-based escaper when {_show_facts(facts)}; whether these conditions exclude the backslash byte is not worked out")
        elif codec in ("ascii", "utf-8") and ("ascii", None, True) not in facts:
            esc_und.append(f"the bytes value is only decoded as {codec} when {_show_facts(facts)}; whether these conditions exclude bytes >= 0x80 (for which the decoding raises) is not worked out")
        else:
            esc_seen.append(f"the value itself where the path's conditions ({_show_facts(facts)}) exclude the backslash byte")

    for (kind, val), guessed, facts in pb:
        core = _literal_body(kind, val, guessed, ret_bad, ret_und, facts)
        if core is None:
            continue
        layers, x = _peel(core)
        # ---- the escaper: repr(<bytes containing a double quote> + value) with the delimiters and the pin sliced off
        ns = _net_slice(x)
        mixed = ns is not None and bool(_peel(ns[2])[0])  # replacements *below* the slice: offsets depend on the data
        model = None  # the escaper whose output the replacements below are applied to, when it is a known one
        if _is_raw(x):
            unescaped(None, guessed, facts, layers)
        elif ns is None:
            esc_und.append(f"the slice applied to the escaped text is not a constant [a:-b] slice: {_show(x)}")
        else:
            lo, hi, inner = ns
            if isinstance(inner, _Sym) and inner.tag == "repr":
                parts = _flatten(inner.args[0])
                i = [k for k, p in enumerate(parts) if isinstance(p, _Sym) and p.tag == "param"]
                if len(i) == 1 and all(isinstance(p, bytes) for k, p in enumerate(parts) if k != i[0]) and len(parts) <= 3:
                    pre = b"".join(parts[: i[0]])
                    post = b"".join(parts[i[0] + 1:])
                    pinned = b'"' in pre + post
                    need_lo, need_hi = 2 + _esc_len(pre), -1 - _esc_len(post)
                    desc = f"repr({(repr(pre) + ' + ') if pre else ''}value{(' + ' + repr(post)) if post else ''})[{lo}:{hi if hi else ''}]"
                    esc_seen.append(desc)
                    if not pinned:
                        esc_bad.append(f"{desc}: nothing pins repr() to the single-quote style (a b'\"' must be concatenated to the value), so a value with ' and without \" is delimited by double quotes and its ' stay unescaped")
                    elif (lo, hi) != (need_lo, need_hi):
                        esc_bad.append(f"{desc}: the slice must strip exactly b' + the pin and the closing quote, i.e. [{need_lo}:{need_hi}]")
                    else:
                        model = _REPR_PINNED
                else:
                    esc_und.append(f"argument of repr() is not <constant> + value: {_show(inner.args[0])}")
            elif _is_raw(inner) or _identity_decoding(inner) is not None:
                unescaped(_identity_decoding(inner), guessed, facts, layers)
            elif _codec_escaper(inner) is not None:
                status, info = _codec_escaper(inner)
                if status == "ok" and (lo, hi) != (0, 0):
                    esc_bad.append(f"{info}[{lo}:{hi if hi else ''}]: the codec adds no delimiters, the slice cuts characters of the escaped value")
                elif status == "ok":
                    esc_seen.append(info)
                    model = _UNICODE_ESCAPE
                else:
                    (esc_bad if status == "bad" else esc_und).append(info)
            else:
                esc_und.append(f"the bytes value is escaped by something other than repr(): {_show(inner)}")
        # ---- the double-quote replacement is applied to the escaped text
        reps = [l for l in layers if l.tag == "rep"]
        if any(l.args[1] == '"' and l.args[2] == '\\"' for l in reps):
            pass
        elif any(l.args[1] == '"' for l in reps):
            q_bad.append(f"the double quote is replaced by {[l.args[2] for l in reps if l.args[1] == chr(34)][0]!r}, not by backslash + quote")
        elif any(l.tag == "condrep" for l in layers):
            c = [l for l in layers if l.tag == "condrep"][0]
            q_bad.append(f"double quotes are only replaced conditionally ({c.args[1]} -> {c.args[2]}): a quote the condition skips ends the literal early")
        elif any(l.tag == "opaque" for l in layers):
            q_und.append(f"the escaped text passes through {_show([l for l in layers if l.tag == 'opaque'][0])}, which is not understood")
        elif mixed:
            q_und.append(f"replacements are applied before the delimiters are sliced off: {_show(x)}")
        elif guessed:
            q_und.append("a path on a condition that is not understood returns the escaped text without the double-quote replacement")
        elif _admits_byte(facts, _DQUOTE) is False:
            pass  # the conditions of the path exclude the double quote (neither escaper produces one): nothing to replace
        elif _admits_byte(facts, _DQUOTE) is None:
            q_und.append(f"a path returns the text without the double-quote replacement when {_show_facts(facts)}; whether these conditions exclude the double quote is not worked out")
        else:
            q_bad.append("a bytes-derived value can reach the return without the double-quote replacement: " + _show(val)
                         + (f" (path taken when {_show_facts(facts)}, which admits a value with a double quote)" if [x for x in facts if x[0] != "ascii"] else ""))
        # ---- any other rewriting of the escaped text (repr output is printable ASCII, backslashes only in escape pairs)
        for k, l in enumerate(layers):
            if l.tag != "rep" or l.args[1] == '"':
                continue
            a, b = l.args[1], l.args[2]
            o_seen.append((a, b))
            split = _splits_escaped_backslash(model, a, b, layers[k + 1:])
            if split is not None:
                (o_bad if split[0] else o_und).append(split[1])
            elif (a, b) == ("\\'", "'"):
                pass
            elif a == "\\'":
                o_bad.append(f"the escaped single quote \\' is rewritten to {b!r} (only the plain quote keeps the byte)")
            elif a and a != b and all(0x20 <= ord(ch) <= 0x7E for ch in a):
                o_und.append(f"the escaped text is additionally rewritten ({a!r} -> {b!r}); not known to keep the bytes")
    if not pb:
        esc_und.append("no path")
    _verdict(ctx, "R1", "TAINT", f, "bytes escaper", esc_bad, esc_und,
             f"bytes are escaped with {', '.join(dict.fromkeys(esc_seen))}: the constant pins repr() to the single-quote style and the slice strips exactly b' + pin and the closing quote "
             f"(a path that skips the escaper is taken only under conditions that exclude the backslash byte)")
    _verdict(ctx, "R1", "TAINT", f, "quote replacement after escaper", q_bad, q_und, "on every path the escaped text has `\"` replaced by `\\\"` before it is put between the quotes")
    _verdict(ctx, "R1", "TAINT", f, "\\' un-escape / other rewriting", o_bad, o_und,
             f"replacements applied to the escaped text besides the quote escape: {sorted(set(o_seen))} (\\' -> ' commutes with the quote escape; others cannot match repr output)", nontrivial=False)

    s_bad, s_und = [], []
    for (kind, val), guessed, facts in ps:
        core = _literal_body(kind, val, guessed, ret_bad, ret_und, facts)
        if core is None:
            continue
        layers, x = _peel(core)
        reps = [l for l in layers if l.tag == "rep"]
        if any(l.args[1] == '"' and l.args[2] == '\\"' for l in reps):
            continue
        if any(l.args[1] == '"' for l in reps):
            s_bad.append("the double quote of a str value is not replaced by backslash + quote")
        elif any(l.tag == "condrep" for l in layers):
            s_bad.append("double quotes of a str value are only replaced conditionally")
        elif any(l.tag == "opaque" for l in layers) or guessed or not (isinstance(x, _Sym) and x.tag == "param"):
            s_und.append(f"str path not understood: {_show(val)}")
        elif _admits_byte(facts, _DQUOTE) is not True:
            if _admits_byte(facts, _DQUOTE) is None:
                s_und.append(f"a str value is returned without the double-quote replacement when {_show_facts(facts)}; whether these conditions exclude the double quote is not worked out")
        else:
            s_bad.append("str values can reach the return with unescaped double quotes: " + _show(val))
    _verdict(ctx, "R1", "TAINT", f, "quote replacement for str", s_bad, s_und, "str values get their double quotes escaped on every path")
    _verdict(ctx, "R1", "TAINT", f, "return f'\"{value}\"'", ret_bad, ret_und, "on every path the literal is the escaped value between two double quotes")


def _splits_escaped_backslash(model, a, b, earlier):
    """A replacement (a -> b) applied to the output of the escaper `model`, a = backslash + X: can a match be anything but an
    escape pair the escaper emitted?  (True, why) violated / (False, why) undecided / None (no such match, or not this kind).

    Lemma L2b: in the escaped text a backslash is always the first character of a token and the backslash byte is the pair
    backslash + backslash.  If X can follow as a plain token of its own, the bytes (0x5c, X) give backslash, backslash, X; the
    left-to-right scan of str.replace finds `a` at the SECOND backslash (the first position does not match because X is not a
    backslash), so the rewrite splits the escaped backslash: its first half now pairs with the first character of `b`, which
    decodes to the backslash byte only if that character is a backslash.  If X is never emitted as a plain token (the escaper
    always escapes it), X is always directly preceded by its own escaping backslash and every match is that pair.
    `earlier` are the rewrites applied before this one; the text still has the escaper's token structure only if they are
    the quote escape (which turns the plain token `"` into a pair and touches nothing else), the un-escape of a quote pair
    the escaper always emits, or cannot match at all."""
    if model is None or len(a) != 2 or a[0] != "\\" or a == b:
        return None
    ch = a[1]
    if ch in ("\\", '"') or not model.plain(ch):
        return None
    for l in earlier:
        if l.tag == "rep" and ((l.args[1], l.args[2]) == ('"', '\\"') or l.args[1] == l.args[2] or any(not 0x20 <= ord(c) <= 0x7E for c in l.args[1])):
            continue
        if l.tag == "rep" and (l.args[1], l.args[2]) == ("\\'", "'") and not model.plain("'") and ch != "'":
            continue  # every match is the escaper's own pair for the quote byte (second case of the lemma): other tokens are untouched
        return False, f"{a!r} -> {b!r} is applied to escaped text that was rewritten before in a way that is not understood ({_show(l)[-60:]})"
    why = (f"{model.name} leaves {ch!r} unescaped and writes the backslash byte as two backslashes, so for the bytes backslash + {ch!r} the replacement "
           f"{a!r} -> {b!r} matches the second half of the escaped backslash followed by the plain {ch!r}, not an escape pair of the escaper")
    if b[:1] == "\\":
        return False, why + "; the replacement starts with a backslash itself - the decoded value is not worked out"
    return True, why + ": the escaped backslash is split and the backslash byte is lost (the text no longer decodes to the value)"


def _term_escaper(term):
    """What the characters of the str term `term` are, in terms of the argument: "raw" (the str argument itself), the `_Escaper` whose
    output it is (repr() pinned and sliced consistently / the unicode_escape chain), or None (not one of these)."""
    if isinstance(term, _Sym) and term.tag == "param" and term.typ == "str":
        return "raw"
    ns = _net_slice(term)
    if ns is None:
        return None
    lo, hi, inner = ns
    if isinstance(inner, _Sym) and inner.tag == "repr":
        parts = _flatten(inner.args[0])
        i = [k for k, p in enumerate(parts) if isinstance(p, _Sym) and p.tag == "param" and p.typ == "bytes"]
        if len(i) == 1 and all(isinstance(p, bytes) for k, p in enumerate(parts) if k != i[0]) and len(parts) <= 3:
            pre, post = b"".join(parts[: i[0]]), b"".join(parts[i[0] + 1:])
            if b'"' in pre + post and (lo, hi) == (2 + _esc_len(pre), -1 - _esc_len(post)):
                return _REPR_PINNED
        return None
    ce = _codec_escaper(inner)
    if ce is not None and ce[0] == "ok" and (lo, hi) == (0, 0):
        return _UNICODE_ESCAPE
    return None


def _shape_witness(cfacts):
    """A value that satisfies every fact of an encoder path that tests the SHAPE of the text (its length, its first / last character):
    the witness text, or None when none was found.  The witness is composed of the constants the facts themselves name (the characters the
    code compares the ends of the text with, repeated up to the lengths it compares with) and every fact is evaluated on that constant;
    for the escaped text of a bytes argument only characters the escaper emits as plain tokens are used (abstract `_Escaper`: such a
    character stands for the byte with the same code, so the escaped text of the witness IS the witness).  Nothing of /repo is evaluated."""
    shape = [(x, h) for k, x, h in cfacts if k == "shape"]
    if not shape:
        return None
    term = shape[0][0][1]
    if any(x[1] != term for x, _h in shape):
        return None
    model = _term_escaper(term)
    if model is None:
        return None
    ends = {0: None, -1: None}
    for x, h in shape:
        if x[0] == "char" and h:
            if ends[x[2]] not in (None, x[3]):
                return None
            ends[x[2]] = x[3]
    for x, h in shape:
        if x[0] == "same" and h:
            a, b = ends[x[2]], ends[x[3]]
            ends[x[2]], ends[x[3]] = a or b, b or a
    filler = ends[0] or ends[-1]
    consts = [c for c in (ends[0], ends[-1]) if c is not None]
    if model != "raw" and any(not model.plain(c) for c in consts):
        return None
    lengths = sorted({0, 1, 2} | {x[3] + d for x, _h in shape if x[0] == "len" for d in (-1, 0, 1) if 0 <= x[3] + d <= 64})
    ops = {"<": operator.lt, "<=": operator.le, ">": operator.gt, ">=": operator.ge, "==": operator.eq, "!=": operator.ne}
    for n in lengths:
        if n == 0:
            w = ""
        elif filler is None:
            continue
        else:
            w = ((ends[0] or filler) + filler * (n - 2) + (ends[-1] or filler)) if n >= 2 else (ends[0] or filler)
            if n == 1 and ends[0] is not None and ends[-1] is not None and ends[0] != ends[-1]:
                continue
        good = True
        for k, x, h in cfacts:
            if k == "shape" and x[0] == "len":
                r = ops[x[2]](len(w), x[3])
            elif k == "shape" and x[0] == "char":
                r = bool(w) and w[x[2]] == x[3]
            elif k == "shape":
                r = bool(w) and w[x[2]] == w[x[3]]
            elif k == "has":
                r = (x.decode("latin-1") if isinstance(x, bytes) else x) in w
            elif k == "class":
                r = (bool(w) or x in ("isascii", "isprintable")) and all(_in_class(x, ord(c)) for c in w)
            elif k == "ascii":
                continue
            else:
                return None
            if r != h:
                good = False
                break
        if good and (w or not any(x[0] in ("char", "same") for x, _h in shape)):
            # (an end character of an empty text cannot be tested at all - the subscript raises: not a witness for such a path)
            return w
    return None


def _literal_body(kind, val, guessed, bad, und, facts=()):
    """The returned literal must be `"` + X + `"`: returns X (a term over the parameter) or None after recording why not."""
    if kind != "return":
        if kind == "raise":
            (und if guessed else bad).append("a str/bytes value makes value_to_string raise")
        else:
            und.append(f"path ends with {kind}")
        return None
    parts = _flatten(val)
    if len(parts) == 3 and parts[0] == '"' and parts[2] == '"' and isinstance(parts[1], _Sym) and parts[1].tag != "unk":
        return parts[1]
    if isinstance(val, _Sym) and val.tag in ("unk", "opaque") or any(isinstance(p, _Sym) and p.tag == "unk" for p in parts):
        und.append(f"return value not understood: {_show(val)}")
    elif guessed:
        und.append(f"on a condition that is not understood the function returns {_show(val)}")
    elif any(k == "shape" for k, _x, _h in facts):
        # a path chosen by a look at the data itself (length / first / last character of the text): wrong as soon as some value takes it
        w = _shape_witness(facts) if any(isinstance(p, _Sym) and p.tag != "unk" for p in parts) else None  # (a constant returned for a special shape: not judged)
        if w is None:
            und.append(f"when {_show_facts(facts)} the function returns {_show(val)}, not the escaped value between two double quotes; whether a value satisfies these conditions is not worked out")
        else:
            bad.append(f"return value is {_show(val)}, not the escaped value between exactly two double quotes, on the path taken when {_show_facts(facts)}: the value itself decides "
                       f"(in-band) whether it is quoted and escaped - a value whose text is {w!r} satisfies these conditions and is written without its delimiters / escapes, so it does "
                       f"not read back as the same bytes and can end the literal early")
    else:
        bad.append(f"return value is {_show(val)}, not the escaped value between exactly two double quotes")
    return None


# ============================================================================================ decoder: string_token_to_bytes
class _Path:
    """One path through one iteration of the decoding loop: its event trace plus the case it stands for - `pin[pos]` is the
    literal the character at offset `pos` of the iteration was found equal to (a comparison of the analysed code that came
    out true), `excl[pos]` the literals it was found different from (comparisons that came out false)."""

    def __init__(self, events, end, guess_at, pos, pin=None, excl=None):
        self.events = events
        self.end = end
        self.guess_at = guess_at
        self.pos = pos
        self.pin = dict(pin or {})
        self.excl = {k: frozenset(v) for k, v in (excl or {}).items()}

    @property
    def guessed(self):
        return self.guess_at is not None

    def reads(self):
        return [(i, e[1], e[2]) for i, e in enumerate(self.events) if e[0] == "read"]

    def checks(self):
        return [(i, e[1], e[2], e[3]) for i, e in enumerate(self.events) if e[0] == "check"]

    def appends(self):
        return [e[1] for e in self.events if e[0] == "append"]

    def read_at(self, pos) -> bool:
        return any(p <= pos < p + n for _, p, n in self.reads())

    def uncovered_reads(self, start_avail, from_pos=0):
        """reads (event index, pos, n) that are not covered by an earlier successful availability check"""
        avail = start_avail
        out = []
        for i, e in enumerate(self.events):
            if e[0] == "check" and e[3]:
                avail = max(avail, e[1] + e[2])
            elif e[0] == "read" and e[1] + e[2] > avail and e[1] + e[2] > from_pos and not self.validated_after(i):
                out.append((i, e[1], e[2]))
        return out

    def validated_after(self, i) -> bool:
        """The read at event `i` is a tentative one (a next(n) that by the iterator's own definition just delivers fewer characters when
        fewer are left, lemma L15) and the NEXT thing the path does with the iterator or the output is a test of the length of what was
        delivered (recorded as a `check` event at the offset of the read): act-then-validate.  Either the test establishes that all n
        characters were there (the read is covered after the fact, before anything was appended or read on top of it), or it fails -
        then this is the path of a literal that is too short, whose outcome (ValueError, nothing appended) is the business of the
        escape's TABLE obligation."""
        e = self.events[i]
        if len(e) < 4 or e[3] != "tentative":
            return False
        for x in self.events[i + 1:]:
            if x[0] == "check":
                if x[3]:
                    if x[1] <= e[1] and x[1] + x[2] >= e[1] + e[2]:
                        return True
                    continue  # only part of what was read is known to be there: a later test may still cover the rest
                return x[1] + x[2] <= e[1] + e[2]
            if x[0] in ("read", "append"):
                return False
        return False


def _char(pos):
    """The (symbolic) character at offset `pos` of the iteration: 0 = the current character, 1 = the one after it."""
    return _Sym("char", (pos,), "str")


def _lin(v):
    """(a, b, k) of the linear term a * CUR0 + b * LEN + k (an int constant is (0, 0, k)); None for anything else."""
    if isinstance(v, _Sym) and v.tag == "lin":
        return v.args
    if isinstance(v, int) and not isinstance(v, bool):
        return (0, 0, v)
    return None


def _self_attr(node, self_name):
    return node.attr if isinstance(node, ast.Attribute) and isinstance(node.value, ast.Name) and node.value.id == self_name else None


def _iter_model(ctx):
    """What the StringIterator's own methods say about its state, read off their syntax trees (nothing is run):

    * has_next(n) is `self.<cursor> + n <= len(self.<buffer>)` (either operand order / mirrored comparison) - this names the cursor and
      the buffer attribute and IS the meaning of an availability check;
    * every store to the cursor in the class is `= 0` or `+= <a parameter or a positive constant>` (it only moves forward, by what
      the reading methods consume);
    * `same_length`: the constructor stores one buffer entry per character of its argument (a comprehension over the argument
      without a filter, `list(arg)` or the argument itself), so len(<argument>) is the number of characters the iterator holds.

    Returns {"cursor", "buffer", "same_length"} or None when has_next() has another shape (then a direct read of the iterator's
    members is not modelled: undecided, as before)."""
    hit = ctx.__dict__.get("_c12_itmodel", _NOHOOK)
    if hit is not _NOHOOK:
        return hit
    try:
        m = _build_iter_model(ctx)
    except Exception:
        m = None
    ctx.__dict__["_c12_itmodel"] = m
    return m


def _build_iter_model(ctx):
    repo = ctx.repo
    if not (repo.has_func(_IT_CLS + ".has_next") and repo.has_func(_IT_CLS + ".__init__")):
        return None
    has = repo.func(_IT_CLS + ".has_next").node
    ps = params(has)
    body = [st for st in has.body if not isinstance(st, ast.Pass)]
    if len(ps) != 2 or len(body) != 1 or not isinstance(body[0], ast.Return) or not isinstance(body[0].value, ast.Compare) or len(body[0].value.ops) != 1:
        return None
    me, count = ps
    cmp_ = body[0].value
    lo, hi = cmp_.left, cmp_.comparators[0]
    if isinstance(cmp_.ops[0], ast.GtE):
        lo, hi = hi, lo
    elif not isinstance(cmp_.ops[0], ast.LtE):
        return None
    if not (isinstance(lo, ast.BinOp) and isinstance(lo.op, ast.Add)):
        return None
    cursor = None
    for x, y in ((lo.left, lo.right), (lo.right, lo.left)):
        if _self_attr(x, me) and isinstance(y, ast.Name) and y.id == count:
            cursor = _self_attr(x, me)
    if not (isinstance(hi, ast.Call) and dotted(hi.func) == "len" and len(hi.args) == 1 and not hi.keywords):
        return None
    buffer = _self_attr(hi.args[0], me)
    if cursor is None or buffer is None or cursor == buffer:
        return None
    same_length = False
    for f in repo.methods(_IT_CLS):
        fps = params(f.node)
        if not fps:
            return None
        for st in statements(f.node):
            targets = st.targets if isinstance(st, ast.Assign) else [st.target] if isinstance(st, (ast.AnnAssign, ast.AugAssign)) else []
            for t in targets:
                for n in ast.walk(t):
                    attr = _self_attr(n, fps[0])
                    if attr == cursor:
                        if n is not t:
                            return None
                        if isinstance(st, ast.AugAssign):
                            v = st.value
                            if not (isinstance(st.op, ast.Add) and ((isinstance(v, ast.Name) and v.id in fps[1:]) or (isinstance(v, ast.Constant) and type(v.value) is int and v.value > 0))):
                                return None
                        elif not (isinstance(st.value, ast.Constant) and type(st.value.value) is int and st.value.value == 0):
                            return None
                    elif attr == buffer:
                        if n is not t or isinstance(st, ast.AugAssign) or f.qualname.split(".")[-1] != "__init__" or len(fps) != 2:
                            return None
                        v = st.value
                        arg = fps[1]
                        if isinstance(v, ast.Name) and v.id == arg:
                            same_length = True
                        elif isinstance(v, ast.Call) and dotted(v.func) == "list" and len(v.args) == 1 and not v.keywords and isinstance(v.args[0], ast.Name) and v.args[0].id == arg:
                            same_length = True
                        elif isinstance(v, ast.ListComp) and len(v.generators) == 1 and not v.generators[0].ifs and not v.generators[0].is_async \
                                and isinstance(v.generators[0].iter, ast.Name) and v.generators[0].iter.id == arg:
                            same_length = True
                        else:
                            same_length = False
        # a method that hands `self.<buffer>` to a mutating call is not looked for: the walker's iterator protocol does not
        # model such a method either
    return {"cursor": cursor, "buffer": buffer, "same_length": same_length, "next_slice": _next_is_slice(repo, cursor, buffer)}


def _next_is_slice(repo, cursor, buffer) -> bool:
    """next(n) is `<buffer>[<cursor> : <cursor> + n]` taken BEFORE the cursor is advanced by n (read off the method's syntax tree: a
    straight-line body, the returned value is that slice - directly or through a single-assignment local -, the only store to the
    cursor is `+= n` and comes after the statement that evaluates the slice).  Then, by the semantics of slicing (lemma L15),
    len(it.next(n)) == min(n, max(0, len(buffer) - cursor)): for 1 <= k <= n, len(it.next(n)) >= k  <=>  cursor + k <= len(buffer)
    <=>  has_next(k) held before the read - a length test of what was read IS the availability check, made after the fact."""
    if not repo.has_func(_IT_CLS + ".next"):
        return False
    fn = repo.func(_IT_CLS + ".next").node
    ps = params(fn)
    if len(ps) != 2:
        return False
    me, count = ps
    body = [st for st in fn.body if not isinstance(st, ast.Pass)]
    if not body or not isinstance(body[-1], ast.Return) or body[-1].value is None:
        return False
    if any(not isinstance(st, (ast.Assign, ast.AnnAssign, ast.AugAssign)) for st in body[:-1]):
        return False

    def is_slice(e):
        if not (isinstance(e, ast.Subscript) and _self_attr(e.value, me) == buffer and isinstance(e.slice, ast.Slice) and e.slice.step is None):
            return False
        lo, hi = e.slice.lower, e.slice.upper
        if lo is None or hi is None or _self_attr(lo, me) != cursor or not (isinstance(hi, ast.BinOp) and isinstance(hi.op, ast.Add)):
            return False
        return any(_self_attr(x, me) == cursor and isinstance(y, ast.Name) and y.id == count for x, y in ((hi.left, hi.right), (hi.right, hi.left)))

    stores = []  # positions of the statements that store to the cursor / rebind the count parameter
    for i, st in enumerate(body[:-1]):
        targets = st.targets if isinstance(st, ast.Assign) else [st.target]
        for t in targets:
            for n in ast.walk(t):
                if _self_attr(n, me) == cursor:
                    if not (isinstance(st, ast.AugAssign) and isinstance(st.op, ast.Add) and isinstance(st.value, ast.Name) and st.value.id == count and n is t):
                        return False
                    stores.append(i)
                elif _self_attr(n, me) == buffer or (isinstance(n, ast.Name) and isinstance(n.ctx, ast.Store) and n.id in (me, count)):
                    return False
    if len(stores) != 1:
        return False
    ret = body[-1].value
    if is_slice(ret):
        return False  # evaluated after the cursor store
    if isinstance(ret, ast.Name):
        defs = [(i, st) for i, st in enumerate(body[:-1]) if any(isinstance(n, ast.Name) and n.id == ret.id and isinstance(n.ctx, ast.Store) for n in ast.walk(st))]
        if len(defs) != 1:
            return False
        i, st = defs[0]
        value = st.value if isinstance(st, (ast.Assign, ast.AnnAssign)) else None
        single_target = (isinstance(st, ast.Assign) and len(st.targets) == 1 and isinstance(st.targets[0], ast.Name)) or (isinstance(st, ast.AnnAssign) and isinstance(st.target, ast.Name))
        return bool(single_target and value is not None and is_slice(value) and i < stores[0])
    return False


class _Dec(_Interp):
    """One iteration of the decoding loop, analysed ONCE: the iterator is abstract and the characters it delivers are symbolic.

    The only thing ever learnt about a character is the outcome of the comparisons the analysed code itself makes with its
    own literals (`c == "x"`, `c in "nrt"`, `c in TABLE`, `TABLE.get(c)`, `match c: case "n"`): each such comparison forks
    the path into "equal to that literal" (the character is pinned, later uses see the literal: constant propagation) and
    "different from it" (the literal joins the exclusion set).  The path on which every comparison failed is the
    "any other character" case, with the character still symbolic (`ord(c)` stays the term ord(c))."""

    def __init__(self, ctx, f, loop, oracle, it_cls, shared):
        _Interp.__init__(self, ctx, f, oracle)
        self.loop = loop
        self.cur = _char(0)
        self.pin = {}
        self.excl = {}
        self.it_cls = it_cls
        self.pos = 0
        self.avail = 0
        self.short = None
        self.tentative = {}  # positions of a next(n) made without a covering availability check -> (offset, n), see `read`
        self.hexmemo = {}
        self.shared = shared  # per loop: facts that do not depend on the characters (names assigned in the loop, values defined before it)
        if "assigned" not in shared:
            shared["assigned"], shared["accumulated"] = _loop_assigned(loop)
            shared["pre"] = {}
        self.loop_assigned = shared["assigned"]
        self.pre = shared["pre"]
        self.params = set(params(f.node))
        self.itm = _iter_model(ctx)  # what the iterator's own has_next() says about its cursor / buffer attributes (None: not understood)

    # ---------------------------------------------------------------- names defined before the loop
    def free_name(self, name):
        if name in self.params:
            return _Sym("unk", (name,))
        if name in self.pre:
            return self.pre[name]
        defs = assignments_to(self.f.node, name)
        if name in self.loop_assigned:
            raise _Unsupported("a local assigned inside the loop is read before it is assigned in the iteration (state carried between characters)")
        accumulator = name in self.shared["accumulated"]
        plain = [d for d in defs if d[1] is not None]
        if len(plain) == 1 and (len(defs) == 1 or accumulator):
            if name in self._busy:
                return _Sym("unk", (name,))
            self._busy.add(name)
            n_ev, n_dec = len(self.events), len(self.o.taken)
            try:
                v = self.ev(plain[0][1])
            finally:
                self._busy.discard(name)
            if len(self.events) != n_ev or len(self.o.taken) != n_dec:
                raise _Unsupported("the iterator is used before the decoding loop")
            if isinstance(v, _Sym) and v.tag == "lin" and v.args[0] != 0:
                raise _Unsupported("the iterator's cursor is read before the decoding loop")
            if isinstance(v, (list, bytearray)) or (accumulator and isinstance(v, (bytes, str))):
                v = _Sym("buf", (name,))  # the output accumulator: only what is added to it matters
            elif accumulator:
                raise _Unsupported("a counter/flag is updated across loop iterations (state carried between characters)")
            self.pre[name] = v
            return v
        if accumulator:
            raise _Unsupported("an accumulator of the loop has no single definition before it")
        if defs:
            return _Sym("unk", (name,))
        return self.modconst(name)

    def escapes(self, values):
        if any(_mentions(v, _ITER) for v in values):
            raise _Unsupported("the iterator is handed to / used by code the interpreter does not model")

    # ---------------------------------------------------------------- case analysis over the decoder's own literals
    def resolve(self, v):
        """A character pinned to a literal on this path is that literal (constant propagation into the case)."""
        if isinstance(v, _Sym):
            if v.tag == "char" and v.args[0] in self.pin:
                return self.pin[v.args[0]]
            if v.tag == "ord" and isinstance(v.args[0], _Sym) and v.args[0].tag == "char" and v.args[0].args[0] in self.pin:
                return ord(self.pin[v.args[0].args[0]])
        return v

    def lookup(self, name):
        return self.resolve(_Interp.lookup(self, name))

    def is_literal(self, pos, lit) -> bool:
        """Outcome of `<character at pos> == lit` on this path; forks when the path has not decided it yet."""
        if pos in self.pin:
            return self.pin[pos] == lit
        if lit in self.excl.get(pos, ()):
            return False
        if self.o.decide():
            self.pin[pos] = lit
            return True
        self.excl.setdefault(pos, set()).add(lit)
        return False

    def pick(self, pos, keys):
        """Outcome of `<character at pos> in keys`: the member it equals (one fork per member), or None (none of them)."""
        for k in keys:
            if self.is_literal(pos, k):
                return k
        return None

    @staticmethod
    def _members(container):
        """The one-character strings among the members of a constant container (a character can equal nothing else);
        for a str container: its characters (for a one-character string c, `c in s` holds iff c is a character of s)."""
        if isinstance(container, str):
            return list(dict.fromkeys(container))
        if isinstance(container, dict):
            items = list(container.keys())
        elif isinstance(container, (list, tuple)):
            items = list(container)
        elif isinstance(container, (set, frozenset)):
            items = sorted(container, key=repr)
        else:
            return None
        if not _concrete(items):
            return None
        return [k for k in dict.fromkeys(items) if isinstance(k, str) and len(k) == 1]

    def _char_test(self, x, y):
        """`x == y` where x is a symbolic character (or its code) and y a constant: (pos, literal) to test, False when the
        two can never be equal, None when the comparison is not of that kind."""
        if not isinstance(x, _Sym) or isinstance(y, _Sym) or not _concrete(y):
            return None
        if x.tag == "char":
            if isinstance(y, str) and len(y) == 1:
                return x.args[0], y
            return False  # a one-character string equals neither a longer/empty string nor a non-string
        if x.tag == "ord" and isinstance(x.args[0], _Sym) and x.args[0].tag == "char":
            if isinstance(y, int) and not isinstance(y, bool) and 0 <= y <= 0x10FFFF:
                return x.args[0].args[0], chr(y)  # lemma: ord(c) == k  <=>  c == chr(k)  (ord/chr are inverse bijections)
            return False
        return None

    def sym_compare(self, op, a, b):
        a, b = self.resolve(a), self.resolve(b)
        if _concrete(a) and _concrete(b):
            try:
                return bool(_CMPOPS[type(op)](a, b))
            except Exception:
                return _Sym("unk", ("cmp",))
        if any(isinstance(x, _Sym) and x.tag == "rdlen" for x in (a, b)):
            # the length of what a tentative next(n) delivered compared with a constant: an availability check after the fact (lemma L15)
            mirror = {ast.Lt: ast.Gt, ast.Gt: ast.Lt, ast.LtE: ast.GtE, ast.GtE: ast.LtE, ast.Eq: ast.Eq, ast.NotEq: ast.NotEq}
            x, k, kind = (a, b, type(op)) if isinstance(a, _Sym) and a.tag == "rdlen" else (b, a, mirror.get(type(op)))
            if kind is not None and isinstance(k, int) and not isinstance(k, bool):
                r = self.length_test(kind(), x.args[0], x.args[1], k)
                if r is not None:
                    return r
            return _Sym("unk", ("cmp",))
        if any(isinstance(x, _Sym) and x.tag == "lin" for x in (a, b)):
            la, lb = _lin(a), _lin(b)
            if la is not None and lb is not None:
                r = self.cursor_test(op, tuple(x - y for x, y in zip(la, lb)))
                if r is not None:
                    return r
            return _Sym("unk", ("cmp",))
        if isinstance(op, (ast.Eq, ast.NotEq)):
            for x, y in ((a, b), (b, a)):
                t = self._char_test(x, y)
                if t is None:
                    continue
                r = t if t is False else self.is_literal(*t)
                return r == isinstance(op, ast.Eq)
        if isinstance(op, (ast.In, ast.NotIn)) and isinstance(a, _Sym) and a.tag == "char" and not isinstance(b, _Sym):
            keys = self._members(b)
            if keys is not None:
                return (self.pick(a.args[0], keys) is not None) == isinstance(op, ast.In)
        if isinstance(op, (ast.In, ast.NotIn)) and self._is_digits(a) and isinstance(b, (dict, set, frozenset, list, tuple)) and _concrete(b):
            r = self.hex_lookup(b, a, "the table the digits are looked up in")
            if r is not None:
                return r[0] == isinstance(op, ast.In)
        return _Sym("unk", ("cmp",))

    # ---------------------------------------------------------------- iterator protocol
    def read(self, n, single):
        p = self.pos
        if not single and n >= 1 and p + n > self.avail and self.itm is not None and self.itm.get("next_slice"):
            # next(n) without an availability check before it: by the iterator's own definition the result is a slice that is simply
            # shorter when fewer characters are left (lemma L15) - a "tentative" read; a test of the length of what was read is the
            # availability check made after the fact (act-then-validate), recorded as the same `check` event at the read's offset
            self.events.append(("read", p, n, "tentative"))
            self.tentative[tuple(range(p, p + n))] = (p, n)
        else:
            self.events.append(("read", p, n))
        self.pos += n
        if single and p <= 1:
            return _char(p)
        return _Sym("digits", (tuple(range(p, p + n)),), "str" if single else "list")

    def read_length(self, v):
        """len(<what a next(n) returned>) (also of its "".join: one character per entry): the constant n for a read that was covered by
        an availability check, the term rdlen(p, n) = min(n, <characters left at offset p>) for a tentative one; None: not such a value."""
        if not (isinstance(v, _Sym) and v.tag == "digits" and self.itm is not None and self.itm.get("next_slice")):
            return None
        pos = tuple(v.args[0])
        if pos in self.tentative:
            p, n = self.tentative[pos]
            return n if p + n <= self.avail else _Sym("rdlen", (p, n), "int")
        if pos and pos == tuple(range(pos[0], pos[0] + len(pos))) and pos[-1] < self.avail and any(e[0] == "read" and (e[1], e[2]) == (pos[0], len(pos)) for e in self.events):
            return len(pos)
        return None

    def length_at_least(self, p, n, k) -> bool:
        """Outcome of `len(<tentative read of n characters at offset p>) >= k` (lemma L15): always true for k <= 0, never for k > n,
        otherwise exactly "k characters were available at offset p" - an availability check event at the offset of the read."""
        if k <= 0:
            return True
        if k > n:
            return False
        return self.check(k, at=p)

    def length_test(self, op, p, n, k):
        ge = self.length_at_least
        if isinstance(op, ast.GtE):
            return ge(p, n, k)
        if isinstance(op, ast.Lt):
            return not ge(p, n, k)
        if isinstance(op, ast.Gt):
            return ge(p, n, k + 1)
        if isinstance(op, ast.LtE):
            return not ge(p, n, k + 1)
        if isinstance(op, (ast.Eq, ast.NotEq)):
            r = ge(p, n, k) and not ge(p, n, k + 1)
            return r == isinstance(op, ast.Eq)
        return None

    def check(self, n, at=None):
        p = self.pos if at is None else at
        if p + n <= self.avail:
            out = True
        elif self.short is not None and p + n >= self.short:
            out = False
        else:
            out = self.o.decide()
        if out:
            self.avail = max(self.avail, p + n)
        else:
            self.short = p + n if self.short is None else min(self.short, p + n)
        self.events.append(("check", p, n, out))
        return out

    # ---------------------------------------------------------------- the cursor read directly (instead of has_next)
    def ev_Attribute(self, e):
        """`it.<cursor>` / `it.<buffer>` read directly: kept as linear terms over the two symbols CUR0 (the cursor when the
        iteration starts) and LEN (the number of characters) - lemma L14; any other member of the iterator is not modelled."""
        v = self.ev(e.value)
        if v is _ITER and self.itm is not None and isinstance(e.ctx, ast.Load):
            if e.attr == self.itm["cursor"]:
                return _Sym("lin", (1, 0, self.pos), "int")  # the cursor is CUR0 + <characters consumed so far in this iteration>
            if e.attr == self.itm["buffer"]:
                return _Sym("itbuf", (_ITER,))  # only len() of it is modelled (mentions the iterator: any other use is refused)
        self.escapes([v])
        return self.unk(e)

    def is_ctor_arg(self, node) -> bool:
        """`node` is the text the iterator was constructed from (compared after substituting single-definition temporaries)."""
        if self.itm is None or not self.itm["same_length"]:
            return False
        if "ctor_arg" not in self.shared:
            self.shared["ctor_arg"] = None
            calls = [c for c in body_walk(self.f.node) if isinstance(c, ast.Call) and self.is_iter_ctor(c)]
            init = self.ctx.repo.func(self.it_cls + ".__init__") if self.ctx.repo.has_func(self.it_cls + ".__init__") else None
            if len(calls) == 1 and init is not None:
                b = bind_args(calls[0], init.node, skip_self=True)
                if len(b) == 1 and list(b.values())[0] is not None:
                    self.shared["ctor_arg"] = self._stable_src(list(b.values())[0])
        want = self.shared["ctor_arg"]
        return want is not None and self._stable_src(node) == want

    def _stable_src(self, node):
        """Normalised text of `node` with single-definition temporaries substituted; None when a name in it is bound more than once
        in the function (the two occurrences compared could then see different values)."""
        x = inline(self.f.node, node)
        for n in ast.walk(x):
            if isinstance(n, ast.Name) and n.id not in self.params and len(assignments_to(self.f.node, n.id)) > 1:
                return None
        return src(x)

    def cursor_test(self, op, d):
        """Outcome of `<linear term> op <linear term>` with d = left - right = a * CUR0 + b * LEN + k.

        Lemma L14 (integers): the iterator's own has_next(n) is `cursor + n <= len(buffer)` (read off its syntax tree, `_iter_model`),
        so CUR0 + A <= LEN is exactly "A characters are available from the start of the iteration" - the same availability event a
        has_next() call gives at the current offset: CUR0 + k < LEN  <=>  CUR0 + (k + 1) <= LEN;  x >= y  <=>  not x < y."""
        flip = {ast.Lt: ast.Gt, ast.Gt: ast.Lt, ast.LtE: ast.GtE, ast.GtE: ast.LtE}
        if type(op) not in flip:
            return None  # == / != on the cursor: equivalent to an availability test only under an invariant that is not established
        a, b, k = d
        kind = type(op)
        if (a, b) == (-1, 1):
            a, b, k, kind = 1, -1, -k, flip[kind]
        if (a, b) != (1, -1):
            return None
        if kind is ast.Lt:
            return self.available(k + 1)
        if kind is ast.LtE:
            return self.available(k)
        if kind is ast.GtE:
            return not self.available(k + 1)
        return not self.available(k)

    def available(self, upto) -> bool:
        """CUR0 + upto <= LEN: `upto` characters are available counted from the start of the iteration."""
        n = upto - self.pos
        if n < 0:
            if upto <= self.avail:
                return True
            raise _Unsupported("a cursor comparison about characters that were already consumed")
        return self.check(n)

    def is_iter_ctor(self, e) -> bool:
        try:
            c = self.ctx.rs.resolve_call(self.f, e)
            if c is not None and c.kind == "class" and c.fq == self.it_cls:
                return True
        except Exception:
            pass
        return (dotted(e.func) or "").split(".")[-1] == self.it_cls.split(".")[-1]

    def call_hook(self, e):
        fn = e.func
        if self.is_iter_ctor(e):
            self.scan(e)
            return _ITER
        if isinstance(fn, ast.Name) and fn.id in ("next", "iter") and e.args and fn.id not in self.env:
            v = self.ev(e.args[0])
            if v is _ITER:
                if fn.id == "iter":
                    raise _Unsupported("iter() on the iterator inside the loop")
                if len(e.args) != 1 or e.keywords:
                    raise _Unsupported("next(it, default)")
                return self.read(1, True)
            self.escapes([v])
            for a in e.args[1:]:
                self.ev(a)
            return self.unk(e)
        if isinstance(fn, ast.Attribute):
            recv = self.ev(fn.value)
            if recv is _ITER:
                if fn.attr == "__next__" and not e.args and not e.keywords:
                    return self.read(1, True)
                if fn.attr == "next":
                    n = self._count(e, "next")
                    return self.read(n, False)
                if fn.attr == "has_next":
                    return self.check(self._count(e, "has_next"))
                raise _Unsupported(f"iterator member `{fn.attr}` used directly")
            if isinstance(recv, _Sym) and recv.tag in ("buf", "unk") and fn.attr in ("append", "extend") and len(e.args) == 1 and not e.keywords and isinstance(fn.value, ast.Name):
                v = self.ev(e.args[0])
                self.escapes([v])
                self.shared.setdefault("receivers", set()).add(fn.value.id)  # the accumulator, located by role (R6)
                if fn.attr == "append":
                    self.events.append(("append", v))
                else:
                    self.extend(v)
                return None
            if isinstance(recv, _Sym) and recv.tag == "buf":
                raise _Unsupported(f"output buffer method `{fn.attr}`")
            # fall through to the generic evaluation (the receiver is evaluated again: only names/constants reach here
            # with effects when it is the iterator, which was handled above)
        return _NOHOOK

    def _count(self, e, meth) -> int:
        fn = self.ctx.repo.func(f"{self.it_cls}.{meth}") if self.ctx.repo.has_func(f"{self.it_cls}.{meth}") else None
        node = None
        if fn is not None:
            b = bind_args(e, fn.node, skip_self=True)
            if len(b) == 1:
                node = list(b.values())[0]
        elif e.args:
            node = e.args[0]
        elif e.keywords:
            node = e.keywords[0].value
        if node is None:
            raise _Unsupported(f"argument of {meth}() not found")
        n = self.ev(node)
        if isinstance(n, bool) or not isinstance(n, int) or n < 0 or n > 64:
            raise _Unsupported(f"{meth}() with a count that is not a small constant")
        return n

    def extend(self, v):
        if isinstance(v, _Sym) and v.tag == "bytesof":
            for x in v.args[0]:
                self.events.append(("append", x))
        elif isinstance(v, _Sym) and v.tag == "encchr":
            # the bytes a codec gives for ONE character: how many they are depends on the data - kept as one term and judged
            # by lemma L12 in the rule ("is this exactly the one byte <code>?")
            self.events.append(("append", v))
        elif isinstance(v, (list, tuple, bytes)):
            for x in v:
                self.events.append(("append", x))
        else:
            self.events.append(("append", _Sym("unk", ("extend",))))

    def augassign(self, st, cur, rhs):
        if isinstance(st.op, ast.Add) and isinstance(cur, _Sym) and cur.tag in ("buf", "unk") and (isinstance(rhs, (list, tuple, bytes)) or isinstance(rhs, _Sym) and rhs.tag in ("bytesof", "encchr")):
            self.extend(rhs)
            if isinstance(st.target, ast.Name):
                self.shared.setdefault("receivers", set()).add(st.target.id)
            return cur
        if isinstance(cur, _Sym) and cur.tag == "buf":
            raise _Unsupported("output buffer updated in a way the interpreter does not model")
        return _Interp.augassign(self, st, cur, rhs)

    def store(self, target, v):
        if isinstance(target, ast.Subscript):
            base = self.ev(target.value)
            if any(base is v for v in self.pre.values()):
                raise _Unsupported("a table defined before the loop is modified inside it")
            if isinstance(base, dict) or isinstance(base, list):
                idx = self.ev(target.slice)
                try:
                    base[idx] = v
                    return
                except Exception:
                    pass
        raise _Unsupported(f"assignment to `{src(target)}`")

    # ---------------------------------------------------------------- tables keyed by the hex digits of an escape
    def hex_lookup(self, table, d, what):
        """Lookup of the symbolic hex digits `d` (one digit or a pair) in a constant table of the analysed code.

        The table is compared completely with the reference table `_hex_spellings` (every spelling of the digits the
        documented escape syntax admits - both cases unless the digits were case-normalised - with its value): when some
        spellings are absent the path forks into "found" / "not found" (a data fork: both are feasible for valid escapes);
        when the entries that are present all carry the value of their key, the result IS the term int(<digits>, 16).
        Returns None (not this kind of lookup) or (found, value) - value None when the table has no values (a set/list)."""
        pos = tuple(d.args[0])
        case = d.args[1] if len(d.args) > 1 else None
        if d.typ != "str" or not 1 <= len(pos) <= 2 or isinstance(table, (str, bytes)):
            return None
        ref = _hex_spellings(len(pos), case)
        try:
            present = [sp for sp in ref if sp in table]
        except TypeError:
            return None
        missing = [sp for sp in ref if sp not in set(present)]
        key = (id(table), pos, case)
        if key in self.hexmemo:
            found = self.hexmemo[key]
        elif missing and present:
            found = self.o.decide()
        else:
            found = bool(present)
        self.hexmemo[key] = found
        if not found:
            unit = "a hexadecimal digit" if len(pos) == 1 else "a pair of hexadecimal digits"
            self.events.append(("note", f"{what} has no entry for {len(missing)} of the {len(ref)} spellings of {unit} (e.g. {', '.join(map(repr, missing[:3]))})"))
            return False, None
        if not isinstance(table, dict):
            return True, None
        vals = [table[sp] for sp in present]
        if not all(isinstance(v, int) and not isinstance(v, bool) for v in vals):
            return True, _Sym("unk", (what,))
        wrong = [sp for sp in present if table[sp] != ref[sp]]
        if wrong:
            return True, _Sym("lookup", (pos, f"{what} maps {wrong[0]!r} to {table[wrong[0]]}"))
        return True, _Sym("int", (pos, 16))

    @staticmethod
    def _is_digits(v) -> bool:
        return isinstance(v, _Sym) and v.tag == "digits" and v.typ == "str"

    # ---------------------------------------------------------------- symbolic characters and hex digits
    def sym_truth(self, v):
        if v.tag == "int":
            # the decoded number can be zero or not: both outcomes are feasible (a data fork, not a guess)
            return self.o.decide()
        if v.tag == "char":
            return True  # a one-character string is not empty
        if v.tag == "rdlen":
            return self.length_at_least(v.args[0], v.args[1], 1)
        if v.tag == "digits":
            # `if digits:` / `if not digits:` - what a next(n) delivered is empty or not: a test of its length (lemma L15)
            n = self.read_length(v)
            if isinstance(n, _Sym):
                return self.length_at_least(n.args[0], n.args[1], 1)
            if isinstance(n, int):
                return n > 0
        return None

    def _char_pos(self, v):
        v = self.resolve(v)
        return v.args[0] if isinstance(v, _Sym) and v.tag == "char" else None

    def sym_method(self, e, recv, attr, args, kws):
        if isinstance(recv, str) and attr == "join" and len(args) == 1 and not kws:
            a = args[0]
            if isinstance(a, _Sym) and a.tag == "digits" and recv == "":
                return _Sym("digits", a.args, "str")
            if isinstance(a, (list, tuple)) and a and all(isinstance(x, _Sym) and x.tag == "digits" for x in a) and recv == "" and len({x.args[1:] for x in a}) == 1:
                return _Sym("digits", (tuple(p for x in a for p in x.args[0]),) + a[0].args[1:], "str")
        if isinstance(recv, dict) and attr == "get" and 1 <= len(args) <= 2 and not kws and self._char_pos(args[0]) is not None:
            keys = self._members(recv)
            if keys is not None:
                k = self.pick(self._char_pos(args[0]), keys)
                return recv[k] if k is not None else (args[1] if len(args) == 2 else None)
        what = f"`{src(e.func.value)[:40]}`" if isinstance(e.func, ast.Attribute) else "the table"
        if isinstance(recv, dict) and attr == "get" and 1 <= len(args) <= 2 and not kws and self._is_digits(args[0]) and _concrete(recv):
            r = self.hex_lookup(recv, args[0], what)
            if r is not None:
                return r[1] if r[0] else (args[1] if len(args) == 2 else None)
        if isinstance(recv, (str, list, tuple)) and attr in ("index", "find") and len(args) == 1 and not kws and self._is_digits(args[0]) and len(args[0].args[0]) == 1 \
                and _concrete(recv) and (attr == "index" or isinstance(recv, str)):
            first = {}
            for i, x in enumerate(recv):
                if isinstance(x, str) and len(x) == 1:
                    first.setdefault(x, i)  # index()/find() of a one-character string: the position of its first occurrence
            r = self.hex_lookup(first, args[0], what)
            if r is not None:
                if r[0]:
                    return r[1]
                if attr == "index":
                    raise _Flow("raise", "ValueError")
                return -1
        if attr == "encode":
            r = self.encoded_char(recv, args, kws)
            if r is not None:
                return r
        if self._is_digits(recv) and attr in ("lower", "upper", "casefold") and not args and not kws:
            # case normalisation of the digits: only the spellings of that case remain to be looked up; int() ignores the case
            return _Sym("digits", (recv.args[0], "upper" if attr == "upper" else "lower"), "str")
        return _NOHOOK

    def encoded_char(self, recv, args, kws):
        """<one character>.encode(<constant codec>) with default error handling: the term encchr(<code of the character>, codec)."""
        recv = self.resolve(recv)
        if not isinstance(recv, _Sym):
            return None
        if recv.tag == "chr":
            code = recv.args[0]
        elif recv.tag == "char":
            code = _Sym("ord", (recv,))
        else:
            return None
        if len(args) == 1 and not kws:
            name = args[0]
        elif not args and set(kws) == {"encoding"}:
            name = kws["encoding"]
        elif not args and not kws:
            name = "utf-8"
        else:
            return None
        name = _codec_name(name)
        return None if name is None else _Sym("encchr", (code, name))

    def sym_function(self, e, name, args, kws):
        if name == "len" and len(args) == 1 and not kws and len(e.args) == 1:
            # the number of characters the iterator holds: len(it.<buffer>), or len(<the text it was constructed from>) when the
            # constructor keeps one entry per character (`_iter_model`)
            if (isinstance(args[0], _Sym) and args[0].tag == "itbuf") or (isinstance(args[0], _Sym) and args[0].tag == "unk" and self.is_ctor_arg(e.args[0])):
                return _Sym("lin", (0, 1, 0), "int")
        if name == "len" and len(args) == 1 and not kws:
            r = self.read_length(args[0])  # the number of characters a next(n) delivered (lemma L15)
            if r is not None:
                return r
        if name == "bytes" and len(args) == 2 and not kws:  # bytes(<one character>, codec) == <one character>.encode(codec)
            r = self.encoded_char(args[0], [args[1]], {})
            if r is not None:
                return r
        if name == "int" and args and isinstance(args[0], _Sym) and args[0].tag == "digits" and len(args) <= 2:
            base = args[1] if len(args) == 2 else kws.get("base", 10)
            if isinstance(base, int):
                return _Sym("int", (args[0].args[0], base))
        if name in ("bytes", "bytearray") and len(args) == 1 and isinstance(args[0], (list, tuple)) and not kws:
            return _Sym("bytesof", (tuple(args[0]),))
        if name in ("str", "list", "tuple") and len(args) == 1 and isinstance(args[0], _Sym) and args[0].tag == "digits" and not kws:
            return _Sym("digits", args[0].args, "str" if name == "str" and args[0].typ == "str" else "list") if not (name == "str" and args[0].typ != "str") else _NOHOOK
        if len(args) == 1 and not kws:
            a = self.resolve(args[0])
            if name == "ord" and isinstance(a, str) and len(a) == 1:
                return ord(a)
            if name == "ord" and isinstance(a, _Sym) and a.tag == "char":
                return _Sym("ord", (a,))  # the code of the symbolic character, kept as a term
            if name == "chr" and isinstance(a, _Sym) and a.tag == "ord":
                return a.args[0]  # lemma: chr(ord(c)) == c
            if name == "chr" and isinstance(a, _Sym) and a.tag in ("int", "mask", "lookup"):
                return _Sym("chr", (a,), "str")  # the character with that code, kept as a term
            if name == "ord" and isinstance(a, _Sym) and a.tag == "chr":
                return a.args[0]  # lemma L3: ord(chr(n)) == n
            if name == "str" and isinstance(a, _Sym) and a.tag == "char":
                return a
        return _NOHOOK

    def sym_binop(self, e, a, b):
        if isinstance(e.op, ast.Add) and all(isinstance(x, _Sym) and x.tag == "digits" for x in (a, b)) and a.typ == b.typ and a.args[1:] == b.args[1:]:
            return _Sym("digits", (a.args[0] + b.args[0],) + a.args[1:], a.typ)
        a, b = self.resolve(a), self.resolve(b)
        if any(isinstance(x, _Sym) and x.tag == "lin" for x in (a, b)):
            la, lb = _lin(a), _lin(b)
            if la is not None and lb is not None and isinstance(e.op, (ast.Add, ast.Sub)):
                sign = 1 if isinstance(e.op, ast.Add) else -1
                r = tuple(x + sign * y for x, y in zip(la, lb))
                return r[2] if r[:2] == (0, 0) else _Sym("lin", r, "int")
            return _NOHOOK
        # lemma L9 (positional notation): int(A, 16) * 16**len(B) + int(B, 16) == int(A + B, 16); `<< 4*len(B)` is that product and
        # `|` equals `+` here because int(B, 16) < 16**len(B) while the low 4*len(B) bits of the scaled value are clear
        for x, y in ((a, b), (b, a)):
            if isinstance(x, _Sym) and x.tag == "int" and x.args[1] == 16 and isinstance(y, int) and not isinstance(y, bool):
                m = None
                if isinstance(e.op, ast.Mult) and y > 1 and y == 16 ** ((y.bit_length() - 1) // 4):
                    m = (y.bit_length() - 1) // 4
                elif isinstance(e.op, ast.LShift) and x is a and y > 0 and y % 4 == 0:
                    m = y // 4
                if m is not None:
                    return _Sym("scaled", (x.args[0], m))
            if isinstance(x, _Sym) and x.tag == "scaled" and isinstance(y, _Sym) and y.tag == "int" and y.args[1] == 16 and len(y.args[0]) == x.args[1] \
                    and isinstance(e.op, (ast.Add, ast.BitOr)):
                return _Sym("int", (tuple(x.args[0]) + tuple(y.args[0]), 16))
        if _concrete(a) and _concrete(b) and type(e.op) in _BINOPS:
            try:
                return _BINOPS[type(e.op)](a, b)
            except Exception:
                return _NOHOOK
        # a constant mask / modulus applied to the code of a symbolic character or to the number parsed from symbolic hex
        # digits: kept as a term, judged by a known-bits / interval lemma in the rule (never by trying values)
        if isinstance(e.op, ast.BitAnd):
            for x, y in ((a, b), (b, a)):
                if isinstance(x, _Sym) and x.tag in ("ord", "mask", "int") and isinstance(y, int) and not isinstance(y, bool):
                    return _Sym("mask", (x, "&", y))
        if isinstance(e.op, ast.Mod) and isinstance(a, _Sym) and a.tag in ("ord", "mask", "int") and isinstance(b, int) and not isinstance(b, bool):
            return _Sym("mask", (a, "%", b))
        return _NOHOOK

    def sym_subscript(self, e, base, idx, is_slice):
        if isinstance(base, _Sym) and base.tag == "digits" and _concrete(idx):
            try:
                if is_slice:
                    return _Sym("digits", (base.args[0][slice(*idx)],) + base.args[1:], base.typ)
                return _Sym("digits", ((base.args[0][idx],),) + base.args[1:], "str")
            except Exception:
                return _NOHOOK
        if isinstance(base, dict) and not is_slice and self._is_digits(idx) and _concrete(base):
            r = self.hex_lookup(base, idx, f"`{src(e.value)[:40]}`")
            if r is not None:
                if not r[0]:
                    raise _Flow("raise", "KeyError")
                return r[1]
        if isinstance(base, dict) and not is_slice and self._char_pos(idx) is not None:
            keys = self._members(base)
            if keys is not None:
                k = self.pick(self._char_pos(idx), keys)
                if k is None:
                    raise _Flow("raise", "KeyError")
                return base[k]
        return _NOHOOK

    # ---------------------------------------------------------------- one iteration
    def iteration(self) -> _Path:
        loop = self.loop
        try:
            if isinstance(loop, ast.For):
                if self.ev(loop.iter) is not _ITER:
                    raise _Unsupported("loop does not iterate the StringIterator")
                self.events.append(("read", 0, 1))
                self.pos = self.avail = 1
                self.bind(loop.target, self.cur)
            else:
                if not self.truth(self.ev(loop.test)):
                    return self.path("exit")
            self.block(loop.body)
            end = "end"
        except _Flow as fl:
            end = fl.kind
            if fl.kind == "raise":
                self.events.append(("raise", fl.value))
        return self.path(end)

    def path(self, end) -> _Path:
        return _Path(self.events, end, self.guess_at, self.pos, self.pin, self.excl)


def _loop_assigned(loop):
    """(names bound by plain assignments in the loop body, names only updated by augmented assignment there)"""
    out, aug = set(), set()
    for st in loop.body:
        for n in ast.walk(st):
            if isinstance(n, ast.AugAssign) and isinstance(n.target, ast.Name):
                aug.add(n.target.id)
        for n in ast.walk(st):
            if isinstance(n, ast.Name) and isinstance(n.ctx, ast.Store):
                out.add(n.id)
            elif isinstance(n, ast.NamedExpr):
                out.add(n.target.id)
    plain = set()
    for st in loop.body:
        for n in ast.walk(st):
            if isinstance(n, ast.AugAssign):
                continue
            for t in ([n.target] if isinstance(n, (ast.AnnAssign, ast.For, ast.NamedExpr)) else n.targets if isinstance(n, ast.Assign) else
                      [i.optional_vars for i in n.items if i.optional_vars is not None] if isinstance(n, ast.With) else []):
                for x in ast.walk(t):
                    if isinstance(x, ast.Name):
                        plain.add(x.id)
            if isinstance(n, ast.MatchAs) and n.name:
                plain.add(n.name)
    aug -= plain
    out = (out | plain) - aug
    if isinstance(loop, ast.For):
        for n in ast.walk(loop.target):
            if isinstance(n, ast.Name):
                out.discard(n.id)
    return out, aug


_IT_CLS = "c2profile.StringIterator"


class _Decoder:
    """Traces of ONE symbolic iteration of the decoding loop, split into the cases the decoder itself distinguishes."""

    def __init__(self, ctx):
        self.ctx = ctx
        self.f = ctx.repo.func("c2profile.string_token_to_bytes")
        self.error = None
        self.loop = None
        self.paths = []  # paths on which the current character is consumed
        self.esc_paths = []  # ... the current character is a backslash and the character after it is read
        self.plain_paths = []  # ... the current character is anything else (a literal the decoder singles out, or "any other")
        self._shared = {}
        try:
            self._build()
        except _Unsupported as e:
            self.error = str(e)

    def _candidate_loops(self):
        fv = FuncView.of(self.f.node)
        loops = [st for st in statements(self.f.node) if isinstance(st, (ast.For, ast.While))]
        return [st for st in loops if fv.enclosing(st, (ast.For, ast.While)) is None]

    def _run(self, loop):
        shared = self._shared.setdefault(id(loop), {})

        def run(o):
            return _Dec(self.ctx, self.f, loop, o, _IT_CLS, shared).iteration()

        return _all_paths(run, limit=256)

    def _build(self):
        chosen = None
        last = None
        for loop in self._candidate_loops():
            try:
                ps = self._run(loop)
            except _Unsupported as e:
                last = e
                continue
            if any(p.events for p in ps):
                chosen = loop
                break
        if chosen is None:
            raise _Unsupported(str(last) if last else "no loop over a StringIterator found in string_token_to_bytes")
        self.loop = chosen
        self.paths = [p for p in ps if p.end != "exit" and p.read_at(0)]
        self.esc_paths = [p for p in self.paths if p.pin.get(0) == "\\" and p.read_at(1)]
        self.plain_paths = [p for p in self.paths if p.pin.get(0) != "\\"]

    def letters(self):
        """The escape letters the decoder singles out: the literals (table keys) it compares the character after a backslash with."""
        return sorted({p.pin[1] for p in self.esc_paths if 1 in p.pin})

    def other_paths(self):
        """The "any other character" case of the escape letter."""
        return [p for p in self.esc_paths if 1 not in p.pin]

    def letter_paths(self, letter):
        """The paths that apply to backslash + letter: the ones where the letter was singled out, and the "other" ones that never excluded it."""
        return [p for p in self.esc_paths if p.pin.get(1) == letter or (1 not in p.pin and letter not in p.excl.get(1, ()))]

    @staticmethod
    def _acts(p) -> bool:
        # (an availability test made before the escape letter is read cannot depend on the letter: it is not an action of the case)
        return bool(p.appends() or p.end == "raise" or any(pos >= 2 for _, pos, _ in p.reads()) or any(pos >= 2 and pos + n > 2 for _, pos, n, _ in p.checks()))

    def handled(self, letter) -> bool:
        """The decoder does something for backslash + letter (anything but silently dropping the two characters)."""
        return any(self._acts(p) for p in self.letter_paths(letter))

    def other_handled(self) -> bool:
        return any(self._acts(p) for p in self.other_paths())


def _decoder(ctx) -> _Decoder:
    d = ctx.__dict__.get("_c12_decoder")
    if d is None:
        d = _Decoder(ctx)
        ctx.__dict__["_c12_decoder"] = d
    return d


_HEX_LOWER = "0123456789abcdef"


def _hex_spellings(n, case=None):
    """Reference table: every spelling of `n` hexadecimal digits -> its value.  The documented escapes \\xHH / \\uHHHH admit the
    digits 0-9, a-f and A-F; `case` = "lower" / "upper" when the analysed code normalised the case of the digits first."""
    alphabet = {"lower": _HEX_LOWER, "upper": _HEX_LOWER.upper()}.get(case, _HEX_LOWER + "ABCDEF")
    out = {"": 0}
    for _ in range(n):
        out = {sp + ch: 16 * v + _HEX_LOWER.index(ch.lower()) for sp, v in out.items() for ch in alphabet}
    return out


def _hexbyte(v, positions):
    return isinstance(v, _Sym) and v.tag == "int" and v.args == (tuple(positions), 16)


def _low_pair(v, want):
    """Is `v` provably the value of the hex digit pair at offsets `want` (the low byte of the escape)?  True / False / None.

    Named assumption: the characters of the escape are hexadecimal digits (the documented forms \\xHH, \\uHHHH), so
    int(<n digits>, 16) ranges over exactly 0 .. 16**n - 1 and, when the digits end with the pair `want`,
      lemma L7: int(<n digits>, 16) == 256 * int(<first n-2 digits>, 16) + int(<last two digits>, 16), 0 <= low <= 255;
      hence  X & K == low for every X  iff  K & (16**n - 1) == 0xFF  (known bits: bits 0..7 must survive, bits 8..4n-1 must be
             cleared; every one of these bits is set in some X of the range and they are independent),
             X % K == low for every X  iff  K == 256 when n > 2 (X = K forces 256 | K, X = 256 then forces K == 256),
                                            K > 255 when n == 2 (x % K == x exactly when 0 <= x < K)."""
    if not isinstance(v, _Sym):
        return False
    if v.tag == "encchr":
        one = _one_byte_codec(v.args[1])
        if one is None:
            return None
        # lemma L12: latin-1 gives exactly the byte <code> for a code in 0..255 (the range of a digit pair); utf-8 / ascii never give
        # the one byte <code> for 0x80 <= code <= 0xff, and the low pair of an escape ranges over all of 0..255
        return _low_pair(v.args[0], want) if one else False
    if v.tag == "int":
        return v.args == (tuple(want), 16)
    if v.tag == "lookup":
        return False  # a table entry that differs from the value of its key (complete table comparison, see hex_lookup)
    if v.tag != "mask":
        return None
    ops = []
    while isinstance(v, _Sym) and v.tag == "mask":
        ops.append((v.args[1], v.args[2]))
        v = v.args[0]
    if not (isinstance(v, _Sym) and v.tag == "int"):
        return None
    pos, base = v.args
    n = len(pos)
    if base != 16 or n < 2 or tuple(pos) != tuple(range(pos[0], pos[0] + n)):
        return None
    if tuple(pos[-2:]) != tuple(want):
        # the digits do not end with the low pair: a mask only removes information, the low pair cannot be recovered when
        # it was not parsed at all; other arrangements are not modelled
        return False if not set(want) & set(pos) else None
    ops.reverse()  # innermost first
    if all(op == "&" for op, _ in ops):
        k = -1
        for _, c in ops:
            k &= c
        return (k & (16 ** n - 1)) == 0xFF
    if len(ops) == 1:
        k = ops[0][1]
        return k == 256 if n > 2 else k > 255
    return None


def _one_byte_codec(name):
    """Lemma L12 (reference facts about three CPython codecs, n a code point): chr(n).encode('latin-1') is the single byte n for
    0 <= n <= 255 (UnicodeEncodeError above); chr(n).encode('utf-8') is the single byte n only for n < 0x80 - from 0x80 on it is a
    sequence of two to four bytes (UnicodeEncodeError for surrogates); chr(n).encode('ascii') is the single byte n for n < 0x80 and
    raises above.  So over a code that ranges over 0..255: True (always exactly the byte <code>), False (not for codes from
    0x80 on), None (a codec that is not modelled)."""
    if name == "iso8859-1":
        return True
    if name in ("utf-8", "ascii"):
        return False
    return None


def _is_unknown(v):
    return isinstance(v, _Sym) and v.tag in ("unk", "buf")


def _is_code_of(v, pos):
    """Is `v` provably the code of the (symbolic) character at offset `pos`?  True / False / None (not understood).

    The iterator delivers characters with 0 <= ord(c) <= 255 (established separately: the `& 0xFF` obligation), so
      lemma 1: x & K == x for all 0 <= x <= 255  iff  the low eight bits of K are all set (known-bits: a cleared bit of K
               clears that bit of x, and every bit 0..7 is set in some x of the range);
      lemma 2: x % K == x for all 0 <= x <= 255  iff  K > 255 (x % K == x exactly when 0 <= x < K)."""
    if isinstance(v, _Sym) and v.tag == "ord":
        return True if v.args[0] == _char(pos) else None
    if isinstance(v, _Sym) and v.tag == "encchr":
        inner = _is_code_of(v.args[0], pos)
        one = _one_byte_codec(v.args[1])
        if inner is not True or one is None:
            return None if inner is True else inner
        return one  # lemma L12: the characters the iterator delivers have codes 0..255; utf-8 / ascii are the byte <code> only below 0x80
    if isinstance(v, _Sym) and v.tag == "mask":
        inner, op, k = v.args
        r = _is_code_of(inner, pos)
        if r is not True:
            return r
        return (k & 0xFF) == 0xFF if op == "&" else k > 255
    if isinstance(v, _Sym):
        return None
    return False


def _case_value(v, pos, literal):
    """The appended value in the case "character at `pos` == literal": the term ord(c) is the constant ord(literal) there; so is
    its encoding by an ASCII-compatible codec when the literal is an ASCII character (lemma L12)."""
    if isinstance(v, _Sym) and v.tag == "encchr" and _one_byte_codec(v.args[1]) is False and ord(literal) < 0x80 and _is_code_of(v.args[0], pos) is True:
        return ord(literal)
    return ord(literal) if _is_code_of(v, pos) is True else v


def r2(ctx):
    d = _decoder(ctx)
    f = d.f
    if d.error is not None:
        ctx.undecided("R2", "TABLE", f, "escape letters", f"the decoding loop of string_token_to_bytes is not understood by the path analysis: {d.error}")
    else:
        vocabulary = sorted(set(d.letters()) | set(tables.ESCAPES))
        table = [ch for ch in vocabulary if d.handled(ch)]
        shown = table + (["<any other character>"] if d.other_handled() else [])
        ctx.ob("R2", "TABLE", f, "escape letters", set(table) == set(tables.ESCAPES) and not d.other_handled(),
               f"decoder handles {shown}; documented set {sorted(tables.ESCAPES)}", d.loop)
        # the escape letter itself is only read when a character is left
        bad, und = [], []
        for p in d.esc_paths:
            for i, pos, n in p.uncovered_reads(1 if isinstance(d.loop, ast.For) else 0):
                if pos <= 1 < pos + n:
                    (und if p.guessed and p.guess_at <= i else bad).append("the character after a backslash is read without an availability check (a literal ending in a lone backslash fails)")
        if not d.esc_paths:
            und.append("no path on which a backslash is followed by a read of the next character")
        _verdict(ctx, "R2", "DOM", f, "escape letter read after has_next()", bad, und, "the character after the backslash is only read when has_next() holds", d.loop)
        for letter, byte in tables.ESCAPES.items():
            if letter not in table:
                continue
            paths = d.letter_paths(letter)
            if byte is not None:
                bad, und = [], []
                for p in paths:
                    apps = [_case_value(a, 1, letter) for a in p.appends()]
                    demands = [pos + n - 2 for _, pos, n, out in p.checks() if pos + n > 2 and out]
                    extra = [1 for _, pos, _ in p.reads() if pos >= 2] + [1 for _, pos, n, _ in p.checks() if pos + n > 2]
                    if p.end in ("end", "continue") and not extra and len(apps) == 1 and not isinstance(apps[0], (_Sym, bool)) and apps[0] == byte:
                        continue
                    if p.guessed or any(_is_unknown(a) for a in apps):
                        und.append(f"\\{letter}: a path depends on a condition/value that is not understood (appends {apps})")
                    elif extra and demands and len(demands) == len(extra):
                        bad.append(f"\\{letter} is only decoded when {max(demands)} more character(s) are available after the escape letter (the two-character escape at the "
                                   f"very end of a literal is not decoded)")
                    elif extra:
                        bad.append(f"\\{letter} consumes or demands characters after the escape letter")
                    elif p.end not in ("end", "continue"):
                        bad.append(f"\\{letter} ends the decoding with {p.end}")
                    else:
                        bad.append(f"\\{letter} appends {apps if len(apps) != 1 else apps[0]!r} (documented 0x{byte:02x})")
                _verdict(ctx, "R2", "TABLE", f, f"escape \\{letter}", bad, und, f"\\{letter} appends byte {byte!r} (documented 0x{byte:02x})", d.loop)
                continue
            need = 2 if letter == "x" else 4
            want = (need, need + 1)  # positions of the low byte pair: cur=0, escape letter=1, digits from 2
            start = 1 if isinstance(d.loop, ast.For) else 0
            # typestate: nothing is consumed before an availability check covering it
            bad, und = [], []
            for p in paths:
                for i, pos, n in p.uncovered_reads(start, from_pos=2):
                    if pos + n <= 2:
                        continue
                    msg = f"digits at offset {pos - 2}..{pos - 2 + n} of the escape are consumed before/without an availability check covering them (a short literal is silently mis-decoded, or a later check demands too much)"
                    (und if p.guessed and p.guess_at <= i else bad).append(msg)
            _verdict(ctx, "R2", "DOM", f, f"escape \\{letter}: has_next({need}) precedes every digit read", bad, und, "every next() of the escape is dominated by an availability check covering it", d.loop)
            bad, und = [], []
            seen_full = False
            for p in paths:
                cks = [(pos, n, out) for _, pos, n, out in p.checks() if pos + n > 2]
                over = [(pos, n) for pos, n, out in cks if pos + n > 2 + need]
                if over:
                    pos, n = over[0]
                    (und if p.guessed else bad).append(f"has_next({n}) at offset {pos - 2} of the escape demands {pos + n - 2} characters after \\{letter}, the escape has {need} (a complete escape at the end of the literal is rejected)")
                    continue
                if all(out for _, _, out in cks):
                    if p.guessed:
                        if p.end == "raise" or len(p.appends()) != 1 or _low_pair(p.appends()[0], want) is not True:
                            und.append(f"\\{letter}: a path depends on a condition that is not understood")
                        continue
                    seen_full = True
                    apps = p.appends()
                    consumed = p.pos - 2
                    notes = "".join(f" - {e[1]}" for e in p.events if e[0] == "note")
                    if p.end not in ("end", "continue"):
                        bad.append(f"\\{letter} with all {need} digits available ends with {p.end}{' ' + str(p.events[-1][1]) if p.end == 'raise' else ''}"
                                   f" (required: every spelling of the hex digits decodes to a byte){notes}")
                    elif len(apps) != 1:
                        bad.append(f"\\{letter} appends {len(apps)} values (required: exactly one byte){notes}")
                    elif any(_is_unknown(a) for a in apps):
                        und.append(f"\\{letter}: appended value not understood")
                    elif consumed != need:
                        bad.append(f"\\{letter} consumes {consumed} characters after the letter (required {need})")
                    elif _low_pair(apps[0], want) is None:
                        und.append(f"\\{letter} appends {apps[0]!r}: not known to be the value of the low digit pair")
                    elif not _low_pair(apps[0], want):
                        bad.append(f"\\{letter} appends {apps[0]!r}{notes}; required int(<characters {want[0] - 2}, {want[1] - 2} after the escape letter>, 16), the low byte pair"
                                   + (" (a constant mask / modulus over all the digits gives the low pair only if it keeps bits 0..7 and clears every higher bit: & 0xFF, % 256)" if isinstance(apps[0], _Sym) and apps[0].tag == "mask" else "")
                                   + (" (lemma L12: a text codec yields the one byte <code> only for latin-1 over a code in 0..255; utf-8 / ascii give two or more bytes or raise "
                                      "from 0x80 on, so the documented byte value - the code point & 0xFF - is not what is appended)" if isinstance(apps[0], _Sym) and apps[0].tag == "encchr" else ""))
                else:
                    # not enough characters left: ValueError, nothing appended
                    if p.end == "raise" and p.events[-1][1] == "ValueError" and not p.appends():
                        continue
                    (und if p.guessed else bad).append(f"\\{letter} on a literal that is too short ends with {p.end}{' ' + str(p.events[-1][1]) if p.end == 'raise' else ''} and appends {p.appends()} (required: ValueError, nothing appended)")
            if not seen_full and not bad and not und:
                und.append(f"no path that decodes a complete \\{letter} escape was found")
            _verdict(ctx, "R2", "TABLE", f, f"escape \\{letter}", bad, und,
                     f"\\{letter}: availability of {need} characters is checked, {need} are consumed, int(<last 2 digits>, 16) is appended, short input raises ValueError", d.loop)
        # an ordinary character is appended as its code: one case per literal the decoder singles out + "any other character"
        bad, und = [], []
        for p in d.plain_paths:
            lit = p.pin.get(0)
            who = f"character {lit!r}" if lit is not None else "a character the decoder does not single out"
            apps = p.appends()
            extra = [1 for _, pos, _ in p.reads() if pos >= 1]
            good = None
            if len(apps) == 1:
                if lit is not None:
                    apps = [_case_value(apps[0], 0, lit)]
                good = _is_code_of(apps[0], 0)
                if lit is not None and not isinstance(apps[0], (_Sym, bool)):
                    good = apps[0] == ord(lit)
            if p.end in ("end", "continue") and not extra and good is True:
                continue
            if p.guessed or any(_is_unknown(a) for a in apps) or (len(apps) == 1 and good is None):
                und.append(f"{who}: path not understood (appends {apps})")
            else:
                bad.append(f"{who} outside an escape gives {apps}{' and consumes more characters' if extra else ''}{'' if p.end in ('end', 'continue') else ' then ' + p.end} (required: its code ord(c), once)"
                           + (" - lemma L12: utf-8 / ascii give the one byte ord(c) only for codes below 0x80" if any(isinstance(a, _Sym) and a.tag == "encchr" for a in apps) else ""))
        if not d.plain_paths:
            und.append("no path for a character other than a backslash")
        bad = list(dict.fromkeys(bad))
        bad = bad[:3] + ([f"... {len(bad) - 3} more"] if len(bad) > 3 else [])
        und = list(dict.fromkeys(und))[:3]
        _verdict(ctx, "R2", "AGREE", f, "ordinary characters", bad, und, "every character other than a backslash is appended as ord(c) and nothing else is consumed", d.loop)
    _r2_mask(ctx)
    _r2_strip(ctx, f)


def _r2_mask(ctx):
    it = ctx.repo.func(_IT_CLS + ".__init__")
    fv = FuncView.of(it.node)
    ords = [n for n in ast.walk(it.node) if isinstance(n, ast.Call) and dotted(n.func) == "ord"]
    masked = 0
    for o in ords:
        p = fv.parent.get(id(o))
        if isinstance(p, ast.BinOp):
            other = p.right if p.left is o else p.left
            c = _const(other)
            if (isinstance(p.op, ast.BitAnd) and c == 0xFF) or (isinstance(p.op, ast.Mod) and c == 256 and p.left is o):
                masked += 1
    if not ords:
        ctx.undecided("R2", "AGREE", it, "chr(ord(c) & 0xFF)", "StringIterator.__init__ no longer converts characters with ord(); the reduction to one byte cannot be located")
    else:
        ctx.ob("R2", "AGREE", it, "chr(ord(c) & 0xFF)", masked > 0, "characters are reduced to one byte before decoding" if masked else "StringIterator no longer masks characters to a byte")


def _const(node):
    if isinstance(node, ast.Constant):
        return node.value
    if isinstance(node, ast.UnaryOp) and isinstance(node.op, ast.USub) and isinstance(node.operand, ast.Constant) and isinstance(node.operand.value, (int, float)):
        return -node.operand.value
    return None


def _r2_strip(ctx, f):
    """quotes are stripped before decoding: located as the argument of the StringIterator constructor"""
    text = "token.value[1:-1]"
    calls = []
    for c in [n for n in body_walk(f.node) if isinstance(n, ast.Call)]:
        try:
            r = ctx.rs.resolve_call(f, c)
            hit = r is not None and r.kind == "class" and r.fq == _IT_CLS
        except Exception:
            hit = False
        if hit or (dotted(c.func) or "").split(".")[-1] == "StringIterator":
            calls.append(c)
    if len(calls) != 1:
        ctx.undecided("R2", "AGREE", f, text, f"{len(calls)} StringIterator(...) constructions in string_token_to_bytes")
        return
    init = ctx.repo.func(_IT_CLS + ".__init__")
    b = bind_args(calls[0], init.node, skip_self=True)
    arg = list(b.values())[0] if len(b) == 1 else (calls[0].args[0] if calls[0].args else None)
    if arg is None:
        ctx.undecided("R2", "AGREE", f, text, "argument of StringIterator(...) not found")
        return
    e = inline(f.node, arg)
    tok = params(f.node)[0]

    def about_token(x):
        return any(isinstance(n, ast.Name) and n.id == tok for n in ast.walk(x))

    verdict, why = None, f"the text handed to the iterator is `{src(e)}`, which is not understood"
    # chains of strip()/removeprefix()/... and slices, outermost first
    layers, x = [], e
    while True:
        if isinstance(x, ast.Subscript) and isinstance(x.slice, ast.Slice):
            layers.append(("slice", x))
            x = x.value
        elif isinstance(x, ast.Call) and isinstance(x.func, ast.Attribute) and x.func.attr in ("strip", "lstrip", "rstrip", "removeprefix", "removesuffix"):
            layers.append((x.func.attr, x))
            x = x.func.value
        elif isinstance(x, ast.Call) and isinstance(x.func, ast.Attribute) and x.func.attr == "replace" and len(x.args) == 2 and not x.keywords \
                and all(isinstance(_const(a), str) for a in x.args) and (not layers or '"' not in _const(x.args[0]) + _const(x.args[1])):
            # a whole-text replacement applied after the delimiters were removed, or one that neither matches nor produces a
            # quote: not about the delimiters (it is judged by R5)
            x = x.func.value
        else:
            break
    if not about_token(x):
        ctx.undecided("R2", "AGREE", f, text, why)
        return
    kinds = [k for k, _ in layers]
    if any(k in ("strip", "lstrip", "rstrip") for k in kinds):
        verdict, why = False, f"`{src(e)}` strips every leading/trailing quote, also an escaped quote that ends the content"
    elif kinds == ["slice"]:
        sl = layers[0][1].slice
        lo, hi, st = _const(sl.lower) if sl.lower is not None else None, _const(sl.upper) if sl.upper is not None else None, _const(sl.step) if sl.step is not None else None
        if sl.upper is not None and hi is None and isinstance(sl.upper, ast.BinOp) and isinstance(sl.upper.op, ast.Sub) and _const(sl.upper.right) == 1 \
                and isinstance(sl.upper.left, ast.Call) and dotted(sl.upper.left.func) == "len" and sl.upper.left.args and src(sl.upper.left.args[0]) == src(layers[0][1].value):
            hi = -1
        if (sl.lower is not None and lo is None) or (sl.upper is not None and hi is None) or (sl.step is not None and st is None):
            verdict = None
        elif (lo, hi) == (1, -1) and st in (None, 1):
            verdict, why = True, "the surrounding quotes are stripped, nothing else"
        else:
            verdict, why = False, f"`{src(e)}` does not strip exactly the two surrounding quotes (required [1:-1])"
    elif sorted(kinds) == ["removeprefix", "removesuffix"] and all(len(c.args) == 1 and _const(c.args[0]) == '"' for _, c in layers):
        verdict, why = True, "exactly one quote is removed at each end"
    elif not kinds:
        verdict, why = False, f"`{src(e)}`: the surrounding quotes are not stripped before decoding"
    if verdict is None:
        ctx.undecided("R2", "AGREE", f, text, why, calls[0])
    else:
        ctx.ob("R2", "AGREE", f, text, verdict, why, calls[0])


def r3(ctx):
    d = _decoder(ctx)
    if d.error is not None:
        ctx.undecided("R3", "VOCAB", d.f, "encoder output accepted", f"the decoder's escape table cannot be extracted: {d.error}")
        return
    # what CPython's repr(bytes) with single-quote delimiter can emit after a backslash, plus the encoder's own \" :
    emitted = {"x", "n", "r", "t", "\\", "'", '"'}
    miss = sorted(ch for ch in emitted if not d.handled(ch))
    ctx.ob("R3", "VOCAB", d.f, "encoder output accepted", not miss, f"escape letters value_to_string can emit (\\xHH \\n \\r \\t \\\\ \\' \\\") not handled by the decoder: {miss}")


# ============================================================================================ the accumulator is private to the call
_IMMUTABLE_CTORS = {"bytes", "str", "tuple", "frozenset", "int"}


def _storage(ctx, f, e, names, depth=0):
    """Where the object the expression `e` (in function `f`) evaluates to lives - decided on the syntax of its definitions:
    [("fresh" | "immutable" | "shared" | "unknown", description)], one entry per definition that may flow into it.

    fresh      a display / comprehension / arithmetic result / call result: created by this evaluation, nobody else holds it
               (named assumption: a constructor or library call returns a new object; a call of a package function is `unknown`);
    immutable  a constant: cannot be modified in place, `x += ..` rebinds the local name;
    shared     an object bound at module level (or an attribute / element of one, or a mutable parameter default - evaluated once
               when the `def` runs): it outlives the call and every call sees the same object;
    unknown    a parameter supplied by the caller, an imported name, anything else.
    `names` collects the names the object is reachable through in `f` (the local aliases and the module-level name)."""
    if depth > 8:
        return [("unknown", src(e)[:40])]
    if isinstance(e, ast.Constant):
        return [("immutable", src(e)[:40])]
    if isinstance(e, ast.Tuple):
        return [("immutable", "a tuple")]
    if isinstance(e, (ast.List, ast.Dict, ast.Set, ast.ListComp, ast.SetComp, ast.DictComp, ast.GeneratorExp, ast.JoinedStr, ast.BinOp, ast.UnaryOp, ast.Compare)):
        return [("fresh", src(e)[:40])]
    if isinstance(e, ast.IfExp):
        return _storage(ctx, f, e.body, names, depth + 1) + _storage(ctx, f, e.orelse, names, depth + 1)
    if isinstance(e, ast.BoolOp):
        return [x for v in e.values for x in _storage(ctx, f, v, names, depth + 1)]
    if isinstance(e, ast.NamedExpr):
        return _storage(ctx, f, e.value, names, depth + 1)
    if isinstance(e, ast.Call):
        try:
            c = ctx.rs.resolve_call(f, e)
        except Exception:
            c = None
        if c is not None and getattr(c, "kind", None) == "func":
            return [("unknown", f"the result of {src(e.func)[:40]}()")]
        return [("fresh", src(e)[:40])]
    mod = f.module
    local = set(params(f.node))
    for st in statements(f.node):
        for n in ast.walk(st):
            if isinstance(n, ast.Name) and isinstance(n.ctx, ast.Store):
                local.add(n.id)
    declared_global = {g for st in statements(f.node) if isinstance(st, ast.Global) for g in st.names}
    local -= declared_global
    if isinstance(e, ast.Name):
        if e.id in local:
            names.add(e.id)
            out = []
            if e.id in params(f.node):
                dflt = param_defaults(f.node).get(e.id)
                if dflt is None or (isinstance(dflt, ast.Constant) and dflt.value is None):
                    out.append(("unknown", f"the argument `{e.id}` of the caller"))
                else:
                    for k, what in _storage(ctx, f, dflt, set(), depth + 1):
                        out.append(("shared", f"the default value `{src(dflt)[:30]}` of parameter `{e.id}` (evaluated once, when the function is defined)") if k == "fresh" else (k, what))
            for _st, v in assignments_to(f.node, e.id):
                if v is None:
                    continue
                out.extend(_storage(ctx, f, v, names, depth + 1))
            return out or [("unknown", e.id)]
        if e.id in mod.consts:
            names.add(e.id)
            v = mod.consts[e.id]
            if isinstance(v, ast.Constant) or (isinstance(v, ast.Tuple) and all(isinstance(x, ast.Constant) for x in v.elts)) \
                    or (isinstance(v, ast.Call) and dotted(v.func) in _IMMUTABLE_CTORS):
                return [("immutable", f"the module-level constant `{e.id}`")]
            return [("shared", f"the module-level object `{e.id} = {src(v)[:40]}`")]
        if e.id in mod.funcs or e.id in mod.classes:
            return [("shared", f"the module-level definition `{e.id}`")]
        return [("unknown", f"the name `{e.id}`")]
    if isinstance(e, (ast.Attribute, ast.Subscript)):
        root = e
        while isinstance(root, (ast.Attribute, ast.Subscript)):
            root = root.value
        if isinstance(root, ast.Name) and root.id not in local and (root.id in mod.consts or root.id in mod.funcs or root.id in mod.classes):
            return [("shared", f"`{src(e)[:40]}`, part of the module-level object `{root.id}`")]
        return [("unknown", f"`{src(e)[:40]}`")]
    return [("unknown", src(e)[:40])]


def _empties(st, names) -> bool:
    """`st` leaves the object held by one of `names` empty: X.clear(), del X[:], X[:] = <empty display / constant>."""
    def full_slice(t):
        return isinstance(t, ast.Subscript) and isinstance(t.value, ast.Name) and t.value.id in names and isinstance(t.slice, ast.Slice) \
            and t.slice.lower is None and t.slice.upper is None and t.slice.step is None

    if isinstance(st, ast.Expr) and isinstance(st.value, ast.Call) and isinstance(st.value.func, ast.Attribute) and st.value.func.attr == "clear" \
            and isinstance(st.value.func.value, ast.Name) and st.value.func.value.id in names and not st.value.args and not st.value.keywords:
        return True
    if isinstance(st, ast.Delete) and len(st.targets) == 1 and full_slice(st.targets[0]):
        return True
    if isinstance(st, ast.Assign) and len(st.targets) == 1 and full_slice(st.targets[0]):
        v = st.value
        return (isinstance(v, (ast.List, ast.Tuple)) and not v.elts) or (isinstance(v, ast.Constant) and v.value in (b"", ""))
    return False


def _exit_graph(cfg, fv, exits):
    """The control-flow graph with the ways out of a `try` made precise (the engine's graph also gives every `raise` / `return` inside
    a try statement a direct edge to the function's exit, which is right for dominance questions but not for "is this statement
    passed on the way out"): a `return` / `raise` in the body, a handler or the else-branch of a try with a `finally` leaves through that
    finally block; a `raise` in the body of a try whose handlers catch its class (a bare except, the same name, or a builtin
    superclass) goes to the handlers only."""
    import builtins

    g = cfg.g.copy()

    def catches(h, exc):
        if h.type is None:
            return True
        for n in (h.type.elts if isinstance(h.type, ast.Tuple) else [h.type]):
            name = (dotted(n) or "?").split(".")[-1]
            if exc is not None and name == exc.split(".")[-1]:
                return True
            a, b = getattr(builtins, (exc or "?").split(".")[-1], None), getattr(builtins, name, None)
            if isinstance(a, type) and isinstance(b, type) and issubclass(a, b):
                return True
        return False

    for st in exits:
        n = cfg.node(st)
        direct = RAISE if isinstance(st, ast.Raise) else EXIT
        child = st
        for t in fv.ancestors(st):
            if isinstance(t, ast.Try) or t.__class__.__name__ == "TryStar":
                in_final = any(child is x for x in t.finalbody)
                in_body = any(child is x for x in t.body)
                if not in_final and t.finalbody:
                    if g.has_edge(n, direct):
                        g.remove_edge(n, direct)
                    g.add_edge(n, ("fin", id(t)))
                    break
                if in_body and isinstance(st, ast.Raise) and st.exc is not None and any(catches(h, raise_class(st)) for h in t.handlers):
                    if g.has_edge(n, direct):
                        g.remove_edge(n, direct)
                    break
            child = t
    # exceptions raised implicitly by the operations of a statement are not modelled by this rule (they make it undecided, see r6):
    # drop the engine's "any statement inside a try may raise" edges - the ones into a handler / a finally entry / the exceptional
    # exit that do not start at a `raise` statement or at the end of a finally block (an exception passing through it)
    def in_finally(n):
        st = cfg.stmt.get(n)
        if st is None and len(n) >= 2 and n[0] == "e":
            st = cfg.stmt.get(("s", n[1]))
        if st is None:
            return False
        child = st
        for t in fv.ancestors(st):
            if (isinstance(t, ast.Try) or t.__class__.__name__ == "TryStar") and any(child is x for x in t.finalbody):
                return True
            child = t
        return False

    for u, v in list(g.edges()):
        exceptional = v == RAISE or (len(v) >= 1 and v[0] == "fin") or isinstance(cfg.stmt.get(v), ast.ExceptHandler)
        if exceptional and not isinstance(cfg.stmt.get(u), ast.Raise) and not in_finally(u):
            g.remove_edge(u, v)
    return g


def _reaches(g, a, b, avoiding) -> bool:
    avoid = set(avoiding) - {a, b}
    seen, stack = {a}, [a]
    while stack:
        x = stack.pop()
        for y in g.successors(x):
            if y == b:
                return True
            if y not in seen and y not in avoid:
                seen.add(y)
                stack.append(y)
    return False


def r6(ctx):
    """Decoding is a function of the literal alone: the object the decoding loop appends the bytes to is created by the call - or, when
    it outlives the call, it is emptied before the loop on every path (or on every way out of the function)."""
    d = _decoder(ctx)
    f = d.f
    text = "output accumulator private to the call"
    if d.error is not None:
        ctx.undecided("R6", "ALIAS", f, text, f"the decoding loop is not understood by the path analysis ({d.error}): the object it appends to cannot be located")
        return
    recv = sorted(d._shared.get(id(d.loop), {}).get("receivers", ()))
    if not recv:
        ctx.undecided("R6", "ALIAS", f, text, "no object the decoding loop appends the decoded bytes to was located")
        return
    fv = FuncView.of(f.node)
    cfg = ctx.cfg(f)
    if not cfg.has(d.loop):
        ctx.undecided("R6", "ALIAS", f, text, "the decoding loop is not a statement of the function's control-flow graph")
        return
    loopn = cfg.node(d.loop)

    def in_loop(st):
        return st is d.loop or any(a is d.loop for a in fv.ancestors(st))

    bad, und, good = [], [], []
    for x in recv:
        names = set()
        kinds = _storage(ctx, f, ast.Name(id=x, ctx=ast.Load()), names)
        # definitions of the name inside the loop (`x += ..` rebinding an immutable value) are the accumulation itself
        shared = [w for k, w in kinds if k == "shared"]
        unknown = [w for k, w in kinds if k == "unknown"]
        if not shared:
            if unknown:
                und.append(f"the decoding loop appends to {unknown[0]}; where that object lives is not known")
            else:
                good.append("defined as " + ", ".join(f"`{w}`" for w in dict.fromkeys(w for _k, w in kinds)))
            continue
        what = shared[0]
        resets = [st for st in statements(f.node) if _empties(st, names) and cfg.has(st)]
        rnodes = [cfg.node(st) for st in resets]
        if any(not in_loop(st) and cfg.dominates(cfg.node(st), loopn) for st in resets):
            good.append(f"{what}, emptied before the loop on every path")
            continue
        writers = []
        for st in statements(f.node):
            if not in_loop(st) or st is d.loop or not cfg.has(st):
                continue
            if isinstance(st, ast.AugAssign) and isinstance(st.target, ast.Name) and st.target.id == x:
                writers.append(st)
            elif isinstance(st, ast.Expr) and any(isinstance(c, ast.Call) and isinstance(c.func, ast.Attribute) and isinstance(c.func.value, ast.Name) and c.func.value.id == x
                                                  and c.func.attr in ("append", "extend") for c in ast.walk(st.value)):
                writers.append(st)
        if not writers:
            und.append(f"the decoding loop appends to {what}, but the appending statements were not located in the control-flow graph")
            continue
        leak = None
        exits = [st for st in statements(f.node) if isinstance(st, (ast.Raise, ast.Return)) and cfg.has(st)]
        g = _exit_graph(cfg, fv, exits)
        for w in writers:
            wn = cfg.node(w)
            for out in (RAISE, EXIT):
                if _reaches(g, wn, out, rnodes):
                    via = [st for st in exits if cfg.node(st) not in rnodes and (st is w or _reaches(g, wn, cfg.node(st), rnodes))
                           and _reaches(g, cfg.node(st), out, rnodes) and isinstance(st, ast.Raise if out is RAISE else ast.Return)]
                    leak = (out, via[0] if via else None)
                    break
            if leak:
                break
        if leak is not None:
            out, via = leak
            how = f"`{src(via)[:70]}`" if via is not None else ("an exception" if out is RAISE else "the end of the function")
            bad.append(f"the decoding loop appends the decoded bytes to {what}: that object outlives the call and is shared by all calls; it is not emptied before the loop, and "
                       f"a call can leave the function through {how} after appending without emptying it"
                       + (f" (it is emptied only at `{src(resets[0])[:40]}`)" if resets else " (it is never emptied)")
                       + " - the next literal is decoded with those stale bytes in front, so the result is no longer a function of the literal alone")
            continue
        covered = False
        for t in fv.ancestors(d.loop):
            if isinstance(t, ast.Try) and any(st is r or any(a is r for a in ast.walk(st)) for st in t.finalbody for r in resets):
                covered = True
        if covered:
            good.append(f"{what}, emptied in a `finally` that covers the loop")
        else:
            und.append(f"the decoding loop appends to {what}, which outlives the call; every explicit way out of the function empties it, but exceptions raised by the "
                       f"operations inside the loop (int(), ord() ...) are not modelled and no `finally` covers the loop")
    _verdict(ctx, "R6", "ALIAS", f, text, bad, und,
             "the object the decoding loop appends to is created by the call (or emptied before the loop): " + "; ".join(dict.fromkeys(good)), d.loop)


# ============================================================================================ whole-text rewriting around the decoder
class _Txt(_Enc):
    """Path-wise value flow of string_token_to_bytes from its entry up to the decoding loop, under the named assumption that the
    argument is a STRING token (`isinstance(token, Token)` holds, `token.type` equals "STRING").  The text of the literal is the
    symbolic term `text`; slices / replacements / conversions applied to it build terms exactly as in the encoder analysis.
    A test `<constant> in <term over the text>` forks the path and is remembered as a fact of the path.  The walk of a path
    ends at the first data-dependent loop (the decoding loop - analysed by `_Dec`) or at a `return`; a `for` over a constant
    table of the analysed code is its body once per entry (constant propagation of the table, not a loop over data)."""

    shape_tests = False

    def __init__(self, ctx, f, oracle, loop=None):
        _Enc.__init__(self, ctx, f, oracle, "Token")
        self.loop = loop  # the decoding loop `_Decoder` analysed (None: not understood - the first data-dependent loop ends the walk)
        self.text = _Sym("text", (), "str")
        self.facts = []  # (term, constant, holds)
        self.sinks = []  # terms handed to the StringIterator constructor

    def isinstance_of(self, e, value, types_node):
        if value == self.param:
            nodes = types_node.elts if isinstance(types_node, (ast.Tuple, ast.List)) else [types_node]
            names = [(dotted(n) or "?").split(".")[-1] for n in nodes]
            # named assumption: the argument is a lark Token (a str subclass); nothing else is known about its class
            return True if "Token" in names or "str" in names else None
        return _Enc.isinstance_of(self, e, value, types_node)

    def over_text(self, v, depth=0) -> bool:
        if not isinstance(v, _Sym) or depth > 40:
            return False
        return v.tag == "text" or any(self.over_text(a, depth + 1) for a in v.args)

    def as_str(self, v):
        if v == self.param:
            return self.text  # a lark Token is a str: str(token) is its text
        return _Enc.as_str(self, v)

    def ev_Attribute(self, e):
        v = self.ev(e.value)
        if v == self.param and e.attr == "value":
            return self.text
        if v == self.param and e.attr == "type":
            return _Sym("toktype", (), "str")
        return self.unk(e)

    def sym_subscript(self, e, base, idx, is_slice):
        if base == self.param:
            base = self.text
        return _Enc.sym_subscript(self, e, base, idx, is_slice)

    def sym_compare(self, op, a, b):
        for x, y in ((a, b), (b, a)):
            if isinstance(x, _Sym) and x.tag == "toktype" and isinstance(op, (ast.Eq, ast.NotEq)) and isinstance(y, str):
                return (y == "STRING") == isinstance(op, ast.Eq)  # named assumption: the token is a STRING token
        if isinstance(a, _Sym) and a.tag == "toktype" and isinstance(op, (ast.In, ast.NotIn)) and isinstance(b, (list, tuple, set, frozenset)) and _concrete(b):
            return ("STRING" in b) == isinstance(op, ast.In)
        if isinstance(op, (ast.In, ast.NotIn)) and isinstance(a, str) and isinstance(b, _Sym) and b.typ == "str" and self.over_text(b):
            holds = self.o.decide()  # a data fork: literals with and without the substring both exist
            self.facts.append((b, a, holds))
            return holds == isinstance(op, ast.In)
        if isinstance(op, (ast.Eq, ast.NotEq)):
            for x, y in ((a, b), (b, a)):
                if y == "" and isinstance(y, str) and isinstance(x, _Sym):
                    nonempty = self.emptiness(x)  # `<text> == ""`: the same fork as its truth value
                    if nonempty is not None:
                        return (not nonempty) == isinstance(op, ast.Eq)
        return _Sym("unk", ("cmp",))

    def emptiness(self, v):
        """`v` is the text of the token or a constant slice of it: whether it is empty is a data fork (the literal `""` is a STRING token -
        it is what the encoder emits for b'' - and so is every longer one), kept as the fact (term, _EMPTY, <is empty>)."""
        if isinstance(v, _Sym) and v.typ == "str" and (v.tag == "text" or (_net_slice(v) is not None and isinstance(_net_slice(v)[2], _Sym) and _net_slice(v)[2].tag == "text")):
            nonempty = self.o.decide()
            self.facts.append((v, _EMPTY, not nonempty))
            return nonempty
        return None

    def sym_truth(self, v):
        return self.emptiness(v)

    def sym_comp(self, e, seq):
        if self.over_text(seq):
            return _Sym("opaque", (src(e)[:60], seq), None)  # a per-character conversion of (a term over) the text
        return _NOHOOK

    def call_hook(self, e):
        if _is_iter_ctor(self.ctx, self.f, e):
            init = self.ctx.repo.func(_IT_CLS + ".__init__") if self.ctx.repo.has_func(_IT_CLS + ".__init__") else None
            node = None
            if init is not None:
                b = bind_args(e, init.node, skip_self=True)
                node = list(b.values())[0] if len(b) == 1 else None
            if node is None and e.args:
                node = e.args[0]
            self.sinks.append(self.ev(node) if node is not None else self.unk(e))
            return _ITER
        return _Enc.call_hook(self, e)

    def st_For(self, st):
        if st is self.loop:
            self.ev(st.iter)
            raise _Flow("loop", None)
        seq = self.ev(st.iter)
        if not isinstance(seq, _Sym) and _concrete(seq) and type(seq) in (type({}.items()), type({}.keys()), type({}.values()), set, frozenset):
            seq = sorted(seq, key=repr) if isinstance(seq, (set, frozenset)) else list(seq)
        if isinstance(seq, (list, tuple, str, bytes, range, dict)) and _concrete(seq) and len(seq) <= 64 and not st.orelse:
            for x in seq:
                self.bind(st.target, x)
                try:
                    self.block(st.body)
                except _Flow as fl:
                    if fl.kind == "break":
                        break
                    if fl.kind != "continue":
                        raise
            return
        if self.loop is not None:
            raise _Unsupported(f"a loop over `{src(st.iter)[:40]}` before the decoding loop")
        raise _Flow("loop", seq)

    def st_While(self, st):
        if self.loop is not None and st is not self.loop:
            raise _Unsupported("a while loop before the decoding loop")
        raise _Flow("loop", None)

    st_AsyncFor = st_While

    def st_With(self, st):
        raise _Unsupported("with statement")


def _is_iter_ctor(ctx, f, e) -> bool:
    try:
        c = ctx.rs.resolve_call(f, e)
        if c is not None and c.kind == "class" and c.fq == _IT_CLS:
            return True
    except Exception:
        pass
    return (dotted(e.func) or "").split(".")[-1] == _IT_CLS.split(".")[-1]


def _text_paths(ctx, f, loop=None):
    """[(end kind, value, guessed, facts, sinks)] for the paths of `f` up to the decoding loop."""
    def run(o):
        it = _Txt(ctx, f, o, loop)
        try:
            it.block(f.node.body)
            res = ("return", None)
        except _Flow as fl:
            res = (fl.kind, fl.value)
        return res[0], res[1], it.guess_at is not None, list(it.facts), list(it.sinks)

    return _all_paths(run, limit=256)


def _peel_text(x):
    """Unary transformations on top of (a slice of) the literal's text -> (passes in the order they are applied, core).
    A pass is ("rep", a, b) for a whole-text str.replace / literal re.sub, or ("other", description)."""
    passes = []
    while isinstance(x, _Sym):
        if x.tag == "rep":
            passes.append(("rep", x.args[1], x.args[2]))
            x = x.args[0]
        elif x.tag == "condrep":
            passes.append(("other", f"conditional replace {x.args[1]} -> {x.args[2]}"))
            x = x.args[0]
        elif x.tag == "fmt" and isinstance(x.args[0], _Sym):
            x = x.args[0]
        elif x.tag == "codec":
            passes.append(("conv", f".{x.args[1]}({x.args[2]!r})"))
            x = x.args[0]
        elif x.tag == "opaque" and len([a for a in x.args[1:] if isinstance(a, _Sym)]) == 1:
            passes.append(("conv", x.args[0]))
            x = [a for a in x.args[1:] if isinstance(a, _Sym)][0]
        else:
            break
    passes.reverse()
    return passes, x


def _text_subject(term, witness):
    """The constant a fact about `term` talks about when the content of the literal is `witness`: the whole token text for
    `text`, the content for text[1:-1]; None for any other term."""
    if isinstance(term, _Sym) and term.tag == "text":
        return '"' + witness + '"'
    ns = _net_slice(term)
    if ns is not None and ns[:2] == (1, -1) and isinstance(ns[2], _Sym) and ns[2].tag == "text":
        return witness
    return None


def _admits(facts, witness):
    """Do the facts of a path (outcomes of `<constant> in <text>` tests) admit the literal content `witness`?  True / False / None.
    (`S in T` holds for T = W iff the constant S is a substring of the constant W - both are constants of the analysed code /
    of the lemma, nothing of /repo is evaluated.)"""
    for term, const, holds in facts:
        subj = _text_subject(term, witness)
        if subj is None:
            return None
        if ((subj == "") if const is _EMPTY else (const in subj)) != holds:
            return False
    return True


_EMPTY = _Sym("empty")  # marker of the fact "<term over the text> is the empty string"


def _judge_passes(passes, facts, loop_letters, via_loop):
    """Whole-text replacement passes applied to the text of a literal (before the decoding loop when `via_loop`, else as a
    decoder of their own): (bad, und).

    Token structure of a literal's content (the property's syntax; it is what the encoder emits): a sequence of tokens, each a
    plain character or a backslash followed by a letter (plus the hex digits of \\x / \\u); a backslash always starts a token
    and the backslash byte is the pair backslash + backslash; an unescaped double quote cannot occur.

    Lemma L8 (str.replace scans left to right, non-overlapping):
     (a) the pattern backslash + backslash matches exactly the escaped-backslash tokens (at a token boundary a pair backslash + X,
         X not a backslash, matches neither at its first nor at its second character);
     (b) a pattern backslash + X (X not a backslash, X a character that can be a plain token) applied while escaped backslashes are
         still pairs matches inside the content  backslash backslash X  at the SECOND backslash: the escaped backslash is split
         and (backslash byte, X) is decoded as something else;
     (c) applied after the pass backslash backslash -> backslash, the same pattern matches the backslash that pass produced
         followed by the plain X (re-scan): wrong as well - so no order of such passes decodes both the escaped backslash and
         backslash + X; the same holds when the decoding loop runs after a pass that produced a backslash;
     (d) backslash + double quote only ever matches its own token (the quote is never a plain token inside a literal)."""
    bad, und = [], []
    bs_done = None  # replacement text of an earlier pass for the escaped backslash
    unknown = None  # an earlier pass after which the token structure is not known
    interprets = [i for i, p in enumerate(passes) if p[0] == "rep" and len(p[1]) == 2 and p[1][0] == "\\" and p[1][1] != "\\"]
    for i, p in enumerate(passes):
        if p[0] == "conv":
            continue
        if p[0] == "other":
            und.append(f"the text of the literal passes through a {p[1]}, which is not understood")
            unknown = p[1]
            continue
        a, b = p[1], p[2]
        if not a or a == b:
            continue
        shown = f"replace({a!r}, {b!r})"
        if unknown is not None:
            und.append(f"{shown} is applied to text that was rewritten before in a way that is not understood")
            continue
        if a == "\\\\":
            later = via_loop or any(j > i for j in interprets)
            if b == "\\" and later:
                nxt = [passes[j][1][1] for j in interprets if j > i and passes[j][1][1] != '"'] or sorted(x for x in loop_letters if x.isalpha())[:1] or ["n"]
                w = "\\\\" + nxt[0]
                adm = _admits(facts, w)
                msg = (f"{shown} is applied to the whole text before {'the decoding loop' if not [j for j in interprets if j > i] else 'the replacement of backslash + ' + repr(nxt[0])}: "
                       f"the backslash it produces is scanned again as the start of an escape, so the content {w!r} (backslash byte, {nxt[0]!r}) decodes to something else")
                (bad if adm else und).append(msg if adm else msg + " - not known whether the conditions of the path admit such a literal")
                bs_done = b
            elif "\\" in b and later:
                und.append(f"{shown} produces a backslash that a later stage interprets; the decoded value is not worked out")
                unknown = shown
            else:
                bs_done = b
                if "\\" not in b and b != "\\":
                    unknown = shown
            continue
        if len(a) == 2 and a[0] == "\\":
            ch = a[1]
            if ch == '"':
                if b != '"':
                    und.append(f"{shown}: the escaped double quote is rewritten to {b!r}; not worked out")
                    unknown = shown
                continue
            w = "\\\\" + ch
            adm = _admits(facts, w)
            if bs_done is None:
                msg = (f"{shown} is applied to the whole text: in the content {w!r} (an escaped backslash followed by the plain character {ch!r}, what the encoder emits for "
                       f"the bytes backslash + {ch!r}) it matches at the second backslash, so the escaped backslash is split and the bytes are not (0x5c, 0x{ord(ch):02x})")
            elif bs_done == "\\":
                msg = (f"{shown} is applied after the escaped backslash was already replaced by a backslash: in the content {w!r} that backslash followed by the plain {ch!r} "
                       f"is scanned again as an escape")
            else:
                und.append(f"{shown} after the escaped backslash was rewritten to {bs_done!r}: not worked out")
                continue
            if b[:1] == "\\":
                und.append(msg + "; the replacement starts with a backslash itself - the decoded value is not worked out")
                unknown = shown
            elif adm:
                bad.append(msg)
            else:
                und.append(msg + " - not known whether the conditions of the path admit such a literal")
            continue
        und.append(f"the text of the literal is additionally rewritten ({shown}); not known to keep the decoded bytes")
        unknown = shown
    return bad, und


def r5(ctx):
    """The decoding loop is the only decoder: what reaches it, and what is returned without it."""
    d = _decoder(ctx)
    f = d.f
    t_sink, t_exit = "whole-text rewriting before the decoding loop", "STRING tokens are decoded by the loop on every path"
    t_type = "a value returned for a STRING token before the loop is bytes"
    try:
        paths = _text_paths(ctx, f, d.loop if d.error is None else None)
    except _Unsupported as e:
        for text, kind in ((t_sink, "ESC"), (t_exit, "EXIT"), (t_type, "API")):
            ctx.undecided("R5", kind, f, text, f"string_token_to_bytes is not understood by the path-wise value-flow analysis ({e})")
        return
    letters = set(d.letters()) if d.error is None else {k for k in tables.ESCAPES}
    s_bad, s_und, s_seen = [], [], 0
    e_bad, e_und, e_seen = [], [], 0
    t_bad, t_und, t_seen = [], [], 0
    loops = 0
    for kind, val, guessed, facts, sinks in paths:
        for sink in sinks:
            passes, core = _peel_text(sink)
            ns = _net_slice(core)
            if ns is None or not (isinstance(ns[2], _Sym) and ns[2].tag == "text"):
                if any(p[0] != "conv" for p in passes):
                    s_und.append(f"the text handed to the iterator is {_show(sink)[:80]}, which is not understood")
                continue
            s_seen += 1
            bad, und = _judge_passes([p for p in passes], facts, letters, True)
            if any(p[0] == "conv" for p in passes):
                und.append(f"the text handed to the iterator is converted first ({[p[1] for p in passes if p[0] == 'conv'][0]}); not understood")
            (s_und if guessed else s_bad).extend(bad)
            s_und.extend(und)
        if kind == "loop":
            loops += 1
            continue
        if kind != "return":
            e_und.append(f"a path for a STRING token ends with {kind} before the decoding loop; whether a valid literal can take it is not worked out")
            continue
        if val == _Sym("param", (), "Token"):
            if not guessed:
                e_bad.append("a STRING token is returned undecoded (as the token itself) on a path that does not depend on an unknown condition")
            else:
                e_und.append("on a condition that is not understood a STRING token is returned as it is")
            continue
        e_seen += 1
        # ---- whatever is returned for a STRING token is a bytes object (the property compares it with the encoded bytes: '' != b'')
        vt = val.typ if isinstance(val, _Sym) else type(val).__name__
        if vt == "bytes":
            t_seen += 1
        elif vt == "str":
            wits = [""] + [("\\" + k) for k, byte in tables.ESCAPES.items() if byte is not None] + [c for _t, c, h in facts if isinstance(c, str) and h]
            adm = [_admits(facts, w) for w in wits]
            shown = "the empty content" if True in adm and wits[adm.index(True)] == "" else f"the content {wits[adm.index(True)]!r}" if True in adm else ""
            msg = (f"a path that returns before the decoding loop returns {_show(val)[:60]} - characters of the token's text, a str - where the decoded value must be a bytes object "
                   f"(a str never equals the bytes that were encoded: '' != b'')")
            if guessed:
                t_und.append(msg + "; the path is taken on a condition that is not understood")
            elif True in adm:
                t_bad.append(msg + f"; the conditions of the path admit a STRING token (e.g. {shown})")
            else:
                t_und.append(msg + "; whether a valid literal satisfies the conditions of the path is not worked out")
        else:
            t_und.append(f"a path that returns before the decoding loop returns {_show(val)[:60]}, whose type is not known")
        passes, core = _peel_text(val)
        ns = _net_slice(core)
        if ns is None or not (isinstance(ns[2], _Sym) and ns[2].tag == "text"):
            e_und.append(f"a STRING token makes the function return {_show(val)[:80]} without the decoding loop; that value is not understood")
            continue
        if guessed:
            e_und.append(f"on a condition that is not understood the function returns {_show(val)[:80]} without the decoding loop")
            continue
        reps = [p for p in passes if p[0] != "conv"]
        bad, und = _judge_passes(passes, facts, letters, False)
        if bad:
            e_bad.extend(f"a path returns the text decoded by whole-text replacements instead of the decoding loop: {b}" for b in bad)
            continue
        if und or reps:
            e_und.extend(und or ["a path decodes the text by whole-text replacements instead of the loop; not worked out"])
            continue
        # no rewriting at all: the characters of the text are returned as they are - correct only for a text without escapes
        wit = [("\\" + k) for k, byte in tables.ESCAPES.items() if byte is not None]
        adm = [_admits(facts, w) for w in wit]
        if any(a is True for a in adm):
            w = wit[adm.index(True)]
            e_bad.append(f"a path returns the characters of the text ({_show(val)[:60]}) without the decoding loop although its conditions admit a literal with escapes "
                         f"(e.g. the content {w!r}): the escape is not decoded")
        elif any(a is None for a in adm):
            e_und.append(f"a path returns {_show(val)[:60]} without the decoding loop; its conditions are not understood")
        else:
            e_und.append(f"a path returns {_show(val)[:60]} for a text without escapes instead of running the decoding loop; that conversion is not analysed")
    if d.error is not None:
        for und in (s_und, e_und):
            und.append(f"the decoding loop itself is not understood ({d.error}): only what happens before the first loop was looked at")
    if not s_seen and not s_bad and not s_und:
        s_und.append("the text handed to the decoding loop could not be located" if loops else "no path reaches a decoding loop")
    _verdict(ctx, "R5", "ESC", f, t_sink, s_bad, s_und, "the decoding loop receives (a slice of) the token's text; no whole-text replacement is applied to it first", d.loop)
    if not loops and not e_bad and not e_und:
        e_und.append("no path reaches a decoding loop")
    _verdict(ctx, "R5", "EXIT", f, t_exit, e_bad, e_und, "under the assumption that the argument is a STRING token every path runs the decoding loop; nothing is returned before it", d.loop)
    _verdict(ctx, "R5", "API", f, t_type, t_bad, t_und,
             "no path returns a value for a STRING token before the decoding loop" if not t_seen else f"{t_seen} path(s) return before the decoding loop, each a bytes value", d.loop, nontrivial=False)


# ============================================================================================ the STRING terminal
_MAXCP = 0x10FFFF


def _merge(ivs):
    out = []
    for lo, hi in sorted(ivs):
        if out and lo <= out[-1][1] + 1:
            out[-1] = (out[-1][0], max(out[-1][1], hi))
        else:
            out.append((lo, hi))
    return out


def _complement(ivs):
    out, nxt = [], 0
    for lo, hi in _merge(ivs):
        if lo > nxt:
            out.append((nxt, lo - 1))
        nxt = hi + 1
    if nxt <= _MAXCP:
        out.append((nxt, _MAXCP))
    return out


def _char_class(items, sc, dotall=False):
    """Abstract value of a regex fragment (parsed syntax tree) that consumes exactly one character: (intervals, categories) -
    a union of code point intervals and of named character categories, the latter kept symbolic.  None when the fragment
    is not of that kind or uses something that is not modelled (inline flags, a negated class containing a category)."""
    items = list(items)
    if len(items) != 1:
        return None
    op, av = items[0]
    if op is sc.SUBPATTERN:
        if (av[1] | av[2]) & ~sc.SRE_FLAG_DOTALL:
            return None  # scoped flags other than (?s: ) / (?-s: ) are not modelled
        if av[1] & sc.SRE_FLAG_DOTALL:
            dotall = True
        if av[2] & sc.SRE_FLAG_DOTALL:
            dotall = False
        return _char_class(av[3], sc, dotall)
    if op is sc.BRANCH:
        ivs, cats = [], set()
        for alt in av[1]:
            r = _char_class(alt, sc, dotall)
            if r is None:
                return None
            ivs += r[0]
            cats |= r[1]
        return _merge(ivs), cats
    if op is sc.ANY:
        return ([(0, _MAXCP)] if dotall else [(0, 9), (11, _MAXCP)]), set()  # `.` is every character but the newline (code 10) unless DOTALL
    if op is sc.LITERAL:
        return [(av, av)], set()
    if op is sc.NOT_LITERAL:
        return _complement([(av, av)]), set()
    if op is sc.IN:
        neg, ivs, cats = False, [], set()
        for iop, iav in av:
            if iop is sc.NEGATE:
                neg = True
            elif iop is sc.LITERAL:
                ivs.append((iav, iav))
            elif iop is sc.RANGE:
                ivs.append((iav[0], iav[1]))
            elif iop is sc.CATEGORY:
                cats.add(iav)
            else:
                return None
        if neg:
            if cats:
                return None
            return _complement(ivs), set()
        return _merge(ivs), cats
    return None


def _matches_every_char(cls, sc):
    """True / False / None: does the class (value of _char_class) contain every character?
    Intervals: they cover 0..0x10FFFF.  Categories: lemma - a category and its negation (\\s|\\S, \\d|\\D, \\w|\\W) partition
    the characters, so their union is everything; a single category's members are not modelled (None)."""
    if cls is None:
        return None
    ivs, cats = cls
    if _merge(ivs) == [(0, _MAXCP)]:
        return True
    for a, b in ((sc.CATEGORY_DIGIT, sc.CATEGORY_NOT_DIGIT), (sc.CATEGORY_SPACE, sc.CATEGORY_NOT_SPACE), (sc.CATEGORY_WORD, sc.CATEGORY_NOT_WORD)):
        if a in cats and b in cats:
            return True
    return None if cats else False


def r4(ctx):
    g = Grammar(ctx.repo)
    kind, val = g.terminals.get("STRING", (None, None))
    quoted = [n for n, (k, v) in g.terminals.items() if k == "re" and v.startswith('"') and n not in ("STRING",)]
    ctx.ob("R4", "GRAM", "c2profile.lark::STRING", "only quoted-literal terminal", kind == "re" and not quoted, f"STRING is a regexp terminal={kind == 're'}; other quoted-literal regexp terminals: {quoted}")
    users = sorted({r.origin for r in g.rules for s in r.expansion if s.is_term and s.name == "STRING"})
    ctx.ob("R4", "GRAM", "c2profile.lark::STRING", "used by `string` only", users == ["string"], f"rules that consume STRING directly: {users}")
    if kind != "re":
        return
    import re._parser as sp
    import re._constants as sc

    try:
        parsed_obj = sp.parse(val)
        parsed = list(parsed_obj)
    except Exception as e:  # pragma: no cover
        ctx.ob("R4", "GRAM", "c2profile.lark::STRING", "regex parses", False, f"regex does not parse: {e}")
        return
    dotall = bool(getattr(getattr(parsed_obj, "state", None), "flags", 0) & sc.SRE_FLAG_DOTALL)
    ok_open = bool(parsed) and parsed[0] == (sc.LITERAL, 34)
    ok_close = bool(parsed) and parsed[-1] == (sc.LITERAL, 34)
    lazy_body = False  # True / False / None (the body's character class is not understood)
    body_seen = False
    lookbehind = False
    even_run = False
    order = []
    for i, (op, av) in enumerate(parsed[1:-1], 1):
        if op is sc.MIN_REPEAT and not body_seen and not lookbehind:
            lo, hi, sub = av
            body_seen = True
            every = _matches_every_char(_char_class(sub, sc, dotall), sc)
            lazy_body = every if (lo == 0 and hi == sc.MAXREPEAT) else False
            order.append("body")
        elif op is sc.ASSERT_NOT:
            direction, sub = av
            lookbehind = direction == -1 and list(sub) == [(sc.LITERAL, 92)]
            order.append("lookbehind")
        elif op in (sc.MIN_REPEAT, sc.MAX_REPEAT) and lookbehind:
            lo, hi, sub = av
            inner = list(sub)
            if len(inner) == 1 and inner[0][0] is sc.SUBPATTERN:
                inner = list(inner[0][1][3])
            even_run = lo == 0 and hi == sc.MAXREPEAT and inner == [(sc.LITERAL, 92), (sc.LITERAL, 92)]
            order.append("pairs")
        else:
            order.append(str(op).lower())
    rest = ok_open and ok_close and lookbehind and even_run and order == ["body", "lookbehind", "pairs"]
    detail = (f"STRING = {val!r}: opening quote={ok_open}, lazy any-char body={lazy_body if lazy_body is not None else 'not understood'}, negative look-behind on a backslash={lookbehind}, "
              f"followed by a run of backslash PAIRS={even_run}, closing quote={ok_close}, order={order}")
    if rest and lazy_body is None:
        ctx.undecided("R4", "GRAM", "c2profile.lark::STRING", "regex structure", detail + " - the character class of the body is not one the syntax-tree inspection understands")
    else:
        ctx.ob("R4", "GRAM", "c2profile.lark::STRING", "regex structure", bool(rest and lazy_body), detail)


def run(ctx):
    rep = ctx.rep
    rep.explanation = (
        "Static analysis of value_to_string / string_token_to_bytes in c2profile.py and of the STRING terminal; no code is run and no "
        "input is chosen by the checker. Encoder: path-wise value flow under the named assumptions 'the argument is bytes' / 'is str' - "
        "on every path the returned literal is a term `\"` + X + `\"` over the parameter, a bytes value passes a known byte-wise escaper "
        "(repr() with the quote style pinned by a concatenated double quote and slice constants consistent with that pin, or the "
        "unicode_escape codec over a latin-1 decoding) and then the double-quote replacement; every other replacement applied to the "
        "escaped text is judged against the escaper's token structure (a pattern backslash + X, X emitted unescaped by that escaper, "
        "can match the second half of an escaped backslash: violated); a path on which the value skips the escaper (written as it is or only "
        "decoded ascii / latin-1 / utf-8) must be taken only under conditions that exclude the backslash byte - the encoder's own tests "
        "(`value.isascii()`, `.isprintable()`, `.isalnum()` ..., `<constant> in value`) are data forks whose outcomes are evaluated as "
        "facts over the set of ASCII byte values a byte of the value may take (lemma L13), never by trying values; tests of the length / the first / "
        "the last character of the text are data forks as well, and a path they select that returns the text without the two delimiters (the value "
        "itself deciding in-band whether it gets quoted) is violated when a witness composed of the constants those tests name satisfies the path's facts. Decoder: the body of the decoding loop is walked once over an abstract iterator with symbolic characters; the "
        "cases are the literals / table keys the decoder itself compares a character with, plus one 'any other character' case in which "
        "the character stays symbolic (its code is the term ord(c)). On the resulting event traces: the set of escape letters the "
        "decoder acts on and their byte values are compared with the documented table (the 'other' case must drop the pair silently), "
        "hex escapes check availability before consuming (cursor-offset typestate; a next(n) followed at once by a test of the length of what it delivered "
        "is the same check made after the fact - next() is a slice of the buffer, lemma L15), consume exactly their digits and append "
        "int(<low digit pair>, 16) - or the number parsed from all digits reduced by a constant mask / modulus that provably leaves "
        "exactly the low byte (known-bits lemma L7), or such a code encoded with latin-1 (lemma L12: chr(n).encode(C) is the one byte n for every "
        "n in 0..255 only for latin-1; utf-8 / ascii give several bytes or raise from 0x80 on: violated) -, an ordinary character is appended as ord(c) exactly once (a constant mask is judged by a known-bits "
        "lemma over 0..255); a table of the module that converts the hex digits is folded and compared completely with the reference table "
        "of hex spellings (both cases; a missing spelling is a path on which a complete escape raises or yields the default, a complete "
        "correct table is int(<digits>, 16)); every escape letter the encoder can emit is one the decoder handles. Around the loop (R5): "
        "under the named assumption that the argument is a STRING token the function is walked from its entry to the decoding loop with the "
        "text of the literal symbolic; whole-text str.replace passes applied to what the iterator receives, or used as a decoder of their "
        "own on a path that returns before the loop, are judged against the token structure of a literal (lemma L8: a pattern backslash + X "
        "matches the second half of an escaped backslash followed by a plain X; after backslash backslash -> backslash the produced backslash "
        "is scanned again), with the path's `<constant> in <text>` conditions checked against the witness content; a return that bypasses the "
        "loop without decoding needs conditions that exclude every escape, and whatever is returned before the loop must be a bytes object (a str term over "
        "the text returned on a path whose conditions admit a literal - e.g. the empty one - is violated: '' != b''). The accumulator (R6): the object the decoding loop appends the bytes to (located "
        "by role) must be created by the call - a display, a constructor call, an immutable constant that `+=` rebinds; when it outlives the call "
        "(a module-level object, an attribute of one, a mutable parameter default) it must be emptied before the loop on every path (dominance) "
        "or in a `finally` covering the loop, otherwise a call that leaves through an explicit raise / return after appending keeps its bytes for "
        "the next literal and decoding is no longer a function of the literal alone (CFG reachability avoiding the emptying statements). "
        "A decoder that compares the iterator's cursor with the length itself instead of calling has_next() is normalised to the same availability "
        "events (linear terms over the cursor and the length, lemma L14; has_next's own definition is read off its syntax tree). The STRING regex is inspected on its "
        "parsed syntax tree (opening quote, lazy body whose character class covers every code point - interval cover or complementary "
        "categories -, closing quote preceded by an even run of backslashes)."
    )
    rep.not_decided = [
        "the round trip for all byte strings (composition of the lemmas about CPython's repr with the decoder cases is not mechanised)",
        "the 'exactly one token' claim over all inputs (regex matching semantics; only the structure of the pattern is checked)",
        "escapers other than repr() and the unicode_escape codec, replacements of patterns longer than backslash + one character, hex escapes "
        "reduced by anything but a constant & / % (reported as undecided)",
        "encoder paths that skip the escaper on a condition other than the per-character predicates of lemma L13 / `<constant> in value` "
        "(regular expressions, comprehensions over the bytes, comparisons: reported as undecided); predicates applied to the already escaped text; "
        "a path that writes bytes other than the backslash and the double quote as they are (control characters, bytes >= 0x80) is accepted - "
        "the STRING terminal matches every character (R4) and the decoder returns ord(c) & 0xFF for it",
        "bytes appended through a codec other than latin-1 / utf-8 / ascii, with an explicit error handler, or for more than one character "
        "(reported as undecided)",
        "decoders that carry state between characters, unroll nested loops, or hand the iterator to unmodelled code (reported as undecided); "
        "`==` / `!=` tests on the iterator's cursor, cursor arithmetic other than + / - constants, a has_next() of another shape than "
        "`cursor + n <= len(buffer)` (reported as undecided); that next() / __next__ advance the cursor by what they return is assumed (iterator protocol)",
        "state other than the output accumulator that could survive a call (caches, a shared iterator); a shared accumulator that only an "
        "exception raised implicitly inside the loop could leave non-empty (reported as undecided); accumulators handed in by the caller "
        "or produced by a package function (reported as undecided); re-entrancy / threads",
        "hex digits converted by anything but int(.., 16), a constant table / digit string of the module (one digit or a pair) or the nibble "
        "arithmetic of lemma L9; exceptions of operations kept symbolic (their handlers are not walked)",
        "encoder paths selected by shape tests other than length / first / last character against constants, or for which no witness made of the "
        "compared constants exists (reported as undecided); a constant returned for a special shape (e.g. '\"\"' for an empty value) is not judged",
        "a tentative next(n) whose length test is not the next use of the iterator / output, or a StringIterator.next of another shape than the "
        "slice `buffer[cursor:cursor+n]` (the unchecked read is then reported as before)",
        "paths that return before the decoding loop with a conversion of an escape-free text (reported as undecided), whole-text rewrites other "
        "than str.replace / literal re.sub of backslash pairs, regex- or callback-based decoders (reported as undecided); that the value "
        "returned after the loop is exactly the bytes of the accumulator is not checked",
        "STRING bodies whose character class uses a single category or scoped flags other than DOTALL (reported as undecided)",
    ]
    rep.trusted_base = [
        "CPython ast",
        "re._parser (syntax tree of regular expressions)",
        "lark grammar loader",
        "lemma L1: repr(bytes) escapes byte-wise; it uses the double-quote delimiter only for a value containing ' and no \", so a concatenated b'\"' pins "
        "the single-quote style; the value's text lies between offset 2 + len(escaped prefix constant) and 1 + len(escaped suffix constant) from the end",
        "lemma L2: repr(bytes) output is printable ASCII with backslashes only as the first character of an escape pair, hence the replacements "
        "'\"' -> '\\\"' and \"\\'\" -> \"'\" commute and a pattern with a non-printable character never matches",
        "lemma L1b: the unicode_escape codec on latin-1 decoded bytes emits printable ASCII other than the backslash as itself (both quote characters "
        "unescaped), the backslash doubled, TAB/LF/CR as backslash + t/n/r, everything else as backslash + x + two hex digits; the output is ASCII",
        "lemma L2b: in the output of these escapers a backslash is always the first character of a token; str.replace scans left to right, so a pattern "
        "backslash + X with X a plain token matches inside backslash backslash X at the second backslash",
        "lemma L13 (reference table): str/bytes .isascii() / .isprintable() / .isalnum() / .isalpha() / .isdigit() / .isdecimal() / .isnumeric() hold iff every "
        "character satisfies the predicate (and the string is not empty, except isascii / isprintable); within ASCII these are 0x00-0x7f / 0x20-0x7e / "
        "0-9A-Za-z / A-Za-z / 0-9 (bytes methods know ASCII only); decoding bytes as ascii / latin-1 / utf-8 maps every byte below 0x80 to the character "
        "with the same code; `S in v` holds iff the constant S is a contiguous part of v",
        "lemma L12: chr(n).encode('latin-1') is the single byte n for 0 <= n <= 255 and raises above; chr(n).encode('utf-8') / ('ascii') is the single byte n "
        "only for n < 0x80 (utf-8: two to four bytes, ascii: UnicodeEncodeError from 0x80 on)",
        "lemma L3: ord and chr are inverse bijections (ord(c) == k <=> c == chr(k))",
        "lemma L4: a one-character string c is `in` a str s iff c is one of the characters of s; it equals no string of another length and no non-string",
        "lemma L5: for 0 <= x <= 255, x & K == x iff the low eight bits of K are all set, and x % K == x iff K > 255",
        "lemma L7 (assumption: the characters of a hex escape are hex digits): int(<n digits>, 16) covers 0..16**n - 1 and is 256 * <leading digits> + "
        "<low pair>; `& K` yields the low pair iff K & (16**n - 1) == 0xFF, `% K` iff K == 256 (n > 2) or K > 255 (n == 2)",
        "reference table of hex spellings: a hex digit is one of 0-9, a-f, A-F with value 0..15, a pair has value 16 * first + second",
        "lemma L8: str.replace scans left to right without overlaps; inside a literal a backslash always starts a token, the backslash byte is backslash "
        "backslash and an unescaped double quote cannot occur: backslash backslash matches exactly the escaped-backslash tokens, backslash + X (X plain) "
        "matches inside backslash backslash X at the second backslash, and after backslash backslash -> backslash the produced backslash is re-scanned",
        "lemma L9: int(A, 16) * 16**len(B) + int(B, 16) == int(A + B, 16) (also with << and |); L10: int(s, 16) ignores the case of s; L11: index()/find() "
        "of a one-character string give the position of its first occurrence",
        "lemma L6: a regex category and its negation partition the characters; `.` matches every character except code 10 unless DOTALL",
        "lemma L14 (integers): a < b <=> a + 1 <= b, a >= b <=> not a < b; StringIterator.has_next(n) is `cursor + n <= len(buffer)` as written in the "
        "class (checked on its syntax tree together with: the cursor is only ever set to 0 or advanced, the buffer holds one entry per character "
        "of the constructor argument); next(n) / __next__ advance the cursor by the number of characters they return (iterator protocol, assumed)",
        "lemma L15 (slicing): len(b[i:i+n]) == min(n, max(0, len(b) - i)) for n >= 0, hence for 1 <= k <= n: len(b[i:i+n]) >= k <=> i + k <= len(b); "
        "StringIterator.next(n) returns `buffer[cursor:cursor+n]` evaluated before its only cursor store `+= n` (checked on its syntax tree); "
        "\"\".join of one-character strings has one character per entry",
        "the literal `\"\"` (empty content) is a STRING token and is what the encoder emits for b''; a str never compares equal to a bytes object",
        "R6: a display, comprehension or call of a constructor / library function yields a new object; an object bound at module level, an attribute "
        "of one and a parameter default live as long as the module; list / bytearray .clear(), `del x[:]` and `x[:] = []` leave the object empty",
    ]
    r1(ctx)
    r2(ctx)
    r3(ctx)
    r4(ctx)
    r5(ctx)
    r6(ctx)
