"""C12 - Profile string literals encode and decode bytes losslessly and safely (structural core)."""

from __future__ import annotations

import ast

from csverif import tables
from csverif.astutil import assignments_to, body_walk, compare_parts, const_eval, disjuncts, dotted, fn_calls, is_const, NotConst, params, src, statements
from csverif.cfg import ENTRY, EXIT
from csverif.grammar import Grammar
from csverif.q import FuncView, guarded_by, origin, raise_class, specialise


def _c(node):
    try:
        return const_eval(node) if node is not None else None
    except (NotConst, TypeError):
        return None


def run(ctx):
    rep = ctx.rep
    rep.explanation = (
        "Static analysis of value_to_string / string_token_to_bytes in c2profile.py and of the STRING terminal: on the bytes "
        "path the interpolated value passes the repr-based escaper (quote style pinned by a prepended double quote, slice "
        "constants consistent with that prefix) and then the double-quote replacement on every path to the return; the "
        "decoder's escape table is compared completely with the documented set and byte values; everything the encoder can "
        "emit is in the decoder's table; the STRING regex is inspected on its parsed AST (opening quote, lazy body, closing "
        "quote preceded by an even run of backslashes)."
    )
    rep.not_decided = ["the round trip for all byte strings (depends on CPython's repr)", "the 'exactly one token' claim over all inputs (regex matching semantics)"]
    rep.trusted_base = ["CPython ast and repr(bytes) escaping rules", "re._parser", "lark grammar loader"]
    r1(ctx)
    r2(ctx)
    r3(ctx)
    r4(ctx)


def r1(ctx):
    f = ctx.repo.func("c2profile.value_to_string")
    cfg = ctx.cfg(f)
    fv = FuncView.of(f.node)
    p = params(f.node)[0]
    esc = None
    for st in statements(f.node):
        if isinstance(st, ast.Assign) and dotted(st.targets[0]) == p:
            v = st.value
            if isinstance(v, ast.Subscript) and isinstance(v.value, ast.Call) and dotted(v.value.func) == "repr":
                esc = (st, v)
    if esc is None:
        ctx.ob("R1", "TAINT", f, "escaper", False, "no `value = repr(<bytes>)[a:b]` escaper on the bytes path")
        return
    est, ev = esc
    arg = ev.value.args[0]
    prefix = None
    if isinstance(arg, ast.BinOp) and isinstance(arg.op, ast.Add) and isinstance(_c(arg.left), bytes) and dotted(arg.right) == p:
        prefix = _c(arg.left)
    lo, hi = _c(ev.slice.lower) if isinstance(ev.slice, ast.Slice) else None, _c(ev.slice.upper) if isinstance(ev.slice, ast.Slice) else None
    bytes_guard = guarded_by(ctx, f, est, lambda t: True if isinstance(t, ast.Call) and dotted(t.func) == "isinstance" and dotted(t.args[0]) == p and "bytes" in src(t.args[1]) else None)
    ok = prefix == b'"' and lo == 2 + len(prefix or b"") and hi == -1 and bytes_guard
    ctx.ob("R1", "TAINT", f, src(est), bool(ok),
           f"bytes are escaped with repr(); prefix {prefix!r} pins the single-quote repr style (required b'\"'); slice [{lo}:{hi}] strips exactly b'\" and the closing quote (required [3:-1]); under isinstance(value, bytes)={bytes_guard}", est)
    # the double-quote replacement lies on every path from the escaper to the return
    reps = []
    for st in statements(f.node):
        if isinstance(st, ast.Assign) and dotted(st.targets[0]) == p and isinstance(st.value, ast.Call) and isinstance(st.value.func, ast.Attribute) and st.value.func.attr == "replace" \
                and dotted(st.value.func.value) == p and len(st.value.args) == 2:
            reps.append((st, _c(st.value.args[0]), _c(st.value.args[1])))
    q = [st for st, a, b in reps if a == '"' and b == '\\"']
    spec = specialise(cfg, {f"isinstance({p}, str)": True})
    ok = bool(q) and spec.all_paths_pass(cfg.node(est), EXIT, [cfg.node(q[0])]) and not cfg.reaches(cfg.node(q[0]), cfg.node(est))
    ctx.ob("R1", "TAINT", f, "quote replacement after escaper", ok,
           "every path from the escaper to the return replaces `\"` by `\\\"`, after the escaping" if ok else "a bytes-derived value can reach the return without the double-quote replacement (or it runs before the escaper)")
    # a str value gets the same replacement
    spec_str = specialise(cfg, {f"isinstance({p}, bytes)": False, f"isinstance({p}, str)": True})
    ok = bool(q) and spec_str.all_paths_pass(ENTRY, EXIT, [cfg.node(q[0])])
    ctx.ob("R1", "TAINT", f, "quote replacement for str", ok, "str values get their double quotes escaped on every path" if ok else "str values can reach the return unescaped")
    sq = [st for st, a, b in reps if a == "\\'" and b == "'"]
    order_ok = bool(sq) and bool(q) and cfg.dominates(cfg.node(q[0]), cfg.node(sq[0]))
    ctx.ob("R1", "TAINT", f, "\\' unescaped last", order_ok, "the single-quote un-escape follows the double-quote escape" if order_ok else "single-quote handling missing or before the double-quote escape", nontrivial=False)
    rets = cfg.return_stmts()
    ok = len(rets) == 1 and isinstance(rets[0].value, ast.JoinedStr)
    if ok:
        parts = rets[0].value.values
        ok = len(parts) == 3 and is_const(parts[0], '"') and is_const(parts[2], '"') and isinstance(parts[1], ast.FormattedValue) and dotted(parts[1].value) == p and parts[1].conversion == -1
    ctx.ob("R1", "TAINT", f, "return f'\"{value}\"'", bool(ok), "the literal is the escaped value between two double quotes" if ok else f"return value is {src(rets[0].value) if rets else None}")


def _decoder_table(ctx):
    f = ctx.repo.func("c2profile.string_token_to_bytes")
    table = {}
    var = None
    for st in statements(f.node):
        if isinstance(st, ast.If):
            for l, op, r in compare_parts(st.test):
                if isinstance(op, ast.Eq) and isinstance(_c(r), str) and len(_c(r)) == 1 and isinstance(l, ast.Name) and l.id != "c":
                    letter = _c(r)
                    apps = [c for s in st.body for c in ast.walk(s) if isinstance(c, ast.Call) and isinstance(c.func, ast.Attribute) and c.func.attr == "append"]
                    table[letter] = (st, apps)
                    var = l.id
    return f, table, var


def r2(ctx):
    f, table, var = _decoder_table(ctx)
    ctx.ob("R2", "TABLE", f, "escape letters", set(table) == set(tables.ESCAPES), f"decoder handles {sorted(table)}; documented set {sorted(tables.ESCAPES)}")
    for letter, byte in tables.ESCAPES.items():
        if letter not in table:
            continue
        st, apps = table[letter]
        if byte is not None:
            got = None
            if len(apps) == 1 and apps[0].args:
                a = apps[0].args[0]
                if isinstance(a, ast.Call) and dotted(a.func) == "ord" and isinstance(_c(a.args[0]), str):
                    got = ord(_c(a.args[0]))
                else:
                    got = _c(a)
            ctx.ob("R2", "TABLE", f, f"escape \\{letter}", got == byte, f"\\{letter} appends byte {got!r} (documented 0x{byte:02x})", st)
        else:
            need = 2 if letter == "x" else 4
            hn = [c for s in st.body for c in ast.walk(s) if isinstance(c, ast.Call) and isinstance(c.func, ast.Attribute) and c.func.attr == "has_next"]
            nx = [c for s in st.body for c in ast.walk(s) if isinstance(c, ast.Call) and isinstance(c.func, ast.Attribute) and c.func.attr == "next"]
            ints = [c for s in st.body for c in ast.walk(s) if isinstance(c, ast.Call) and dotted(c.func) == "int" and len(c.args) == 2 and _c(c.args[1]) == 16]
            rs = [s2 for s in st.body for s2 in ast.walk(s) if isinstance(s2, ast.Raise)]
            checked = len(hn) == 1 and _c(hn[0].args[0]) == need
            consumed = sum(_c(c.args[0]) or 0 for c in nx)
            # the raise is on the `not has_next` edge and is a ValueError
            r_ok = bool(rs) and all(raise_class(r) == "ValueError" for r in rs)
            # the appended value is the last 2 hex digits read
            nx.sort(key=lambda c: (c.lineno, c.col_offset))
            last_two = bool(nx) and _c(nx[-1].args[0]) == 2 and len(ints) == 1
            if last_two:
                # the digits handed to int(.., 16) are those of the LAST next() call (low byte pair)
                from csverif.q import inline as _inl
                arg = ints[0].args[0]
                if isinstance(arg, ast.Name):
                    # the definition inside this branch
                    defs = [s2.value for s in st.body for s2 in ast.walk(s) if isinstance(s2, ast.Assign) and dotted(s2.targets[0]) == arg.id]
                    arg = defs[-1] if defs else arg
                arg = _inl(f.node, arg)
                pos_last = (nx[-1].lineno, nx[-1].col_offset)
                last_two = any(isinstance(n, ast.Call) and isinstance(n.func, ast.Attribute) and n.func.attr == "next" and (n.lineno, n.col_offset) == pos_last for n in ast.walk(arg))
            # typestate: nothing is consumed before the availability check covering the whole escape
            from csverif.q import guarded_by as _gb
            unguarded = [src(c) for c in nx if not (hn and _gb(ctx, f, c, lambda t, h=hn[0]: True if (isinstance(t, ast.Call) and src(t) == src(h)) else None))]
            ctx.ob("R2", "DOM", f, f"escape \\{letter}: has_next({need}) precedes every digit read", not unguarded,
                   "every next() of the escape is dominated by the availability check" if not unguarded else f"digits consumed before/without the availability check: {unguarded} (a complete escape near the end of the literal is rejected)", st)
            ctx.ob("R2", "TABLE", f, f"escape \\{letter}", checked and consumed == need and r_ok and last_two and len(apps) == 1,
                   f"\\{letter}: checks has_next({_c(hn[0].args[0]) if hn else None}) (required {need}), consumes {consumed} digits (required {need}), appends int(<last 2 digits>, 16)={last_two}, short input raises ValueError={r_ok}", st)
    # an ordinary character is appended as its code
    loopvars = {dotted(s2.target) for s2 in statements(f.node) if isinstance(s2, ast.For)}
    apps_else = [c for c in fn_calls(f.node) if isinstance(c.func, ast.Attribute) and c.func.attr == "append" and c.args and isinstance(c.args[0], ast.Call) and dotted(c.args[0].func) == "ord"
                 and c.args[0].args and dotted(c.args[0].args[0]) in loopvars]
    ctx.ob("R2", "AGREE", f, "ordinary characters", len(apps_else) == 1, "characters outside escapes are appended as ord(c)")
    it = ctx.repo.func("c2profile.StringIterator.__init__")
    ok = any("ord(c) & 255" in src(n) or "ord(c) & 0xFF" in src(n) for n in body_walk(it.node))
    ctx.ob("R2", "AGREE", it, "chr(ord(c) & 0xFF)", ok, "characters are reduced to one byte before decoding" if ok else "StringIterator no longer masks characters to a byte")
    # quotes are stripped before decoding
    strip = [n for n in body_walk(f.node) if isinstance(n, ast.Subscript) and isinstance(n.slice, ast.Slice) and src(n.value).endswith(".value") and _c(n.slice.lower) == 1 and _c(n.slice.upper) == -1]
    ctx.ob("R2", "AGREE", f, "token.value[1:-1]", len(strip) == 1, "the surrounding quotes are stripped, nothing else")


def r3(ctx):
    f, table, var = _decoder_table(ctx)
    # what CPython's repr(bytes) with single-quote delimiter can emit after a backslash, plus the encoder's own \" :
    emitted = {"x", "n", "r", "t", "\\", "'", '"'}
    miss = sorted(emitted - set(table))
    ctx.ob("R3", "VOCAB", f, "encoder output accepted", not miss, f"escape letters value_to_string can emit (\\xHH \\n \\r \\t \\\\ \\' \\\") not handled by the decoder: {miss}")


def r4(ctx):
    g = Grammar(ctx.repo)
    kind, val = g.terminals.get("STRING", (None, None))
    quoted = [n for n, (k, v) in g.terminals.items() if k == "re" and v.startswith('"') and n not in ("STRING",)]
    ctx.ob("R4", "GRAM", "c2profile.lark::STRING", "only quoted-literal terminal", kind == "re" and not quoted, f"STRING is a regexp terminal={kind == 're'}; other quoted-literal regexp terminals: {quoted}")
    users = sorted({r.origin for r in g.rules for s in r.expansion if s.is_term and s.name == "STRING"})
    ctx.ob("R4", "GRAM", "c2profile.lark::STRING", "used by `string` only", users == ["string"], f"rules that consume STRING directly: {users}")
    if kind != "re":
        return
    import re._parser as sp
    import re._constants as sc

    try:
        parsed = list(sp.parse(val))
    except Exception as e:  # pragma: no cover
        ctx.ob("R4", "GRAM", "c2profile.lark::STRING", "regex parses", False, f"regex does not parse: {e}")
        return
    ops = [str(op) for op, _ in parsed]
    ok_open = bool(parsed) and parsed[0] == (sc.LITERAL, 34)
    ok_close = bool(parsed) and parsed[-1] == (sc.LITERAL, 34)
    lazy_body = False
    lookbehind = False
    even_run = False
    order = []
    for i, (op, av) in enumerate(parsed[1:-1], 1):
        if op is sc.MIN_REPEAT and not lazy_body and not lookbehind:
            lo, hi, sub = av
            flat = str(sub)
            lazy_body = lo == 0 and hi == sc.MAXREPEAT and "ANY" in flat
            order.append("body")
        elif op is sc.ASSERT_NOT:
            direction, sub = av
            lookbehind = direction == -1 and list(sub) == [(sc.LITERAL, 92)]
            order.append("lookbehind")
        elif op in (sc.MIN_REPEAT, sc.MAX_REPEAT) and lookbehind:
            lo, hi, sub = av
            inner = list(sub)
            if len(inner) == 1 and inner[0][0] is sc.SUBPATTERN:
                inner = list(inner[0][1][3])
            even_run = lo == 0 and inner == [(sc.LITERAL, 92), (sc.LITERAL, 92)]
            order.append("pairs")
    ok = ok_open and ok_close and lazy_body and lookbehind and even_run and order == ["body", "lookbehind", "pairs"]
    ctx.ob("R4", "GRAM", "c2profile.lark::STRING", "regex structure", ok,
           f"STRING = {val!r}: opening quote={ok_open}, lazy any-char body={lazy_body}, negative look-behind on a backslash={lookbehind}, followed by a run of backslash PAIRS={even_run}, closing quote={ok_close}, order={order}")
