"""C14 - A parsed beacon configuration is an immutable value (alias / who-may-write analysis)."""

from __future__ import annotations

import ast

from csverif.alias import Alias, MUTATORS
from csverif.astutil import body_walk, dotted, fn_calls, src, statements
from csverif.cfg import EXIT

STORE_ATTRS = {"settings", "settings_by_index", "raw_settings", "raw_settings_by_index", "settings_tuple", "config_block"}
CONFIG_NAMES = {"bconfig", "config", "self.bconfig", "beacon_config", "self.config"}


def make_source(ctx):
    def is_source(f, e):
        if isinstance(e, ast.Attribute) and e.attr in STORE_ATTRS:
            t = ctx.rs.expr_type(f, e.value)
            if t == "beacon.BeaconConfig" or (t is None and (dotted(e.value) in CONFIG_NAMES)):
                return f"{src(e)} (cached view of the configuration)"
            if t is None and isinstance(e.value, ast.Name) and e.value.id == "self" and f.cls == "BeaconConfig":
                return f"{src(e)} (cached view of the configuration)"
        return None
    return is_source


def run(ctx):
    rep = ctx.rep
    rep.explanation = (
        "Interprocedural may-alias + mutation analysis over the whole package: values read out of the cached settings views "
        "of a BeaconConfig (settings, settings_by_index, raw_settings, raw_settings_by_index, settings_tuple, config_block) "
        "are abstract locations; taint follows assignments, tuple swaps, parameter passing, self.attr stores, returns, "
        "element access and iteration, and is cut by fresh copies. No mutator call / item store / in-place += / attribute "
        "store may reach such a location. Plus: the views return MappingProxyType, only beacon.py writes BeaconConfig "
        "attributes, transform()/recover() do not mutate their step lists."
    )
    rep.not_decided = ["result equality of every operation before/after (follows from R1-R4 for the step-list channel)", "other channels such as RNG state"]
    rep.trusted_base = ["CPython ast", "mutator / fresh-copy tables in csverif/alias.py", "call resolution by construction/annotation"]
    rep.assumptions = ["objects handed to external libraries are not mutated by them", "tuples/bytes/str/int elements are immutable"]
    al = Alias(ctx, make_source(ctx)).run()
    # count the reads of the store we analysed
    reads = 0
    for f in ctx.repo.all_funcs():
        for n in body_walk(f.node):
            if al.is_source(f, n):
                reads += 1
    rep.count("store_reads", reads, floor=25)
    rep.extra["alias_iterations"] = al.iterations
    rep.extra["tainted_parameters"] = {f"{k[0]}({k[1]})": v for k, v in sorted(al.taint_params.items())}
    rep.extra["tainted_fields"] = {f"{k[0]}.{k[1]}": v for k, v in sorted(al.taint_fields.items())}
    rep.extra["tainted_returns"] = dict(sorted(al.taint_returns.items()))
    finds = al.findings()
    # R1: one obligation per function that handles a store value, violated per mutation site
    handled = sorted({k[0] for k in al.taint_params} | {fq for fq, loc in al.local.items() if loc})
    for fq in handled:
        f = ctx.repo.func(fq)
        mine = [x for x in finds if x.func.fq == fq]
        if not mine:
            ctx.ob("R1", "ALIAS", f, "handles settings values", True, "receives or reads values of the cached settings views and never mutates them")
    for x in finds:
        ctx.ob("R1", "ALIAS", x.func, f"{x.kind} on {x.target}", False,
               f"`{src(x.node)[:70]}` mutates an object that may be a value of the cached settings views: {x.target} <- {x.why}", x.node)
    rep.count("functions_handling_store_values", len(handled), floor=5)
    # R1b: constructions of HttpDataTransform from settings
    n = 0
    for f in ctx.repo.all_funcs():
        for c in fn_calls(f.node):
            cal = ctx.rs.resolve_call(f, c)
            if cal.kind == "class" and cal.fq == "c2.HttpDataTransform":
                for a in list(c.args) + [k.value for k in c.keywords]:
                    if al.tainted(f, a):
                        n += 1
    rep.count("transform_constructions_from_settings", n, floor=3)
    r2(ctx)
    r3(ctx)
    r4(ctx)
    # "each operation gives the same result no matter what was done before": the per-view cache slots (C02.R3)
    from rules import c02

    ctx.import_obligations("R5", c02.r3)
    r6(ctx)


_MUT_CTORS = {"dict", "list", "set", "bytearray", "collections.defaultdict", "defaultdict", "collections.OrderedDict", "OrderedDict",
              "collections.Counter", "Counter", "collections.deque", "deque"}


def _holds_mutable(v: ast.AST) -> bool:
    for n in ast.walk(v):
        if isinstance(n, (ast.Dict, ast.List, ast.Set, ast.ListComp, ast.DictComp, ast.SetComp)):
            return True
        if isinstance(n, ast.Call) and dotted(n.func) in _MUT_CTORS:
            return True
    return False


def r6(ctx):
    """No function mutates an object that lives at module or class level: such an object is shared by every
    configuration, decoder and call, so writing to it makes results depend on what was done before."""
    shared_mod, shared_cls = {}, {}
    for m in ctx.repo.modules.values():
        for name, v in m.consts.items():
            if _holds_mutable(v) and not (isinstance(v, ast.Call) and dotted(v.func) in ("MappingProxyType", "types.MappingProxyType", "frozenset", "tuple")):
                shared_mod[(m.name, name)] = v
        for cq in m.classes:
            for name, v in ctx.repo.class_attrs(f"{m.name}.{cq}").items():
                if _holds_mutable(v):
                    shared_cls[(m.name, cq, name)] = v

    def is_source(f, e):
        if isinstance(e, ast.Name) and (f.module.name, e.id) in shared_mod and isinstance(e.ctx, ast.Load):
            from csverif.astutil import assignments_to, params
            if e.id not in params(f.node) and not assignments_to(f.node, e.id):
                return f"module-level object {f.module.name}.{e.id}"
        if isinstance(e, ast.Attribute):
            b = dotted(e.value)
            if b in ("self", "cls") and f.cls:
                # class attribute read through the instance (unless the instance attribute is assigned in the class)
                c = f.cls
                seen = set()
                while c and c not in seen:
                    seen.add(c)
                    if (f.module.name, c, e.attr) in shared_cls:
                        inst = any(isinstance(t, ast.Attribute) and dotted(t.value) == "self" and t.attr == e.attr
                                   for g in ctx.repo.methods(f"{f.module.name}.{c}") for st in statements(g.node) if isinstance(st, (ast.Assign, ast.AnnAssign))
                                   for t in (st.targets if isinstance(st, ast.Assign) else [st.target]))
                        if not inst:
                            return f"class-level object {c}.{e.attr}"
                    bases = [dotted(x) for x in ctx.repo.cls(f"{f.module.name}.{c}").bases]
                    c = next((x for x in bases if x and f"{x}" in ctx.repo.module(f.module.name).classes), None)
            elif b:
                for (mn, cq, an) in shared_cls:
                    if an == e.attr and b.split(".")[-1] == cq:
                        return f"class-level object {cq}.{an}"
                for (mn, an) in shared_mod:
                    if an == e.attr and b == mn:
                        return f"module-level object {mn}.{an}"
        return None

    al = Alias(ctx, is_source, deep_attrs=True).run()
    finds = al.findings()
    ctx.rep.count("shared_module_or_class_objects", len(shared_mod) + len(shared_cls), floor=3)
    ctx.rep.extra["shared_objects"] = sorted([f"{a}.{b}" for a, b in shared_mod] + [f"{a}.{b}.{c}" for a, b, c in shared_cls])
    for x in finds:
        ctx.ob("R6", "ALIAS", x.func, f"{x.kind} on {x.target}", False,
               f"`{src(x.node)[:70]}` mutates an object shared at module/class level: {x.target} <- {x.why}", x.node)
    # memoisation makes every caller share one result object: allowed only for results that cannot be mutated
    memo = 0
    for f in ctx.repo.all_funcs():
        decs = [dotted(d.func if isinstance(d, ast.Call) else d) or "" for d in getattr(f.node, "decorator_list", [])]
        if not any(d.split(".")[-1] in ("lru_cache", "cache", "cached_property", "memoize", "memoized") for d in decs):
            continue
        memo += 1
        from csverif.q import inline, returns_of
        bad = []
        for r in returns_of(f):
            v = inline(f.node, r.value) if r.value is not None else ast.Constant(value=None)
            imm = isinstance(v, (ast.Constant, ast.JoinedStr, ast.Compare)) or (isinstance(v, ast.Call) and dotted(v.func) in ("bytes", "str", "int", "bool", "float", "frozenset", "len")) \
                or (isinstance(v, ast.Call) and isinstance(v.func, ast.Attribute) and v.func.attr in ("decode", "encode", "hex", "join", "format", "strip", "lower", "upper", "digest", "hexdigest"))
            if not imm:
                bad.append(src(r.value)[:50])
        ctx.ob("R6", "ALIAS", f, "memoised result is immutable", not bad,
               "cached results are scalars" if not bad else f"results shared between callers through the cache may be mutable: {bad} (a later identical call sees earlier callers' modifications)", f.node)
    ctx.rep.counts["memoised_functions"] = memo
    ctx.ob("R6", "ALIAS", "package", "no writer of module/class-level objects", not finds,
           f"{len(shared_mod)} module-level and {len(shared_cls)} class-level mutable objects; {len(finds)} mutation sites reach one")


def r2(ctx):
    f = ctx.repo.func("beacon.BeaconConfig.settings_map")
    cfg = ctx.cfg(f)
    rets = cfg.return_stmts()
    ok = bool(rets) and all(isinstance(r.value, ast.Call) and dotted(r.value.func) in ("MappingProxyType", "types.MappingProxyType") for r in rets) and not cfg.falls_off_end()
    ctx.ob("R2", "EXIT", f, "return MappingProxyType(...)", ok, "every view is handed out as a read-only proxy" if ok else "settings_map can return a mutable mapping")
    for name in ("settings", "settings_by_index", "raw_settings", "raw_settings_by_index"):
        g = ctx.repo.func(f"beacon.BeaconConfig.{name}")
        calls = [c for c in fn_calls(g.node) if dotted(c.func) == "self.settings_map"]
        rets = [r for r in statements(g.node) if isinstance(r, ast.Return)]
        slots = {dotted(r.value) for r in rets}
        fills = [s for s in statements(g.node) if isinstance(s, ast.Assign) and dotted(s.targets[0]) in slots]
        ok = len(calls) == 1 and len(slots) == 1 and all(s.value is calls[0] for s in fills) and bool(fills)
        ctx.ob("R2", "EXIT", g, name, ok, "returns its cache slot, filled only from settings_map()" if ok else "view does not return a settings_map() proxy from its cache slot")


def r3(ctx):
    n = 0
    for f in ctx.repo.all_funcs():
        if f.module.name == "beacon":
            continue
        for st in body_walk(f.node):
            tgts = []
            if isinstance(st, ast.Assign):
                tgts = st.targets
            elif isinstance(st, (ast.AugAssign, ast.AnnAssign)):
                tgts = [st.target]
            elif isinstance(st, ast.Delete):
                tgts = st.targets
            for t in tgts:
                for tt in (t.elts if isinstance(t, (ast.Tuple, ast.List)) else [t]):
                    if isinstance(tt, ast.Attribute):
                        typ = ctx.rs.expr_type(f, tt.value)
                        if typ == "beacon.BeaconConfig" or (typ is None and dotted(tt.value) in CONFIG_NAMES):
                            n += 1
                            ctx.ob("R3", "ALIAS", f, src(st)[:70], False, f"attribute {tt.attr!r} of a BeaconConfig is written outside beacon.py", st)
            if isinstance(st, ast.Call) and dotted(st.func) in ("setattr", "delattr", "object.__setattr__") and st.args:
                typ = ctx.rs.expr_type(f, st.args[0])
                if typ == "beacon.BeaconConfig" or dotted(st.args[0]) in CONFIG_NAMES:
                    ctx.ob("R3", "ALIAS", f, src(st)[:70], False, "setattr on a BeaconConfig outside beacon.py", st)
    ctx.ob("R3", "ALIAS", "package", "who-may-write BeaconConfig attributes", n == 0, f"{n} attribute writes on BeaconConfig instances outside beacon.py")
    # inside beacon.py: only __init__, from_file and the four cache slots
    allowed = {"BeaconConfig.__init__", "BeaconConfig.from_file", "BeaconConfig.settings", "BeaconConfig.settings_by_index", "BeaconConfig.raw_settings", "BeaconConfig.raw_settings_by_index"}
    for f in ctx.repo.module("beacon").funcs.values():
        for st in statements(f.node):
            tgts = st.targets if isinstance(st, ast.Assign) else [st.target] if isinstance(st, (ast.AugAssign, ast.AnnAssign)) else []
            for t in tgts:
                for tt in (t.elts if isinstance(t, (ast.Tuple, ast.List)) else [t]):
                    if isinstance(tt, ast.Attribute) and ((isinstance(tt.value, ast.Name) and tt.value.id == "self" and f.cls == "BeaconConfig") or ctx.rs.expr_type(f, tt.value) == "beacon.BeaconConfig" or dotted(tt.value) in ("bconfig", "config")):
                        ok = f.qualname in allowed
                        ctx.ob("R3", "ALIAS", f, f"{src(tt)} =", ok, "written during construction / cache fill" if ok else "BeaconConfig attribute written after construction", st, nontrivial=ok)


def r4(ctx):
    for name in ("transform", "recover"):
        f = ctx.repo.func(f"c2.HttpDataTransform.{name}")
        bad = []
        for n in body_walk(f.node):
            if isinstance(n, ast.Call) and isinstance(n.func, ast.Attribute) and n.func.attr in MUTATORS and dotted(n.func.value) in ("self.tsteps", "self.rsteps"):
                bad.append(src(n))
            if isinstance(n, (ast.Assign, ast.AugAssign)):
                for t in (n.targets if isinstance(n, ast.Assign) else [n.target]):
                    d = dotted(t.value) if isinstance(t, ast.Subscript) else dotted(t)
                    if d in ("self.tsteps", "self.rsteps"):
                        bad.append(src(n))
        ctx.ob("R4", "ALIAS", f, "step lists read-only", not bad, f"{name}() does not modify its step lists" if not bad else f"{name}() modifies its step lists: {bad}")
