"""C14 - A parsed beacon configuration is an immutable value (alias / who-may-write analysis).

Technique
---------
Numbers refer to the ALLOWED list of RULES_GUIDE.md ("What counts as *static* here").  No rule of this module evaluates
/repo code on data: there are no sample inputs, no numeric enumeration, no loop unrolling, no regex/grammar subjects, and
no arithmetic or bit-level fact is needed, so no algebraic lemma is relied on.  The `depth` / iteration bounds in the code
limit the *analysis* recursion (term substitution, fixpoint rounds), never a run of the analysed code; exceeding one yields
"unknown" (-> undecided), not a verdict.

* R1  (no mutation reaches a value of the cached views): 1 (syntax-tree queries, resolved callees / call sites, receiver
      types) + 3 (def-use: taint through assignments, tuple targets, argument binding, fields, returns; re-bound locals
      through reaching definitions on the CFG; a loop header is looked at once, its target is "an element of the iterable")
      + 4 (a may-alias abstract domain {may be a store value / not} per local, parameter, field, return, iterated to a
      fixpoint; mutator and fresh-copy tables of csverif/alias.py as transfer rules).
* R2  (every value a view can hand out is a MappingProxyType): 1 + 3 (value provenance terms: returns of package callees
      with arguments bound to parameters, reaching definitions of locals, attribute reads resolved through *all* writes of
      that attribute in the package, all call sites of a parameter) + 4 (abstract domain of value kinds
      {proxy, None, not-a-proxy, unknown}, joined over paths/writes) + 5 (`getattr`/`setattr` names: case analysis over the
      string literals, keyword names and constant tuples the analysed code itself passes) + 2 (`falls_off_end` on the CFG)
      + 6 (constant folding of a literal tuple a `for` iterates over).  An entry read from a keyed table that an attribute
      of the configuration holds (`self.t[k]`, `self.t.get(k)`, `.setdefault`, also through a local bound to the table) is
      resolved like a slot: the union over every item store / setdefault into that table in a method of the class (1, 3),
      the table being bound to a new empty mapping wherever the attribute is bound.  `return x` behind a branch edge that
      dominates it (2) and establishes `x is not None` / x truthy for the same reaching definitions of x drops None.
* R3  (who may bind BeaconConfig attributes): 1 (who-may-write over every store/delete/setattr/`__dict__` form in the
      package, receiver typing) + 3 (freshness of the receiver through reaching definitions, returns of package callees and
      the bindings at every call site) + the value-kind domain of R2 (4) for cache fills.
* R4  (transform()/recover() leave their HttpDataTransform's state alone): 1 (mutator calls, attribute/item stores) + 3
      (reaching definitions to see through local aliases of `self.x` and of its elements; the step lists are located by
      role as the instance attributes that drive a loop, the loop is not unrolled).
* R5  (imported C02.R3, cache slots of the views): see rules/c02.py - path-wise symbolic terms and branch facts over the
      bodies of the four properties (2, 3) and constant folding of the settings_map arguments (6); the properties take no
      input besides `self`, nothing concrete is fed to them.
* R6  (no writer of module/class-level objects; memoised results immutable): 1 (shared objects found from the syntax of
      module/class-level initialisers, decorators) + 3/4 (the same may-alias fixpoint as R1 with those objects as sources,
      `deep_attrs` field sensitivity) + structural classification of the inlined (3) return expression of a memoised
      function.  A memoised function (lru_cache / cache) whose result is not evidently a scalar is a lazily built
      module-level object and is treated like one: 1 (its resolved call sites; any other reference to it; baseline
      vocabulary: which functions are entry points of the package) + 3/4 (the same may-alias fixpoint with the calls of
      the memoised function as sources: locals through reaching definitions, parameters of package callees, returns of
      package helpers, fields).  Violated: an alias of the cached object is modified (mutator call, item / attribute
      store, in-place operator), or the object leaves the reach of the analysis to somebody who shares it with every
      later caller (the memoised function is itself an entry point or has no caller in the package, an entry point
      returns it, it is kept in an attribute / container / global, or yielded).  Undecided: the function is referenced
      other than as the callee of a resolved call, or the object is passed to a callee that cannot be resolved.
      Discharged: the object stays inside the functions that call the factory and they only read it / call
      non-mutator methods on it (for a method of an external-library object that is the module's stated assumption,
      the same one a module-level `Lark` parser is used under).
* R7  (a published view is final): 1 (the `MappingProxyType(..)` constructions found by the provenance walk of R2/R3 plus
      every one written in a method of the configuration class; mutator calls, item stores/deletes, in-place operators on
      the wrapped mapping; resolved package callees and the parameter the mapping is bound to) + 3 (def-use: the local
      names that denote the wrapped mapping - plain copies in both directions -, the locals the proxy is bound to and
      where they leave the function, followed through reaching definitions; a parameter is followed to the bound argument
      at every call site) + 2 (CFG reachability from a *publication point* - the statement at which the proxy is stored in
      an attribute/item, returned, yielded or passed on - to a modification of the wrapped mapping, on a path that does
      not re-bind the name the modification goes through; loops are not unrolled, a publication inside the filling loop
      reaches the fill through the back edge) + 4 (a wrapped mapping that is also held by a configuration attribute: the
      may-alias fixpoint of R1 with the reads of that attribute as sources).  Second clause, same devices (1, 2 and the
      value-kind domain of R2): a cache slot of an existing configuration that receives a proxy is not bound again by a
      later statement on the same CFG path.  No exception model is needed: the condition is about the order of the
      publication and the completion, whatever may fail in between.
* R8  (a cache hit is determined by the inputs of the cached value): 1 (the caches are located by role: a method of the
      configuration class that stores into configuration state after construction - an item of a table held by an
      attribute, `setdefault`, or an attribute slot - and has a `return` whose value may come from the same table / slot;
      receiver typing; baseline vocabulary and call sites for helpers the normaliser left in place) + 3 (backward slice of
      the stored value, of the store key and of the look-up key over reaching definitions: copies, paired tuple targets,
      loop / with targets, augmented assignments, in-place modifications - item stores, mutator calls - of the object a
      local names that reach the use on the CFG; a loop body is looked at once; the result is a set of *parameter names*,
      no term is evaluated) + 2 (control dependence: tests of the branch edges that dominate a defining statement, iterable
      of an enclosing `for`; the conditions that dominate the look-up / its return / the store, compared as (text, outcome,
      reaching definitions of their names)) + 5/6 (a parameter of a non-baseline helper that every call site binds to one
      and the same constant is not an input).  Violated: a parameter in the slice of the stored value occurs neither in
      both keys nor in any condition on the way to the look-up.  Conditions on it that differ between look-up and store,
      a fill whose key cannot be located (`update(..)`), a table filled in one method and read in another: undecided.
      "Takes part in the key" is deliberately weak (the parameter is in the slice of the key): whether the key *determines*
      the parameter is not decided, so no algebraic fact about the key expression is needed.
* R9  (reading a view is pure: a MappingProxyType forwards every read to the mapping it wraps, so the class of that mapping
      must not write in a hook of the read protocol): 1 (the `MappingProxyType(..)` constructions of R7; the class of the
      wrapped object from the resolved constructor call; the class hierarchy inside the package; the read hooks -
      `__getitem__`, `__missing__`, `__contains__`, `__iter__`, `__len__`, `get`, `keys`, `items` ... - that a class of the
      package defines, also through a class-level alias of a package function; modifications of the receiver in a hook: item
      store/delete, in-place operator, mutator method, `super().__setitem__(..)`, `dict.__setitem__(self, ..)`, a package
      callee that modifies the parameter the receiver is bound to) + 3 (provenance of the wrapped object: reaching
      definitions of locals, returns of package callees with bound arguments, the argument at every call site of a
      parameter, every write of a configuration attribute; local aliases of the receiver inside a hook) + 5 (case analysis
      over the library mapping classes named in the analysed code: dict / OrderedDict / Counter / UserDict read without
      writing, `defaultdict(factory)` stores the default on a missing key - a stated fact about the library, nothing is
      executed).  Violated: a located hook modifies its receiver, or the mapping is a defaultdict with a factory.  An object
      whose class cannot be located, an unknown library base class, a metaclass, a hook that keeps state in an *attribute*
      of the mapping: undecided.
"""

from __future__ import annotations

import ast
from typing import Dict, List, Optional, Set, Tuple

from csverif import AnalysisError
from csverif.alias import Alias, MUTATORS
from csverif.astutil import (
    NotConst,
    assignments_to,
    bind_args,
    body_walk,
    const_eval,
    dotted,
    fn_calls,
    param_defaults,
    params,
    src,
    statements,
    strip_cast,
)
from csverif.q import FuncView, reaching_defs, returns_of

STORE_ATTRS = {"settings", "settings_by_index", "raw_settings", "raw_settings_by_index", "settings_tuple", "config_block"}
CONFIG_NAMES = {"bconfig", "config", "self.bconfig", "beacon_config", "self.config"}
CONFIG_CLS = "beacon.BeaconConfig"
VIEWS = ("settings", "settings_by_index", "raw_settings", "raw_settings_by_index")


def make_source(ctx):
    def is_source(f, e):
        if isinstance(e, ast.Attribute) and e.attr in STORE_ATTRS:
            t = ctx.rs.expr_type(f, e.value)
            if t == CONFIG_CLS or (t is None and (dotted(e.value) in CONFIG_NAMES)):
                return f"{src(e)} (cached view of the configuration)"
            if t is None and isinstance(e.value, ast.Name) and e.value.id == "self" and f.cls == "BeaconConfig":
                return f"{src(e)} (cached view of the configuration)"
        return None
    return is_source


# ============================================================================================== flow-sensitive locals
class _FlowAlias(Alias):
    """csverif.alias.Alias with a flow-sensitive lookup of *re-bound* local names and parameters.

    The engine's analysis keeps one fact per local name for the whole function, so `steps = list(steps)` (a parameter
    re-bound to a fresh copy of itself) or `x = view[k]; ...; x = sorted(x); x.reverse()` stay aliased for ever.  Here a
    name that has more than one definition (a parameter counts as one) is evaluated through the definitions that
    *reach* the use on the CFG; single-definition names keep the engine's behaviour.  (Candidate for csverif/alias.py.)"""

    def tainted(self, f, e, depth: int = 0):
        e0 = strip_cast(e) if e is not None else None
        if isinstance(e0, ast.Name) and depth <= 12 and not self.is_source(f, e0):
            defs = assignments_to(f.node, e0.id)
            if defs and len(defs) + (1 if e0.id in params(f.node) else 0) > 1:
                rd = reaching_defs(self.ctx, f, e0.id, e0)
                if rd:
                    for st, v in rd:
                        if st is f.node:
                            r = self.taint_params.get((f.fq, e0.id))
                        elif v is not None:
                            r = self.tainted(f, v, depth + 1)
                        else:  # loop target / unpacking / augmented assignment: the engine's per-name fact
                            r = self.local.get(f.fq, {}).get(e0.id)
                        if r:
                            return r
                    return None
        return super().tainted(f, e, depth)


# ============================================================================================== values of the views
_PROXY_CTORS = {"MappingProxyType", "types.MappingProxyType"}
_MUT_CTORS = {"dict", "list", "set", "bytearray", "collections.defaultdict", "defaultdict", "collections.OrderedDict", "OrderedDict",
              "collections.Counter", "Counter", "collections.deque", "deque"}
_COPY_CALLS = {"copy.copy", "copy.deepcopy", "deepcopy"}
_P, _N, _BAD, _UNK = "proxy", "none", "not-a-proxy", "unknown"

Env = Dict[str, tuple]  # callee parameter -> (function the argument is written in, argument expression, that function's Env)


class _Write:
    """One place where an attribute of a configuration object is (re)bound or deleted."""

    def __init__(self, f, recv, attr, value, node, how):
        self.f, self.recv, self.attr, self.value, self.node, self.how = f, recv, attr, value, node, how

    def label(self) -> str:
        a = self.attr if isinstance(self.attr, str) else "<computed name>" if self.attr is not None else "<any>"
        return f"{src(self.recv)}.{a}"


def _decorators(f) -> Set[str]:
    return {dotted(d.func if isinstance(d, ast.Call) else d) or "" for d in getattr(f.node, "decorator_list", [])}


def _target_pairs(t: ast.AST, v: Optional[ast.AST]) -> List[Tuple[ast.AST, Optional[ast.AST]]]:
    """(single target, value expression or None when the value is one element of an unpacked iterable)."""
    if isinstance(t, (ast.Tuple, ast.List)):
        if isinstance(v, (ast.Tuple, ast.List)) and len(v.elts) == len(t.elts) and not any(isinstance(x, ast.Starred) for x in list(t.elts) + list(v.elts)):
            out = []
            for a, b in zip(t.elts, v.elts):
                out.extend(_target_pairs(a, b))
            return out
        out = []
        for a in t.elts:
            out.extend(_target_pairs(a.value if isinstance(a, ast.Starred) else a, None))
        return out
    return [(t, v)]


class _ConfigObjects:
    """Facts about the instances of one class (the configuration), located by role, never by helper or local names:

    * `writes()`  - every statement of the package that binds/deletes an attribute of an instance: `x.a = v`, tuple targets,
      `x.a += v`, `del x.a`, `setattr(x, k, v)`, `object.__setattr__`, `x.__dict__[k] = v`, `vars(x)[k] = v`, `x.__dict__.update(..)`;
    * `kinds(f, e)` - what an expression inside a function may evaluate to: a read-only proxy (`MappingProxyType(..)`), None,
      something that is evidently not a proxy, or unknown.  Follows re-bound locals through reaching definitions, calls into
      package functions through their return statements (arguments bound to parameters), attribute reads of the instance
      through *all* writes of that attribute anywhere in the package, `getattr(self, k)` through the possible values of k;
    * `fresh(f, e, at)` - is the object e denotes at `at` still under construction (self in `__init__`, a local bound to a
      constructor call, a parameter that every call site binds to such an object)."""

    def __init__(self, ctx, cls_fq: str):
        self.ctx, self.cls_fq = ctx, cls_fq
        self.mod, _, self.cname = cls_fq.partition(".")
        self._active: Set[tuple] = set()
        self._writes: Optional[List[_Write]] = None
        self._sites: Optional[Dict[str, List[tuple]]] = None
        self.proxy_sites: List[tuple] = []  # (function, MappingProxyType(..) call) a traced value was found to come from

    def is_proxy_ctor(self, f, e: ast.AST) -> bool:
        if not isinstance(e, ast.Call):
            return False
        if dotted(e.func) in _PROXY_CTORS:
            return True
        cal = self.ctx.rs.resolve_call(f, e)
        return cal.kind == "external" and cal.fq in _PROXY_CTORS

    # ------------------------------------------------------------------ receivers
    def is_self(self, f, e) -> bool:
        ps = params(f.node)
        return (isinstance(e, ast.Name) and f.cls == self.cname and f.module.name == self.mod and bool(ps) and e.id == ps[0]
                and not ({"staticmethod", "classmethod"} & _decorators(f)) and not assignments_to(f.node, e.id))

    def is_instance(self, f, e) -> bool:
        if self.is_self(f, e):
            return True
        t = self.ctx.rs.expr_type(f, e)
        return t == self.cls_fq or (t is None and dotted(e) in CONFIG_NAMES)

    def _dict_of(self, f, e) -> Optional[ast.AST]:
        """x for `x.__dict__` / `vars(x)` where x is an instance."""
        if isinstance(e, ast.Attribute) and e.attr == "__dict__" and self.is_instance(f, e.value):
            return e.value
        if isinstance(e, ast.Call) and dotted(e.func) == "vars" and len(e.args) == 1 and self.is_instance(f, e.args[0]):
            return e.args[0]
        return None

    # ------------------------------------------------------------------ writes
    def writes(self) -> List[_Write]:
        if self._writes is not None:
            return self._writes
        out: List[_Write] = []
        for f in self.ctx.repo.all_funcs():
            if self._inlined_away(f):
                continue
            for st in body_walk(f.node):
                pairs: List[Tuple[ast.AST, Optional[ast.AST]]] = []
                how = "store"
                if isinstance(st, ast.Assign):
                    for t in st.targets:
                        pairs.extend(_target_pairs(t, st.value))
                elif isinstance(st, ast.AnnAssign) and st.value is not None:
                    pairs.append((st.target, st.value))
                elif isinstance(st, ast.AugAssign):
                    pairs.append((st.target, None))
                    how = "update"
                elif isinstance(st, ast.Delete):
                    for t in st.targets:
                        pairs.extend(_target_pairs(t, None))
                    how = "delete"
                elif isinstance(st, (ast.For, ast.AsyncFor)):
                    pairs.extend(_target_pairs(st.target, None))
                for t, v in pairs:
                    if isinstance(t, ast.Attribute) and self.is_instance(f, t.value):
                        out.append(_Write(f, t.value, t.attr, v, st, how))
                    elif isinstance(t, ast.Subscript):
                        x = self._dict_of(f, t.value)
                        if x is not None:
                            out.append(_Write(f, x, t.slice, v, st, how))
                if isinstance(st, ast.Call):
                    d = dotted(st.func)
                    if d in ("setattr", "object.__setattr__") and len(st.args) == 3 and self.is_instance(f, st.args[0]):
                        out.append(_Write(f, st.args[0], st.args[1], st.args[2], st, "store"))
                    elif d in ("delattr", "object.__delattr__") and len(st.args) == 2 and self.is_instance(f, st.args[0]):
                        out.append(_Write(f, st.args[0], st.args[1], None, st, "delete"))
                    elif isinstance(st.func, ast.Attribute) and st.func.attr == "__setattr__" and len(st.args) == 2 and self.is_instance(f, st.func.value):
                        out.append(_Write(f, st.func.value, st.args[0], st.args[1], st, "store"))
                    elif isinstance(st.func, ast.Attribute) and st.func.attr in MUTATORS:
                        x = self._dict_of(f, st.func.value)
                        if x is not None:
                            out.append(_Write(f, x, None, None, st, "update"))
        self._writes = out
        return out

    def _inlined_away(self, f) -> bool:
        """A helper the normaliser inlined into every one of its call sites: its statements are judged where they were
        inlined (the definition that is left behind has no caller)."""
        return self._was_inlined(f) and not self.sites(f)

    def _was_inlined(self, f) -> bool:
        st = getattr(self.ctx.repo, "norm_stats", {}).get(f.module.name, {})
        return f.qualname in {x.split(" (")[0] for x in st.get("inlined", [])}

    # ------------------------------------------------------------------ call sites / parameter binding
    def sites(self, g) -> List[tuple]:
        if self._sites is None:
            self._sites = {}
            for f in self.ctx.repo.all_funcs():
                for c in fn_calls(f.node):
                    cal = self.ctx.rs.resolve_call(f, c)
                    tgt = cal.func if cal.kind == "func" else self.ctx.rs.class_init(cal.fq) if cal.kind == "class" else None
                    if tgt is not None:
                        self._sites.setdefault(tgt.fq, []).append((f, c))
            # calls written in a helper that was inlined away are judged where they were inlined
            for _round in range(3):
                dead = {f.fq for f in self.ctx.repo.all_funcs() if self._was_inlined(f) and not self._sites.get(f.fq)}
                self._sites = {k: [(cf, c) for cf, c in v if cf.fq not in dead] for k, v in self._sites.items()}
        return self._sites.get(g.fq, [])

    def bind(self, cf, call: ast.Call, g, cenv: Env) -> Env:
        """Environment of callee g for the call `call` written in cf."""
        ps = params(g.node)
        cal = self.ctx.rs.resolve_call(cf, call)
        skip = bool(g.cls and ps and "staticmethod" not in _decorators(g) and (cal.kind == "class" or isinstance(call.func, ast.Attribute) or cal.recv_type))
        env: Env = {}
        dfl = list(param_defaults(g.node).values())
        for p, a in bind_args(call, g.node, skip_self=skip).items():
            if a is None:
                continue
            env[p] = (g, a, {}) if any(a is d for d in dfl) else (cf, a, cenv)
        if skip and cal.kind != "class" and isinstance(call.func, ast.Attribute) and "classmethod" not in _decorators(g):
            env[ps[0]] = (cf, call.func.value, cenv)
        return env

    def _param_values(self, f, name: str, env: Env) -> Optional[List[tuple]]:
        """(function, expression, env) triples a never-rebound parameter may be bound to; None when not enumerable."""
        if name in env:
            return [env[name]]
        out = []
        for cf, c in self.sites(f):
            b = self.bind(cf, c, f, {})
            if name not in b:
                return None
            out.append(b[name])
        return out or None

    # ------------------------------------------------------------------ attribute names (getattr / setattr keys)
    def names(self, f, k: Optional[ast.AST], env: Env, depth: int = 0) -> Optional[Set[str]]:
        if k is None or depth > 8:
            return None
        k = strip_cast(k)
        if isinstance(k, ast.Constant):
            return {k.value} if isinstance(k.value, str) else None
        if isinstance(k, ast.IfExp):
            a, b = self.names(f, k.body, env, depth + 1), self.names(f, k.orelse, env, depth + 1)
            return None if a is None or b is None else a | b
        if isinstance(k, ast.Name):
            defs = assignments_to(f.node, k.id)
            if k.id in params(f.node) and not defs:
                vals = self._param_values(f, k.id, env)
                if vals is None:
                    return None
                out: Set[str] = set()
                for cf, ce, cenv in vals:
                    r = self.names(cf, ce, cenv, depth + 1)
                    if r is None:
                        return None
                    out |= r
                return out
            if len(defs) == 1 and defs[0][1] is not None:
                return self.names(f, defs[0][1], env, depth + 1)
            if len(defs) == 1 and isinstance(defs[0][0], (ast.For, ast.AsyncFor)):
                loop = defs[0][0]
                kw = self._kwargs_keys(f, loop, k.id)
                if kw is not None:
                    return kw
                if isinstance(loop.target, ast.Name):
                    try:  # `for name in ("a", "b"):`
                        vals = const_eval(loop.iter)
                    except (NotConst, KeyError, TypeError, ValueError):
                        return None
                    if isinstance(vals, (list, tuple, set)) and vals and all(isinstance(x, str) for x in vals):
                        return set(vals)
        return None

    def _kwargs_keys(self, f, loop, name: str) -> Optional[Set[str]]:
        """`for name, value in kw.items():` / `for name in kw:` over the `**kw` parameter of f: the keyword names that the
        call sites of f pass and that are not parameters of f."""
        kwp = getattr(f.node.args.kwarg, "arg", None)
        if kwp is None or assignments_to(f.node, kwp):
            return None
        it, tgt = strip_cast(loop.iter), loop.target
        if isinstance(it, ast.Call) and isinstance(it.func, ast.Attribute) and not it.args and it.func.attr in ("items", "keys"):
            keyed = it.func.attr == "items"
            it = it.func.value
        else:
            keyed = False
        if not (isinstance(it, ast.Name) and it.id == kwp):
            return None
        if keyed:
            if not (isinstance(tgt, (ast.Tuple, ast.List)) and len(tgt.elts) == 2 and isinstance(tgt.elts[0], ast.Name) and tgt.elts[0].id == name):
                return None
        elif not (isinstance(tgt, ast.Name) and tgt.id == name):
            return None
        sites = self.sites(f)
        if not sites:
            return None
        out: Set[str] = set()
        ps = set(params(f.node))
        for _cf, c in sites:
            if any(kx.arg is None for kx in c.keywords):
                return None
            out |= {kx.arg for kx in c.keywords if kx.arg not in ps}
        return out

    def write_names(self, w: _Write) -> Optional[Set[str]]:
        if isinstance(w.attr, str):
            return {w.attr}
        return self.names(w.f, w.attr, {})

    # ------------------------------------------------------------------ what may a value be
    @staticmethod
    def _merge(out: Dict[str, str], more: Dict[str, str]) -> Dict[str, str]:
        for k, v in more.items():
            out.setdefault(k, v)
        return out

    def kinds(self, f, e: Optional[ast.AST], env: Optional[Env] = None, depth: int = 0) -> Dict[str, str]:
        env = env or {}
        if e is None:
            return {_N: "None"}
        e = strip_cast(e)
        if depth > 14:
            return {_UNK: "analysis depth exceeded"}
        if isinstance(e, ast.Constant):
            return {_N: "None"} if e.value is None else {_BAD: f"the constant {src(e)[:30]}"}
        if isinstance(e, (ast.Dict, ast.List, ast.Set, ast.ListComp, ast.DictComp, ast.SetComp, ast.Tuple, ast.GeneratorExp, ast.JoinedStr)):
            return {_BAD: f"`{src(e)[:40]}` ({type(e).__name__})"}
        if isinstance(e, ast.NamedExpr):
            return self.kinds(f, e.value, env, depth + 1)
        if isinstance(e, ast.IfExp):
            return self._merge(self.kinds(f, e.body, env, depth + 1), self.kinds(f, e.orelse, env, depth + 1))
        if isinstance(e, ast.BoolOp):
            out: Dict[str, str] = {}
            for v in e.values:
                self._merge(out, self.kinds(f, v, env, depth + 1))
            return out
        if isinstance(e, ast.Name):
            return self._name_kinds(f, e, env, depth)
        if isinstance(e, ast.Attribute):
            if self.is_self(f, e.value):
                return self.slot(e.attr, depth + 1)
            return {_UNK: f"`{src(e)[:40]}`"}
        if isinstance(e, ast.Call):
            return self._call_kinds(f, e, env, depth)
        if isinstance(e, ast.Subscript) and not isinstance(e.slice, ast.Slice):
            tabs = _tables_of(self.ctx, self, f, e.value)
            if tabs:  # an entry of a table held by an attribute of the instance
                out = {}
                for a in sorted(tabs):
                    self._merge(out, self.entries(a, depth + 1))
                return out
        return {_UNK: f"`{src(e)[:40]}`"}

    def entries(self, attr: str, depth: int = 0) -> Dict[str, str]:
        """What an entry of the table held by `self.<attr>` may be: the union over every item store / setdefault into that
        table in a method of the class; the table itself must start empty wherever the attribute is bound."""
        key = ("table", attr)
        if key in self._active:
            return {}
        self._active.add(key)
        try:
            out: Dict[str, str] = {}
            for w in self.writes():
                ns = self.write_names(w)
                if w.how == "delete" or (ns is not None and attr not in ns):
                    continue
                v = strip_cast(w.value) if w.value is not None else None
                empty = (isinstance(v, ast.Dict) and not v.keys) or (isinstance(v, ast.Call) and not v.args and not v.keywords and dotted(v.func) in _MUT_CTORS)
                if not empty:
                    self._merge(out, {_UNK: f"the table {attr!r} is bound to `{src(w.node)[:40]}` in {w.f.qualname}, not to a new empty mapping"})
            for g in self.ctx.repo.methods(self.cls_fq):
                if self._inlined_away(g):
                    continue
                for s in _cache_accesses(self.ctx, self, g, hits=False)[0]:
                    if s.form != "item" or s.attr != attr:
                        continue
                    if s.key is None:
                        self._merge(out, {_UNK: f"`{src(s.node)[:40]}` in {g.qualname} fills the table {attr!r}"})
                    else:
                        k = self.kinds(g, s.value, {}, depth + 1)
                        self._merge(out, {a: (b if a in (_P, _N) else f"{b} stored in the table {attr!r} by {g.qualname}") for a, b in k.items()})
            return out
        finally:
            self._active.discard(key)

    def _name_kinds(self, f, e: ast.Name, env: Env, depth: int) -> Dict[str, str]:
        rd = reaching_defs(self.ctx, f, e.id, e)
        if not rd:
            defs = assignments_to(f.node, e.id)
            rd = list(defs)
            if e.id in params(f.node):
                rd.append((f.node, None))
        if not rd:
            c = f.module.consts.get(e.id)
            if c is not None:  # a module-level object: judged by its defining expression
                return self.kinds(f, c, {}, depth + 1)
            return {_UNK: f"`{e.id}` is not a local"}
        out: Dict[str, str] = {}
        for st, v in rd:
            if st is f.node:
                vals = self._param_values(f, e.id, env)
                if vals is None:
                    self._merge(out, {_UNK: f"parameter `{e.id}`"})
                else:
                    for cf, ce, cenv in vals:
                        self._merge(out, self.kinds(cf, ce, cenv, depth + 1))
            elif v is None:
                self._merge(out, {_UNK: f"`{e.id}` bound by unpacking / a loop"})
            else:
                self._merge(out, self.kinds(f, v, env, depth + 1))
        return out

    def _call_kinds(self, f, e: ast.Call, env: Env, depth: int) -> Dict[str, str]:
        d = dotted(e.func)
        cal = self.ctx.rs.resolve_call(f, e)
        if self.is_proxy_ctor(f, e):
            if not any(c is e for _g, c in self.proxy_sites):
                self.proxy_sites.append((f, e))
            return {_P: f"`{src(e)[:40]}`"}
        if d == "getattr" and len(e.args) in (2, 3) and self.is_self(f, e.args[0]):
            ns = self.names(f, e.args[1], env)
            if ns is None:
                return {_UNK: f"`{src(e)[:40]}`: the attribute name cannot be determined"}
            out: Dict[str, str] = {}
            for n in sorted(ns):
                self._merge(out, self.slot(n, depth + 1))
            if len(e.args) == 3:
                self._merge(out, self.kinds(f, e.args[2], env, depth + 1))
            return out
        if cal.kind == "func" and cal.func is not None:
            return self.returns(cal.func, self.bind(f, e, cal.func, env), depth + 1)
        if isinstance(e.func, ast.Attribute) and e.func.attr in _LOOKUP_METHODS and 1 <= len(e.args) <= 2 and not e.keywords:
            tabs = _tables_of(self.ctx, self, f, e.func.value)
            if tabs:  # table.get(k[, default]) / table.setdefault(k[, value]) on a table held by an attribute of the instance
                out = {}
                for a in sorted(tabs):
                    self._merge(out, self.entries(a, depth + 1))
                self._merge(out, self.kinds(f, e.args[1], env, depth + 1) if len(e.args) == 2 else {_N: f"`{src(e)[:40]}` without a default"})
                return out
        if d in _MUT_CTORS or d in _COPY_CALLS or (isinstance(e.func, ast.Attribute) and e.func.attr == "copy" and not e.args):
            return {_BAD: f"`{src(e)[:40]}` builds a new mutable object"}
        return {_UNK: f"`{src(e)[:40]}`"}

    def returns(self, g, env: Optional[Env] = None, depth: int = 0) -> Dict[str, str]:
        key = ("ret", g.fq)
        if key in self._active:
            return {}
        self._active.add(key)
        try:
            if any(isinstance(n, (ast.Yield, ast.YieldFrom)) for n in body_walk(g.node)):
                return {_UNK: f"{g.qualname} is a generator"}
            out: Dict[str, str] = {}
            for r in returns_of(g):
                ks = self.kinds(g, r.value, env or {}, depth + 1)
                if _N in ks and self._not_none_here(g, r):
                    ks = {a: b for a, b in ks.items() if a != _N}
                self._merge(out, ks)
            if self.ctx.cfg(g).falls_off_end():
                self._merge(out, {_N: f"{g.qualname} can end without a return"})
            return out
        finally:
            self._active.discard(key)

    def _not_none_here(self, g, r: ast.Return) -> bool:
        """`return x` behind a branch edge that establishes `x is not None` / x truthy for the same binding of local x."""
        from csverif.q import dominating_conditions

        x = strip_cast(r.value) if r.value is not None else None
        if not isinstance(x, ast.Name):
            return False
        fv = FuncView.of(g.node)
        here = {id(st) for st, _v in reaching_defs(self.ctx, g, x.id, x)}
        for text, pol, test in dominating_conditions(self.ctx, g, r):
            if (text, pol) not in ((f"{x.id} is not None", True), (f"{x.id} is None", False), (x.id, True)) or id(test) not in fv.parent:
                continue
            probe = next((n for n in ast.walk(test) if isinstance(n, ast.Name) and n.id == x.id), None)
            if probe is not None and {id(st) for st, _v in reaching_defs(self.ctx, g, x.id, probe)} == here:
                return True
        return False

    def slot(self, attr: str, depth: int = 0) -> Dict[str, str]:
        """What `self.<attr>` of an instance may hold: the union over every write of that attribute in the package."""
        key = ("slot", attr)
        if key in self._active:
            return {}
        self._active.add(key)
        try:
            prop = self.ctx.rs.property_of(self.cls_fq, attr)
            if prop is not None:
                return self.returns(prop, {}, depth + 1)
            out: Dict[str, str] = {}
            found = False
            for w in self.writes():
                if w.how == "delete":
                    continue
                ns = self.write_names(w)
                if ns is not None and attr not in ns:
                    continue
                found = True
                if w.how == "update" and ns is not None:
                    self._merge(out, {_BAD: f"`{src(w.node)[:40]}` in {w.f.qualname} updates it in place"})
                elif w.value is None:
                    self._merge(out, {_UNK: f"`{src(w.node)[:40]}` in {w.f.qualname}"})
                else:
                    k = self.kinds(w.f, w.value, {}, depth + 1)
                    self._merge(out, {a: (b if a in (_P, _N) else f"{b} stored by {w.f.qualname}") for a, b in k.items()})
            if not found:
                v = self.ctx.repo.class_attrs(self.cls_fq).get(attr)
                if isinstance(v, ast.Constant) and v.value is None:
                    return {_N: "class-level None"}
                return {_UNK: f"attribute {attr!r} is never assigned"}
            return out
        finally:
            self._active.discard(key)

    # ------------------------------------------------------------------ objects under construction
    def fresh(self, f, e: ast.AST, at: ast.AST, env: Optional[Env] = None, depth: int = 0) -> bool:
        env = env or {}
        e = strip_cast(e)
        if depth > 8:
            return False
        if isinstance(e, ast.Call):
            cal = self.ctx.rs.resolve_call(f, e)
            if cal.kind == "class":
                return cal.fq == self.cls_fq
            if cal.kind == "func" and cal.func is not None:
                g = cal.func
                key = ("fresh", g.fq)
                if key in self._active:
                    return True
                self._active.add(key)
                try:
                    rets = returns_of(g)
                    genv = self.bind(f, e, g, env)
                    return bool(rets) and not self.ctx.cfg(g).falls_off_end() and all(r.value is not None and self.fresh(g, r.value, r, genv, depth + 1) for r in rets)
                finally:
                    self._active.discard(key)
            return False
        if not isinstance(e, ast.Name):
            return False
        if self.is_self(f, e) and f.qualname == f"{self.cname}.__init__":
            return True
        rd = reaching_defs(self.ctx, f, e.id, at)
        if not rd:
            return False
        for st, v in rd:
            if st is f.node:
                vals = self._param_values(f, e.id, env)
                if not vals:
                    return False
                key = ("fresh-param", f.fq, e.id)
                if key in self._active:
                    continue
                self._active.add(key)
                try:
                    if not all(self.fresh(cf, ce, ce, cenv, depth + 1) for cf, ce, cenv in vals):
                        return False
                finally:
                    self._active.discard(key)
            elif v is None or not self.fresh(f, v, st, env, depth + 1):
                return False
        return True


def _config(ctx) -> _ConfigObjects:
    co = getattr(ctx, "_c14_config_objects", None)
    if co is None or co.ctx is not ctx:
        co = _ConfigObjects(ctx, CONFIG_CLS)
        ctx._c14_config_objects = co
    return co


def run(ctx):
    rep = ctx.rep
    rep.explanation = (
        "Interprocedural may-alias + mutation analysis over the whole package: values read out of the cached settings views "
        "of a BeaconConfig (settings, settings_by_index, raw_settings, raw_settings_by_index, settings_tuple, config_block) "
        "are abstract locations; taint follows assignments, tuple swaps, parameter passing, self.attr stores, returns, "
        "element access and iteration, and is cut by fresh copies (re-bound locals are followed through reaching definitions). "
        "No mutator call / item store / in-place += / attribute store may reach such a location. Plus: everything a view can "
        "return is a MappingProxyType (value provenance through cache slots and helpers), BeaconConfig attributes are only "
        "bound while the object is under construction or to fill a cache slot with such a proxy, transform()/recover() do "
        "not modify the state of their HttpDataTransform. A view is published complete (R7): no modification of the mapping "
        "behind a view's proxy is reachable on the CFG from the statement that hands the proxy out (slot store, return, "
        "argument), and a slot that received a proxy is not bound a second time on the same path - so a failure while a view "
        "is being computed cannot leave a half-built or provisional view cached. A cache hit is determined by the inputs of "
        "the cached value (R8): where a method keeps a result in the configuration (keyed table or slot) and answers later "
        "calls from there, every parameter in the backward slice (def-use + control dependence) of the stored value takes "
        "part in the key of the store and of the look-up, or the look-up is conditioned on it like the store - otherwise "
        "the result of a view access depends on which views were read before. Reading a view is pure (R9): the read-only "
        "proxy forwards every read (subscript -> __getitem__/__missing__, in, get, iteration, len, ==) to the mapping it wraps, "
        "so the class of the mapping behind every view proxy is located (constructor reached through locals, helpers, call "
        "sites, attribute writes) and no hook of the read protocol it or its package bases define may modify the mapping; "
        "library mappings are judged by a table (dict/OrderedDict/Counter/UserDict pure, defaultdict with a factory stores on "
        "a missing key) - otherwise a look-up changes len/keys/items of the cached view and what later operations produce. "
        "Shared objects (R6): no mutation reaches an object built at module or class level; the result of a memoised function "
        "(lru_cache/cache) is such an object built on first use - a scalar result is fine, any other result is followed from "
        "every call of the function through the same may-alias analysis: no user may modify it, and it may not be handed to "
        "the callers of an entry point of the package or kept in an attribute / container (everybody who got it there "
        "would share one object with every later identical call)."
    )
    rep.not_decided = ["result equality of every operation before/after (follows from R1-R4 for the step-list channel)", "other channels such as RNG state",
                       "R7: a reference to the wrapped mapping that is retained by a callee or a container before the publication (only "
                       "local names, configuration attributes and modifying package callees are followed)",
                       "which statements can actually raise (R7 demands the publish-last order regardless)",
                       "R8: whether a cache key determines (rather than merely involves) each input of the cached value; whether equal "
                       "conditions on a non-boolean input at look-up and store pin its value; caches addressed through computed "
                       "attribute names (getattr/setattr helpers: judged by R5) or filled and read in different functions",
                       "R6: whether a method outside the mutator table, called on a shared (module-level or memoised) object of an "
                       "external-library class, changes state of that object that a later call can observe (assumed not to); a shared "
                       "object captured by a nested function or lambda; whether a memoised function's result depends on anything but "
                       "its arguments (argument identity vs. equality, state of a file-like argument)",
                       "R9: read hooks of the *values* stored in a view (only the mapping itself is judged); a read hook that keeps state "
                       "in an attribute of the mapping (undecided); mapping classes from outside the package other than the tabulated ones"]
    rep.trusted_base = ["CPython ast", "mutator / fresh-copy tables in csverif/alias.py", "call resolution by construction/annotation",
                        "baseline vocabulary csverif/baseline_names.json (R8, R6 memoised results: which functions are public entry points)",
                        "R9: types.MappingProxyType forwards exactly the read protocol of the wrapped mapping; the reads of dict, "
                        "OrderedDict, Counter and UserDict do not modify them; defaultdict.__missing__ stores factory() under the missing key"]
    rep.assumptions = ["objects handed to external libraries are not mutated by them", "tuples/bytes/str/int elements are immutable",
                       "a method of an external-library object whose name is not in the mutator table leaves the state of its receiver "
                       "that later calls can observe unchanged (module-level objects such as the lark parser; R6: confined memoised objects)"]
    al = _FlowAlias(ctx, make_source(ctx)).run()
    # count the reads of the store we analysed
    reads = 0
    for f in ctx.repo.all_funcs():
        for n in body_walk(f.node):
            if al.is_source(f, n):
                reads += 1
    rep.count("store_reads", reads, floor=25)
    rep.extra["alias_iterations"] = al.iterations
    rep.extra["tainted_parameters"] = {f"{k[0]}({k[1]})": v for k, v in sorted(al.taint_params.items())}
    rep.extra["tainted_fields"] = {f"{k[0]}.{k[1]}": v for k, v in sorted(al.taint_fields.items())}
    rep.extra["tainted_returns"] = dict(sorted(al.taint_returns.items()))
    finds = al.findings()
    # R1: one obligation per function that handles a store value, violated per mutation site
    handled = sorted({k[0] for k in al.taint_params} | {fq for fq, loc in al.local.items() if loc})
    for fq in handled:
        f = ctx.repo.func(fq)
        mine = [x for x in finds if x.func.fq == fq]
        if not mine:
            ctx.ob("R1", "ALIAS", f, "handles settings values", True, "receives or reads values of the cached settings views and never mutates them")
    for x in finds:
        ctx.ob("R1", "ALIAS", x.func, f"{x.kind} on {x.target}", False,
               f"`{src(x.node)[:70]}` mutates an object that may be a value of the cached settings views: {x.target} <- {x.why}", x.node)
    rep.count("functions_handling_store_values", len(handled), floor=5)
    # R1b: constructions of HttpDataTransform from settings
    n = 0
    for f in ctx.repo.all_funcs():
        for c in fn_calls(f.node):
            cal = ctx.rs.resolve_call(f, c)
            if cal.kind == "class" and cal.fq == "c2.HttpDataTransform":
                for a in list(c.args) + [k.value for k in c.keywords]:
                    if al.tainted(f, a):
                        n += 1
    rep.count("transform_constructions_from_settings", n, floor=3)
    r2(ctx)
    r3(ctx)
    r4(ctx)
    # "each operation gives the same result no matter what was done before": the per-view cache slots (C02.R3)
    from rules import c02

    try:
        ctx.import_obligations("R5", c02.r3)
    except AnalysisError:
        raise
    except Exception as e:  # the imported rule crashed on this shape of the views: an analysis error, the other rules still report
        ctx.rep.error(f"imported rule C02.R3 failed: {type(e).__name__}: {e}")
    r6(ctx)
    r7(ctx)
    r8(ctx)
    r9(ctx)


def _holds_mutable(v: ast.AST) -> bool:
    for n in ast.walk(v):
        if isinstance(n, (ast.Dict, ast.List, ast.Set, ast.ListComp, ast.DictComp, ast.SetComp)):
            return True
        if isinstance(n, ast.Call) and dotted(n.func) in _MUT_CTORS:
            return True
    return False


_MEMO_DECOS = {"lru_cache", "cache", "memoize", "memoized"}
_PER_INSTANCE_MEMO = {"cached_property"}


def _scalar_result(v: ast.AST) -> bool:
    """The (inlined) return expression evidently denotes a value that cannot be modified."""
    return isinstance(v, (ast.Constant, ast.JoinedStr, ast.Compare)) \
        or (isinstance(v, ast.Call) and dotted(v.func) in ("bytes", "str", "int", "bool", "float", "frozenset", "len")) \
        or (isinstance(v, ast.Call) and isinstance(v.func, ast.Attribute)
            and v.func.attr in ("decode", "encode", "hex", "join", "format", "strip", "lower", "upper", "digest", "hexdigest"))


def _shared_result_uses(ctx, g, callers: Dict[str, int]):
    """Where the one object that the memoised function g hands to all of its callers goes.  The calls of g are the sources
    of the may-alias fixpoint of R1/R6 (locals through reaching definitions, parameters of package callees, returns of
    package helpers, fields).  Returns (modifications, escapes, uses that cannot be followed, functions with a call of g):

    * modification: a mutator call / item or attribute store / in-place operator on an alias of the object;
    * escape: the object gets out of the reach of that analysis - g is itself an entry point (a baseline function, or no
      call of it in the package), an entry point returns it, it is kept in an attribute, in a container, in a global, or
      yielded.  Whoever receives it there shares it with every later caller;
    * cannot be followed: g referenced other than as the callee of a resolved call, the object passed to a callee that
      is not resolved.  Arguments of external-library calls fall under the module's stated assumption."""
    from csverif.normalise import baseline

    def is_source(f, e):
        if isinstance(e, ast.Call):
            cal = ctx.rs.resolve_call(f, e)
            if cal.kind == "func" and cal.func is not None and cal.func.fq == g.fq:
                return f"the object cached by {g.fq}()"
        return None

    def public(h) -> bool:
        return h.qualname in set((baseline().get(h.module.name) or {}).get("functions", []))

    al = _FlowAlias(ctx, is_source, deep_attrs=True).run()
    muts = [f"`{src(x.node)[:60]}` in {x.func.fq} ({x.kind} on {x.target})" for x in al.findings()]
    escapes: List[str] = []
    unlocated: List[str] = []
    uses: List[str] = []
    located: Set[int] = set()
    for f in ctx.repo.all_funcs():
        for c in fn_calls(f.node):
            if is_source(f, c):
                located.add(id(c.func))
                uses.append(f.fq)
    short = g.qualname.split(".")[-1]
    for m in ctx.repo.modules.values():
        for n in ast.walk(m.tree):
            if ((isinstance(n, ast.Name) and n.id == short) or (isinstance(n, ast.Attribute) and n.attr == short)) and id(n) not in located \
                    and isinstance(n.ctx, ast.Load):
                unlocated.append(f"{m.name}: `{short}` is referenced other than as the callee of a resolved call (line {getattr(n, 'lineno', '?')})")
    if public(g):
        escapes.append(f"{g.fq} is an entry point of the package: every outside caller receives the cached object")
    elif not uses and not unlocated:
        escapes.append(f"no call of {g.fq} in the package: it is there for outside callers, who all receive the cached object")
    for hfq, why in sorted(al.taint_returns.items()):
        if hfq == g.fq:
            continue
        h = ctx.repo.func(hfq)
        if public(h) or not callers.get(hfq):
            escapes.append(f"returned to the callers of {hfq}")
    for (cls, attr), why in sorted(al.taint_fields.items()):
        escapes.append(f"kept in attribute {cls}.{attr}")
    for f in ctx.repo.all_funcs():
        if not al.local.get(f.fq) and f.fq not in uses and not any(k[0] == f.fq for k in al.taint_params):
            continue
        glob = {n for st in ast.walk(f.node) if isinstance(st, (ast.Global, ast.Nonlocal)) for n in st.names}
        for n in body_walk(f.node):
            if isinstance(n, (ast.Yield, ast.YieldFrom)) and n.value is not None and al.tainted(f, n.value):
                escapes.append(f"yielded by {f.fq}")
            elif isinstance(n, (ast.List, ast.Tuple, ast.Set)) and isinstance(n.ctx if hasattr(n, "ctx") else ast.Load(), ast.Load) \
                    and any(al.tainted(f, x) for x in n.elts):
                escapes.append(f"put in a container in {f.fq}: `{src(n)[:40]}`")
            elif isinstance(n, ast.Dict) and any(x is not None and al.tainted(f, x) for x in list(n.keys) + list(n.values)):
                escapes.append(f"put in a container in {f.fq}: `{src(n)[:40]}`")
            elif isinstance(n, (ast.Assign, ast.AnnAssign, ast.AugAssign)) and getattr(n, "value", None) is not None and al.tainted(f, n.value):
                for t in (n.targets if isinstance(n, ast.Assign) else [n.target]):
                    for tt in ast.walk(t):
                        if isinstance(tt, (ast.Subscript, ast.Attribute)) and isinstance(tt.ctx, ast.Store):
                            escapes.append(f"stored in `{src(tt)[:40]}` in {f.fq}")
                        elif isinstance(tt, ast.Name) and tt.id in glob:
                            escapes.append(f"bound to the global `{tt.id}` in {f.fq}")
            elif isinstance(n, ast.Call):
                args = [a.value if isinstance(a, ast.Starred) else a for a in n.args] + [k.value for k in n.keywords]
                hit = [a for a in args if al.tainted(f, a)]
                if not hit:
                    continue
                if isinstance(n.func, ast.Attribute) and n.func.attr in MUTATORS:
                    escapes.append(f"put in a container in {f.fq}: `{src(n)[:40]}`")
                    continue
                cal = ctx.rs.resolve_call(f, n)
                if cal.kind in ("func", "class") or dotted(n.func) in _KNOWN_PURE:
                    continue  # followed into the callee by the fixpoint / builtin that neither keeps nor changes its argument
                if cal.kind == "external" or (cal.kind == "builtin-method"):
                    continue  # rep.assumptions: objects handed to external libraries are not mutated by them
                unlocated.append(f"passed to a callee that is not resolved in {f.fq}: `{src(n)[:40]}`")
    return muts, sorted(set(escapes)), sorted(set(unlocated)), uses


_KNOWN_PURE = {"len", "isinstance", "id", "hash", "type", "repr", "str", "bool", "print", "iter", "list", "tuple", "sorted", "dict", "set",
               "frozenset", "enumerate", "zip", "reversed", "any", "all", "sum", "min", "max", "callable", "getattr", "hasattr"}


def r6(ctx):
    """No function mutates an object that lives at module or class level: such an object is shared by every
    configuration, decoder and call, so writing to it makes results depend on what was done before."""
    shared_mod, shared_cls = {}, {}
    for m in ctx.repo.modules.values():
        for name, v in m.consts.items():
            if _holds_mutable(v) and not (isinstance(v, ast.Call) and dotted(v.func) in ("MappingProxyType", "types.MappingProxyType", "frozenset", "tuple")):
                shared_mod[(m.name, name)] = v
        for cq in m.classes:
            for name, v in ctx.repo.class_attrs(f"{m.name}.{cq}").items():
                if _holds_mutable(v):
                    shared_cls[(m.name, cq, name)] = v

    def is_source(f, e):
        if isinstance(e, ast.Name) and (f.module.name, e.id) in shared_mod and isinstance(e.ctx, ast.Load):
            if e.id not in params(f.node) and not assignments_to(f.node, e.id):
                return f"module-level object {f.module.name}.{e.id}"
        if isinstance(e, ast.Attribute):
            b = dotted(e.value)
            if b in ("self", "cls") and f.cls:
                # class attribute read through the instance (unless the instance attribute is assigned in the class)
                c = f.cls
                seen = set()
                while c and c not in seen:
                    seen.add(c)
                    if (f.module.name, c, e.attr) in shared_cls:
                        inst = any(isinstance(t, ast.Attribute) and dotted(t.value) == "self" and t.attr == e.attr
                                   for g in ctx.repo.methods(f"{f.module.name}.{c}") for st in statements(g.node) if isinstance(st, (ast.Assign, ast.AnnAssign))
                                   for t in (st.targets if isinstance(st, ast.Assign) else [st.target]))
                        if not inst:
                            return f"class-level object {c}.{e.attr}"
                    bases = [dotted(x) for x in ctx.repo.cls(f"{f.module.name}.{c}").bases]
                    c = next((x for x in bases if x and f"{x}" in ctx.repo.module(f.module.name).classes), None)
            elif b:
                for (mn, cq, an) in shared_cls:
                    if an == e.attr and b.split(".")[-1] == cq:
                        return f"class-level object {cq}.{an}"
                for (mn, an) in shared_mod:
                    if an == e.attr and b == mn:
                        return f"module-level object {mn}.{an}"
        return None

    al = _FlowAlias(ctx, is_source, deep_attrs=True).run()
    finds = al.findings()
    ctx.rep.count("shared_module_or_class_objects", len(shared_mod) + len(shared_cls), floor=3)
    ctx.rep.extra["shared_objects"] = sorted([f"{a}.{b}" for a, b in shared_mod] + [f"{a}.{b}.{c}" for a, b, c in shared_cls])
    for x in finds:
        ctx.ob("R6", "ALIAS", x.func, f"{x.kind} on {x.target}", False,
               f"`{src(x.node)[:70]}` mutates an object shared at module/class level: {x.target} <- {x.why}", x.node)
    # memoisation makes every caller share one result object - a lazily built module-level object.  Results that cannot be
    # mutated are fine; any other result is followed to its users exactly like the module-level objects above.
    memo = 0
    callers: Optional[Dict[str, int]] = None
    for f in ctx.repo.all_funcs():
        decs = {d.split(".")[-1] for d in _decorators(f)}
        if not decs & (_MEMO_DECOS | _PER_INSTANCE_MEMO):
            continue
        memo += 1
        from csverif.q import inline
        bad = []
        for r in returns_of(f):
            v = inline(f.node, r.value) if r.value is not None else ast.Constant(value=None)
            if not _scalar_result(v):
                bad.append(src(r.value)[:50])
        text = "memoised result is immutable"
        if not bad:
            ctx.ob("R6", "ALIAS", f, text, True, "cached results are scalars", f.node)
            continue
        if not decs & _MEMO_DECOS:  # cached_property: the object lives in the instance, which is handed to every user of it
            ctx.ob("R6", "ALIAS", f, text, False, f"results shared between callers through the cache may be mutable: {bad} "
                   "(a later identical call sees earlier callers' modifications)", f.node)
            continue
        if callers is None:
            callers = {}
            for h in ctx.repo.all_funcs():
                for c in fn_calls(h.node):
                    cal = ctx.rs.resolve_call(h, c)
                    tgt = cal.func if cal.kind == "func" else ctx.rs.class_init(cal.fq) if cal.kind == "class" else None
                    if tgt is not None and tgt.fq != h.fq:
                        callers[tgt.fq] = callers.get(tgt.fq, 0) + 1
        muts, escapes, unlocated, uses = _shared_result_uses(ctx, f, callers)
        if muts:
            ctx.ob("R6", "ALIAS", f, text, False, f"the cached object ({bad}) is shared by every caller and a user of it modifies it: "
                   + "; ".join(muts[:4]) + " (a later identical call sees the modification)", f.node)
        elif escapes:
            ctx.ob("R6", "ALIAS", f, text, False, f"results shared between callers through the cache may be mutable: {bad}; the one cached object "
                   "leaves the functions that use it - " + "; ".join(escapes[:4]) + " (a later identical call sees earlier callers' modifications)", f.node)
        elif unlocated:
            ctx.undecided("R6", "ALIAS", f, text, f"the cached object ({bad}) is shared by every caller and not every use of it can be followed: "
                          + "; ".join(unlocated[:4]), f.node)
        else:
            ctx.ob("R6", "ALIAS", f, text, True, f"the cached object ({bad}) is shared like a module-level object; it stays inside its {len(uses)} "
                   f"use site(s) ({', '.join(sorted(set(uses))[:4])}): no user modifies it (mutator call, item/attribute store, in-place operator), stores "
                   "it, puts it in a container, returns it to an entry point of the package or yields it", f.node)
    ctx.rep.counts["memoised_functions"] = memo
    ctx.ob("R6", "ALIAS", "package", "no writer of module/class-level objects", not finds,
           f"{len(shared_mod)} module-level and {len(shared_cls)} class-level mutable objects; {len(finds)} mutation sites reach one")


def _verdict(ctx, f, text, ks: Dict[str, str], what: str, good: str):
    """One R2 obligation from the kinds a function can return: a located value that is not a proxy is a violation; a value
    the analysis cannot trace (external call, parameter of an uncalled helper, dynamic attribute name) is undecided."""
    if _BAD in ks:
        ctx.ob("R2", "EXIT", f, text, False, f"{what} can hand out an object that is not a read-only proxy: {ks[_BAD]}", f.node)
    elif _UNK in ks:
        ctx.undecided("R2", "EXIT", f, text, f"cannot trace every value {what} returns: {ks[_UNK]}", f.node)
    elif _P not in ks:
        ctx.ob("R2", "EXIT", f, text, False, f"{what} never returns a MappingProxyType ({'; '.join(ks.values()) or 'no return value'})", f.node)
    else:
        ctx.ob("R2", "EXIT", f, text, True, good, f.node)


def r2(ctx):
    """The settings mappings reject mutation: whatever settings_map() and the four views return - directly, through a
    local, through a helper or through the cache slot they fill - is a MappingProxyType."""
    co = _config(ctx)
    f = ctx.repo.func(f"{CONFIG_CLS}.settings_map")
    ks = co.returns(f, {})
    if _N in ks and _BAD not in ks and _UNK not in ks:
        ctx.ob("R2", "EXIT", f, "return MappingProxyType(...)", False, f"settings_map can return None instead of a read-only proxy: {ks[_N]}", f.node)
    else:
        _verdict(ctx, f, "return MappingProxyType(...)", ks, "settings_map", "every view is handed out as a read-only proxy")
    for name in VIEWS:
        g = ctx.repo.func(f"{CONFIG_CLS}.{name}")
        _verdict(ctx, g, name, co.returns(g, {}), f"the view {name}",
                 "every value the view can return is a read-only proxy made by settings_map() (directly or from a cache slot that only ever holds None or such a proxy)")


def r3(ctx):
    """Who may bind attributes of a configuration: nobody outside beacon.py; inside it only code that works on an object
    still under construction (self in __init__, a local just built by a constructor call, a parameter every caller binds to
    such an object) or that fills a cache slot of self with a read-only proxy."""
    co = _config(ctx)
    n = 0
    inside = []
    for w in co.writes():
        if w.f.module.name != co.mod:
            n += 1
            what = "deleted" if w.how == "delete" else "written"
            ctx.ob("R3", "ALIAS", w.f, src(w.node)[:70], False, f"attribute {w.label().rsplit('.', 1)[-1]!r} of a BeaconConfig is {what} outside beacon.py", w.node)
        else:
            inside.append(w)
    ctx.ob("R3", "ALIAS", "package", "who-may-write BeaconConfig attributes", n == 0, f"{n} attribute writes on BeaconConfig instances outside beacon.py")
    for w in inside:
        if co.fresh(w.f, w.recv, w.node):
            ok, why = True, "written while the object is under construction"
        else:
            ks = co.kinds(w.f, w.value, {}) if (w.how == "store" and w.value is not None and co.is_self(w.f, w.recv)) else {}
            if ks and _P in ks and set(ks) <= {_P, _N}:
                ok, why = True, "cache fill: the value stored is a read-only proxy made by settings_map()"
            else:
                ok, why = False, "BeaconConfig attribute written after construction (the object is not provably fresh here and the value is not a read-only settings proxy)"
        ctx.ob("R3", "ALIAS", w.f, f"{w.label()} =", ok, why, w.node, nontrivial=ok)


def _state_aliases(ctx, f, e: ast.AST, at: ast.AST, selfname: str, depth: int = 0) -> Optional[str]:
    """`self.x` if expression e (evaluated at `at`) may denote the object held by instance attribute x, or an element of it."""
    e = strip_cast(e)
    if depth > 8:
        return None
    if isinstance(e, ast.Attribute) and isinstance(e.value, ast.Name) and e.value.id == selfname:
        return src(e)
    if isinstance(e, ast.Subscript) and not isinstance(e.slice, ast.Slice):
        return _state_aliases(ctx, f, e.value, at, selfname, depth + 1)
    if isinstance(e, ast.IfExp):
        return _state_aliases(ctx, f, e.body, at, selfname, depth + 1) or _state_aliases(ctx, f, e.orelse, at, selfname, depth + 1)
    if isinstance(e, ast.BoolOp):
        for v in e.values:
            r = _state_aliases(ctx, f, v, at, selfname, depth + 1)
            if r:
                return r
        return None
    if isinstance(e, ast.NamedExpr):
        return _state_aliases(ctx, f, e.value, at, selfname, depth + 1)
    if isinstance(e, ast.Name) and e.id != selfname:
        for st, v in reaching_defs(ctx, f, e.id, at):
            if st is f.node:
                continue
            if v is not None:
                r = _state_aliases(ctx, f, v, st, selfname, depth + 1)
            elif isinstance(st, (ast.For, ast.AsyncFor)):
                it = strip_cast(st.iter)
                if isinstance(it, ast.Call) and dotted(it.func) in ("enumerate", "reversed", "iter", "zip") and it.args:
                    it = it.args[0]
                r = _state_aliases(ctx, f, it, st, selfname, depth + 1)
            else:
                r = None
            if r:
                return r
    return None


def _state_mentions(ctx, f, e: ast.AST, at: ast.AST, selfname: str, depth: int = 0) -> Set[str]:
    """The `self.x` attributes expression e (evaluated at `at`) is computed from, looking through locals."""
    out: Set[str] = set()
    if depth > 6:
        return out
    for x in ast.walk(e):
        if isinstance(x, ast.Attribute) and isinstance(x.value, ast.Name) and x.value.id == selfname:
            out.add(src(x))
        elif isinstance(x, ast.Name) and x.id != selfname and isinstance(x.ctx, ast.Load):
            for st, v in reaching_defs(ctx, f, x.id, at):
                if st is not f.node and v is not None:
                    out |= _state_mentions(ctx, f, v, st, selfname, depth + 1)
    return out


def r4(ctx):
    """transform()/recover() leave the state of their HttpDataTransform alone: no instance attribute is re-bound and no
    object held by one (the step lists), reached directly or through a local alias, is mutated."""
    for name in ("transform", "recover"):
        f = ctx.repo.func(f"c2.HttpDataTransform.{name}")
        ps = params(f.node)
        if not ps:
            ctx.undecided("R4", "ALIAS", f, "step lists read-only", f"{name}() has no receiver parameter", f.node)
            continue
        me = ps[0]
        fv = FuncView.of(f.node)
        reads = {n.attr for n in body_walk(f.node) if isinstance(n, ast.Attribute) and isinstance(n.value, ast.Name) and n.value.id == me and isinstance(n.ctx, ast.Load)}
        # locate the step lists by role: the instance attributes whose value (or a copy derived from it) drives a loop
        iterated = set()
        for n in body_walk(f.node):
            it = n.iter if isinstance(n, (ast.For, ast.AsyncFor, ast.comprehension)) else n.test if isinstance(n, ast.While) else None
            if it is not None:
                iterated |= _state_mentions(ctx, f, it, fv.stmt_of(n) or n, me)
        bad = []
        for n in body_walk(f.node):
            if isinstance(n, ast.Call) and isinstance(n.func, ast.Attribute) and n.func.attr in MUTATORS:
                a = _state_aliases(ctx, f, n.func.value, n, me)
                if a:
                    bad.append(f"{src(n)[:50]} (on {a})")
            if isinstance(n, (ast.Assign, ast.AugAssign, ast.AnnAssign, ast.Delete)):
                tgts = n.targets if isinstance(n, (ast.Assign, ast.Delete)) else [n.target]
                for t, _v in [p for t0 in tgts for p in _target_pairs(t0, None)]:
                    if isinstance(t, ast.Attribute) and isinstance(t.value, ast.Name) and t.value.id == me:
                        bad.append(src(n)[:50])
                    elif isinstance(t, ast.Subscript):
                        a = _state_aliases(ctx, f, t.value, n, me)
                        if a:
                            bad.append(f"{src(n)[:50]} (on {a})")
                    elif isinstance(n, ast.AugAssign) and isinstance(t, ast.Name) and isinstance(n.value, (ast.List, ast.ListComp, ast.Tuple)):
                        a = _state_aliases(ctx, f, t, n, me)
                        if a:
                            bad.append(f"{src(n)[:50]} (on {a})")
        if bad:
            ctx.ob("R4", "ALIAS", f, "step lists read-only", False, f"{name}() modifies the state of its HttpDataTransform: {bad}", f.node)
        elif not iterated:
            ctx.undecided("R4", "ALIAS", f, "step lists read-only",
                          f"{name}() does not iterate over an object held by an instance attribute: the step list cannot be located (attributes read: {sorted(reads)})", f.node)
        else:
            ctx.ob("R4", "ALIAS", f, "step lists read-only", True, f"{name}() walks {sorted(iterated)} and does not modify any instance state", f.node)


# ============================================================================================== R7: published views are final
_THROUGH = (ast.Tuple, ast.List, ast.Set, ast.Dict, ast.Starred, ast.IfExp, ast.BoolOp, ast.NamedExpr)


def _alts(e: ast.AST) -> List[ast.AST]:
    """The expressions e may evaluate to, looking through casts, conditional expressions, `or`/`and` and walrus."""
    e = strip_cast(e)
    if isinstance(e, ast.IfExp):
        return _alts(e.body) + _alts(e.orelse)
    if isinstance(e, ast.BoolOp):
        return [x for v in e.values for x in _alts(v)]
    if isinstance(e, ast.NamedExpr):
        return _alts(e.value)
    return [e]


def _local_bindings(g) -> List[Tuple[ast.AST, str, ast.AST]]:
    """(statement, local name, value expression) of every plain binding of a local name in g."""
    out = []
    for st in statements(g.node):
        pairs: List[Tuple[ast.AST, Optional[ast.AST]]] = []
        if isinstance(st, ast.Assign):
            for t in st.targets:
                pairs.extend(_target_pairs(t, st.value))
        elif isinstance(st, ast.AnnAssign) and st.value is not None:
            pairs.append((st.target, st.value))
        out.extend((st, t.id, v) for t, v in pairs if isinstance(t, ast.Name) and v is not None)
    fv = FuncView.of(g.node)
    for n in body_walk(g.node):
        if isinstance(n, ast.NamedExpr) and isinstance(n.target, ast.Name):
            out.append((fv.stmt_of(n), n.target.id, n.value))
    return out


def _same_object_names(g, start: Set[str]) -> Set[str]:
    """Local names of g that may denote the same object as one of `start` (plain copies `a = b`, in both directions)."""
    names = set(start)
    bindings = _local_bindings(g)
    changed = True
    while changed:
        changed = False
        for _st, t, v in bindings:
            for x in _alts(v):
                if isinstance(x, ast.Name) and (x.id in names) != (t in names):
                    names |= {x.id, t}
                    changed = True
    return names


class _Final:
    """Is the mapping behind a read-only proxy complete when the proxy is handed out?

    For one `MappingProxyType(W)` construction in a function g:
    * the *publication points* are the statements of g at which the proxy leaves g's locals: the statement of the
      construction itself when the proxy is stored in an attribute / item, returned, yielded or passed on; otherwise the
      statements that do that with a local the proxy was bound to (followed through reaching definitions);
    * the *holders* are the local names that may denote the wrapped object W (copies in both directions); where a holder
      is a parameter the question moves to every call site (the call is then the construction, the bound argument is W);
    * violated: a modification of the wrapped object through a holder (mutator method, item store/delete, in-place
      operator, a package callee that modifies the parameter it is bound to) lies on a CFG path from a publication point
      on which that holder is not re-bound - whoever reads the published view before/after sees different content, and
      an exception in between leaves the half-filled view published;
    * a wrapped object that is (also) reachable through an attribute of the configuration is judged by the may-alias
      analysis of R1 with the reads of that attribute as sources; any other second access path is undecided."""

    def __init__(self, ctx, co: _ConfigObjects):
        self.ctx, self.co = ctx, co
        self._attr: Dict[str, list] = {}

    # ---------------------------------------------------------------- publication points
    def _kill_nodes(self, g, name: str) -> list:
        cfg, fv, out = self.ctx.cfg(g), FuncView.of(g.node), []
        for st, _v in assignments_to(g.node, name):
            s = st if isinstance(st, ast.stmt) else fv.stmt_of(st)
            if s is not None and cfg.has(s):
                out.append(cfg.edge_node(s, "iter") if isinstance(s, (ast.For, ast.AsyncFor)) else cfg.node(s))
        return out

    def publication_points(self, g, call: ast.Call, depth: int = 0) -> Optional[List[ast.AST]]:
        """Statements at which the value of `call` leaves the locals of g; None when it cannot be followed."""
        fv = FuncView.of(g.node)
        st = fv.stmt_of(call)
        if st is None or not self.ctx.cfg(g).has(st):
            return None
        if isinstance(st, ast.Expr) and strip_cast(st.value) is call:
            return []  # the value is dropped
        bound = [(s, t) for s, t, v in _local_bindings(g) if s is st and any(x is call for x in _alts(v))]
        direct = 0  # bindings of the call's value itself (the rest: attribute/item targets, nesting in a larger expression)
        if isinstance(st, ast.Assign):
            for t in st.targets:
                direct += sum(1 for _t, v in _target_pairs(t, st.value) if v is not None and any(x is call for x in _alts(v)))
        elif isinstance(st, ast.AnnAssign) and st.value is not None:
            direct = sum(1 for x in _alts(st.value) if x is call)
        walrus = [n for n in body_walk(g.node) if isinstance(n, ast.NamedExpr) and any(x is call for x in _alts(n.value))]
        out: List[ast.AST] = []
        if direct == 0 or len(bound) - len(walrus) < direct or walrus:
            out.append(st)  # stored into an attribute / item, returned, yielded, passed on or embedded in a larger expression
        for _s, name in bound:
            pts = self._uses(g, name, st, depth)
            if pts is None:
                return None
            out.extend(pts)
        return out

    def _uses(self, g, name: str, defst: ast.AST, depth: int) -> Optional[List[ast.AST]]:
        """Statements where local `name`, bound at `defst`, leaves the locals of g."""
        if depth > 6:
            return None
        from csverif.alias import FRESH_CALLS

        fv = FuncView.of(g.node)
        out: List[ast.AST] = []
        for n in body_walk(g.node):
            if not (isinstance(n, ast.Name) and n.id == name and isinstance(n.ctx, ast.Load)):
                continue
            if not any(s is defst for s, _v in reaching_defs(self.ctx, g, name, n)):
                continue
            st = fv.stmt_of(n)
            p = fv.parent.get(id(n))
            # plain reads through the proxy
            if isinstance(p, ast.Attribute) or (isinstance(p, ast.Subscript) and p.value is n) or isinstance(p, (ast.Compare, ast.UnaryOp)):
                continue
            if isinstance(p, (ast.If, ast.While)) and p.test is n:
                continue
            if isinstance(p, ast.Call) and n is not p.func and dotted(p.func) in FRESH_CALLS and not self.co.is_proxy_ctor(g, p):
                continue
            if isinstance(p, (ast.For, ast.AsyncFor, ast.comprehension)) and p.iter is n:
                continue
            # a plain copy into another local: follow that local
            copies = [t for s, t, v in _local_bindings(g) if s is st and any(x is n for x in _alts(v))]
            top = n
            while isinstance(fv.parent.get(id(top)), (ast.IfExp, ast.BoolOp, ast.NamedExpr)):
                top = fv.parent[id(top)]
            ptop = fv.parent.get(id(top))
            only_local = copies and isinstance(ptop, (ast.Assign, ast.AnnAssign)) and all(isinstance(t, ast.Name) for t in (ptop.targets if isinstance(ptop, ast.Assign) else [ptop.target]))
            if only_local:
                for t in copies:
                    more = self._uses(g, t, st, depth + 1)
                    if more is None:
                        return None
                    out.extend(more)
                continue
            out.append(st)
        return out

    # ---------------------------------------------------------------- modifications of the wrapped object
    def modifications(self, g, holders: Set[str], depth: int = 0) -> List[Tuple[ast.AST, str, str]]:
        """(statement, holder name, description) for every modification of an object denoted by a holder name."""
        fv = FuncView.of(g.node)
        out = []
        for n in body_walk(g.node):
            if isinstance(n, ast.Call):
                recv = strip_cast(n.func.value) if isinstance(n.func, ast.Attribute) else None
                if isinstance(recv, ast.Name) and recv.id in holders and n.func.attr in MUTATORS:
                    out.append((fv.stmt_of(n), recv.id, f"`{src(n)[:50]}`"))
                    continue
                cal = self.ctx.rs.resolve_call(g, n)
                if cal.kind == "func" and cal.func is not None and depth < 3 and cal.func.fq != g.fq:
                    for p, (af, a, _env) in self.co.bind(g, n, cal.func, {}).items():
                        a = strip_cast(a)
                        if af is g and isinstance(a, ast.Name) and a.id in holders:
                            inner = self.modifications(cal.func, _same_object_names(cal.func, {p}), depth + 1)
                            if inner:
                                out.append((fv.stmt_of(n), a.id, f"`{src(n)[:50]}` ({cal.func.qualname} modifies the mapping it is given: {inner[0][2]})"))
            elif isinstance(n, (ast.Assign, ast.AugAssign, ast.AnnAssign, ast.Delete)):
                tgts = n.targets if isinstance(n, (ast.Assign, ast.Delete)) else [n.target]
                for t, _v in [p for t0 in tgts for p in _target_pairs(t0, None)]:
                    base = strip_cast(t.value) if isinstance(t, ast.Subscript) else None
                    if isinstance(base, ast.Name) and base.id in holders:
                        out.append((n, base.id, f"`{src(n)[:50]}`"))
                    elif isinstance(n, ast.AugAssign) and isinstance(t, ast.Name) and t.id in holders:
                        out.append((n, t.id, f"`{src(n)[:50]}` (in-place operator)"))
        return [(s, h, d) for s, h, d in out if s is not None and self.ctx.cfg(g).has(s)]

    def attr_modifications(self, attr: str) -> list:
        """Findings of the R1 may-alias analysis with the reads of configuration attribute `attr` as the sources."""
        if attr not in self._attr:
            co = self.co

            def is_source(f, e):
                if isinstance(e, ast.Attribute) and e.attr == attr and isinstance(e.ctx, ast.Load) and co.is_instance(f, e.value):
                    return f"{src(e)} (the mapping a view proxy wraps)"
                return None

            al = _FlowAlias(self.ctx, is_source).run()
            self._attr[attr] = [x for x in al.findings() if x.func.qualname != f"{co.cname}.__init__"]
        return self._attr[attr]

    def _state_held(self, g, e: ast.AST) -> List[Tuple[str, str]]:
        if isinstance(e, ast.Attribute) and self.co.is_instance(g, e.value):
            finds = self.attr_modifications(e.attr)
            if finds:
                return [("bad", f"the wrapped mapping is also reachable as attribute {e.attr!r} and `{src(x.node)[:50]}` in {x.func.qualname} modifies it ({x.why[:80]})") for x in finds]
            return [("ok", f"the wrapped mapping is also reachable as attribute {e.attr!r}; nothing in the package modifies an object read from it")]
        return [("unk", f"the wrapped mapping is held by `{src(e)[:40]}`, its other users are not followed")]

    # ---------------------------------------------------------------- verdict for one construction
    def judge(self, g, call: ast.Call, wrapped: Optional[ast.AST], depth: int = 0) -> List[Tuple[str, str]]:
        if wrapped is None or depth > 4:
            return [("unk", f"`{src(call)[:40]}` in {g.qualname}: the wrapped mapping cannot be located")]
        pubs = self.publication_points(g, call)
        if pubs is None:
            return [("unk", f"`{src(call)[:40]}` in {g.qualname}: cannot follow where the proxy goes")]
        if not pubs:
            return [("ok", "the proxy never leaves the function")]
        res: List[Tuple[str, str]] = []
        for w in _alts(wrapped):
            if isinstance(w, ast.Name):
                if w.id in params(g.node) or assignments_to(g.node, w.id):
                    res.extend(self._holders(g, call, pubs, _same_object_names(g, {w.id}), depth))
                else:
                    res.append(("unk", f"`{src(call)[:40]}` wraps `{w.id}`, which is not a local of {g.qualname}"))
            elif isinstance(w, ast.Attribute) or (isinstance(w, ast.Subscript) and not isinstance(w.slice, ast.Slice)):
                res.extend(self._state_held(g, w))
            else:
                res.append(("ok", f"`{src(w)[:40]}` is a new object nobody else names"))
        return res

    def _holders(self, g, call, pubs, holders: Set[str], depth: int) -> List[Tuple[str, str]]:
        cfg, fv = self.ctx.cfg(g), FuncView.of(g.node)
        cst = fv.stmt_of(call)
        res: List[Tuple[str, str]] = []
        # where the wrapped object comes from
        for h in sorted(holders):
            for st, v in assignments_to(g.node, h):
                if v is None:
                    if not isinstance(st, ast.AugAssign):
                        res.append(("unk", f"the wrapped mapping is bound by a loop / unpacking in {g.qualname}"))
                    continue
                for a in _alts(v):
                    if isinstance(a, ast.Attribute) or (isinstance(a, ast.Subscript) and not isinstance(a.slice, ast.Slice)):
                        res.extend(self._state_held(g, a))
            if h in params(g.node):
                sites = self.co.sites(g)
                if not sites:
                    res.append(("unk", f"the wrapped mapping is a parameter of {g.qualname}, for which no call site is located"))
                for cf, c in sites:
                    b = self.co.bind(cf, c, g, {})
                    if h not in b:
                        res.append(("unk", f"the wrapped mapping is a parameter of {g.qualname} that `{src(c)[:40]}` does not bind explicitly"))
                    elif b[h][0] is g:
                        res.append(("unk", f"the wrapped mapping is the default value of a parameter of {g.qualname} (one object for all calls)"))
                    else:
                        res.extend(self.judge(cf, c, b[h][1], depth + 1))
        # modifications that follow a publication point
        for mst, h, desc in self.modifications(g, holders):
            kills = self._kill_nodes(g, h)
            for p in pubs:
                if cfg.has(p) and cfg.reaches(cfg.node(p), cfg.node(mst), avoiding=kills):
                    res.append(("bad", f"{desc} in {g.qualname} modifies the mapping behind the proxy after `{src(p)[:60]}` has handed the proxy out"))
                    break
        # a second access path to the wrapped object on the same path as the proxy
        for n in body_walk(g.node):
            if not (isinstance(n, ast.Name) and n.id in holders and isinstance(n.ctx, ast.Load)):
                continue
            top = n
            while isinstance(fv.parent.get(id(top)), _THROUGH):
                top = fv.parent[id(top)]
            p = fv.parent.get(id(top))
            st = fv.stmt_of(n)
            if st is None or not cfg.has(st) or cst is None:
                continue
            if not (st is cst or cfg.reaches(cfg.node(st), cfg.node(cst)) or cfg.reaches(cfg.node(cst), cfg.node(st))):
                continue
            if isinstance(p, (ast.Return, ast.Yield, ast.YieldFrom)):
                res.append(("unk", f"`{src(st)[:50]}` in {g.qualname} also hands the wrapped mapping out unwrapped"))
            elif isinstance(p, (ast.Assign, ast.AnnAssign)) and p.value is top:
                for t, _v in [q for t0 in (p.targets if isinstance(p, ast.Assign) else [p.target]) for q in _target_pairs(t0, None)]:
                    if isinstance(t, ast.Attribute):
                        res.extend(self._state_held(g, t))
                    elif isinstance(t, ast.Subscript) or top is not n:
                        res.append(("unk", f"`{src(st)[:50]}` in {g.qualname} keeps a second reference to the wrapped mapping"))
        if not any(k != "ok" for k, _d in res):
            res.append(("ok", f"the mapping behind `{src(call)[:40]}` is only named by locals of {g.qualname} and is not modified once the proxy has been handed out"))
        return res


def r7(ctx):
    """A published view is final: the mapping behind every read-only proxy that can become the value of a view is complete
    when the proxy leaves the function that builds it (no modification of the wrapped mapping can follow the publication),
    and a cache slot of an existing configuration that has received a proxy is not bound again on the same path.
    Otherwise a read of a view changes what later reads see, and an exception raised between the publication and the
    completion leaves a half-built view cached for ever."""
    co = _config(ctx)
    # collect the proxy constructions the views' values can come from (provenance walk of R2/R3, idempotent)
    fmap = ctx.repo.func(f"{CONFIG_CLS}.settings_map")
    co.returns(fmap, {})
    for name in VIEWS:
        co.returns(ctx.repo.func(f"{CONFIG_CLS}.{name}"), {})
    late: Dict[tuple, List[_Write]] = {}
    for w in co.writes():
        if w.how == "store" and w.value is not None and w.f.module.name == co.mod:
            ks = co.kinds(w.f, w.value, {})
            if _P in ks and isinstance(w.attr, str) and co.is_self(w.f, w.recv) and not co.fresh(w.f, w.recv, w.node):
                late.setdefault((w.f.fq, w.attr), []).append(w)
    fin = _Final(ctx, co)
    sites = list(co.proxy_sites)
    for g in ctx.repo.methods(CONFIG_CLS):  # ... and every proxy a method of the configuration builds, traced or not
        sites.extend((g, c) for c in fn_calls(g.node) if co.is_proxy_ctor(g, c) and not any(c is x for _g, x in sites))
    per_func: Dict[str, tuple] = {}
    for g, call in sites:
        if co._inlined_away(g):
            continue
        arg = call.args[0] if call.args and not isinstance(call.args[0], ast.Starred) else None
        per_func.setdefault(g.fq, (g, []))[1].extend(fin.judge(g, call, arg))
    ctx.rep.count("view_proxy_constructions", len(sites), floor=1)
    text = "views are published complete"
    for _fq, (g, res) in sorted(per_func.items()):
        bad = sorted({d for k, d in res if k == "bad"})
        unk = sorted({d for k, d in res if k == "unk"})
        if bad:
            ctx.ob("R7", "ALIAS", g, text, False, "; ".join(bad[:4]), g.node)
        elif unk:
            ctx.undecided("R7", "ALIAS", g, text, "; ".join(unk[:4]), g.node)
        else:
            ctx.ob("R7", "ALIAS", g, text, True, "; ".join(sorted({d for _k, d in res})[:3]), g.node)
    if not per_func:
        ctx.undecided("R7", "ALIAS", fmap, text, "no MappingProxyType construction was found on the way to a view: the published mapping cannot be located", fmap.node)
    # a slot that has received a proxy is not bound again on the same path (the first value would be provisional)
    by_func: Dict[str, List[str]] = {}
    funcs = {}
    for (fq, attr), ws in sorted(late.items()):
        f = ws[0].f
        funcs[fq] = f
        cfg, fv = ctx.cfg(f), FuncView.of(f.node)
        msgs = by_func.setdefault(fq, [])
        others = [w for w in co.writes() if w.f is f and co.is_self(f, w.recv) and w.how == "store" and attr in (co.write_names(w) or ())]
        for a in ws:
            sa = fv.stmt_of(a.node)
            for b in others:
                sb = fv.stmt_of(b.node)
                if sa is None or sb is None or sa is sb or not (cfg.has(sa) and cfg.has(sb)):
                    continue
                if cfg.reaches(cfg.node(sa), cfg.node(sb)):
                    msgs.append(f"slot {attr!r} receives a proxy in `{src(sa)[:50]}` and is bound again by `{src(sb)[:50]}` on the same path: the first value is provisional, a failure in between leaves it cached")
    for fq, msgs in sorted(by_func.items()):
        f = funcs[fq]
        ctx.ob("R7", "ALIAS", f, "cache slot bound once", not msgs, "; ".join(sorted(set(msgs))[:3]) if msgs else "every cache slot that receives a proxy here is bound at most once on any path", f.node)


# ============================================================================================== R9: reading a view is pure
# what `types.MappingProxyType` forwards to the mapping it wraps (subscript -> `__getitem__`, which for a dict falls back to
# `__missing__`; `in`, iteration, len(), reversed(), ==, repr(), `|`, .get/.keys/.values/.items/.copy)
_READ_HOOKS = ("__getitem__", "__missing__", "__contains__", "__iter__", "__len__", "__reversed__", "__eq__", "__ne__", "__repr__", "__str__",
               "__bool__", "__or__", "__ror__", "__hash__", "__copy__", "__deepcopy__", "get", "keys", "values", "items", "copy")
# library mappings whose read protocol does not write (trusted base).  Counter.__missing__ answers 0 without storing it.
_PURE_MAPPINGS = {"dict", "OrderedDict", "collections.OrderedDict", "Counter", "collections.Counter", "UserDict", "collections.UserDict"}
# ... and the one that does: `defaultdict(factory)[missing]` stores factory() under the key that was only read
_DEFAULTING = {"defaultdict", "collections.defaultdict"}


class _ReadPure:
    """Does a *read* through a view's proxy leave the wrapped mapping alone?

    For one `MappingProxyType(W)` construction the *objects* W may denote are located through reaching definitions of
    locals, the returns of package callees, the arguments bound at every call site of a parameter and every write of a
    configuration attribute, down to the expression that creates the mapping.  Its class is then judged:
    * a dict display / comprehension, dict, OrderedDict, Counter, UserDict: pure by the trusted base;
    * `defaultdict(f)` with a factory: violated (`__missing__` stores the default under the key that was read);
    * a class of the package: every read hook (`_READ_HOOKS`) that the class or one of its package bases defines must
      not modify its receiver - item store / delete, in-place operator, mutator method, `super().__setitem__(..)`,
      `dict.__setitem__(self, ..)`, a package callee that modifies the parameter the receiver is bound to; its library
      bases are judged as above;
    * anything else (an object from an external call, an unknown base class, a metaclass): undecided."""

    def __init__(self, ctx, co: _ConfigObjects, fin: "_Final"):
        self.ctx, self.co, self.fin = ctx, co, fin
        self._cls: Dict[str, List[Tuple[str, str]]] = {}
        self._active: Set[tuple] = set()
        self.classes: Set[str] = set()

    # ---------------------------------------------------------------- where does the wrapped object come from
    def origins(self, f, e: Optional[ast.AST], env: Env, depth: int = 0) -> List[Tuple[str, str]]:
        if e is None or depth > 10:
            return [("unk", f"the mapping wrapped in {f.qualname} cannot be traced to the expression that creates it")]
        res: List[Tuple[str, str]] = []
        for a in _alts(e):
            res.extend(self._origin(f, a, env, depth))
        return res

    def _origin(self, f, a: ast.AST, env: Env, depth: int) -> List[Tuple[str, str]]:
        ctx, co = self.ctx, self.co
        if isinstance(a, (ast.Dict, ast.DictComp)):
            return [("ok", "a built-in dict")]
        if isinstance(a, ast.Name):
            rd = reaching_defs(ctx, f, a.id, a)
            if not rd:
                rd = list(assignments_to(f.node, a.id))
                if a.id in params(f.node):
                    rd.append((f.node, None))
            if not rd:
                c = f.module.consts.get(a.id)
                if c is not None and c is not a and ("const", f.module.name, a.id) not in self._active:
                    self._active.add(("const", f.module.name, a.id))
                    try:
                        return self.origins(f, c, {}, depth + 1)
                    finally:
                        self._active.discard(("const", f.module.name, a.id))
                return [("unk", f"`{a.id}` in {f.qualname} is not a local")]
            res: List[Tuple[str, str]] = []
            for st, v in rd:
                if st is f.node:
                    vals = co._param_values(f, a.id, env)
                    key = ("param", f.fq, a.id)
                    if vals is None:
                        res.append(("unk", f"the wrapped mapping is parameter `{a.id}` of {f.qualname}, whose call sites do not all bind it"))
                    elif key not in self._active:
                        self._active.add(key)
                        try:
                            for cf, ce, cenv in vals:
                                res.extend(self.origins(cf, ce, cenv, depth + 1))
                        finally:
                            self._active.discard(key)
                elif v is None:
                    res.append(("unk", f"the wrapped mapping is bound by `{src(st)[:40]}` in {f.qualname} (loop / unpacking / in-place operator)"))
                else:
                    res.extend(self.origins(f, v, env, depth + 1))
            return res
        if isinstance(a, ast.Call):
            if co.is_proxy_ctor(f, a):
                return self.origins(f, a.args[0] if a.args and not isinstance(a.args[0], ast.Starred) else None, env, depth + 1)
            cal = ctx.rs.resolve_call(f, a)
            if cal.kind == "class":
                return self.class_verdict(cal.fq)
            if cal.kind == "func" and cal.func is not None:
                g = cal.func
                key = ("ret", g.fq)
                if key in self._active:
                    return []
                self._active.add(key)
                try:
                    rets = [r for r in returns_of(g) if r.value is not None]
                    if not rets or any(isinstance(n, (ast.Yield, ast.YieldFrom)) for n in body_walk(g.node)):
                        return [("unk", f"`{src(a)[:40]}`: {g.qualname} does not return the mapping by a plain return")]
                    genv = co.bind(f, a, g, env)
                    res = []
                    for r in rets:
                        res.extend(self.origins(g, r.value, genv, depth + 1))
                    return res
                finally:
                    self._active.discard(key)
            if cal.kind == "external":
                names = {cal.fq, dotted(a.func)}
                if names & _PURE_MAPPINGS:
                    return [("ok", f"`{src(a)[:30]}` is a library mapping whose reads do not write")]
                if names & _DEFAULTING:
                    fac = a.args[0] if a.args else None
                    if fac is None or (isinstance(fac, ast.Constant) and fac.value is None):
                        return [("ok", f"`{src(a)[:30]}` has no default factory")]
                    if isinstance(fac, ast.Starred):
                        return [("unk", f"`{src(a)[:40]}`: the default factory cannot be located")]
                    return [("bad", f"the mapping behind the proxy is `{src(a)[:50]}` ({f.qualname}): looking up a key that is not there stores "
                                    f"the default under that key (defaultdict.__missing__), so a read through the read-only proxy changes the view")]
                if names & _COPY_CALLS and a.args:
                    return self.origins(f, a.args[0], env, depth + 1)
            if isinstance(a.func, ast.Attribute) and a.func.attr == "copy" and not a.args and not a.keywords:
                inner = self.origins(f, a.func.value, env, depth + 1)
                if inner and all(k == "ok" for k, _d in inner):
                    return inner
                return [("unk", f"`{src(a)[:40]}` in {f.qualname}: the class of the copy is not determined")]
            return [("unk", f"the mapping behind the proxy comes from `{src(a)[:40]}` in {f.qualname}, whose class is not known")]
        if isinstance(a, ast.Attribute) and co.is_instance(f, a.value) and ctx.rs.property_of(co.cls_fq, a.attr) is None:
            key = ("attr", a.attr)
            if key in self._active:
                return []
            self._active.add(key)
            try:
                res = []
                for w in co.writes():
                    ns = co.write_names(w)
                    if w.how == "delete" or (ns is not None and a.attr not in ns):
                        continue
                    if w.value is None or w.how != "store":
                        res.append(("unk", f"the wrapped mapping is held by attribute {a.attr!r}, bound by `{src(w.node)[:40]}` in {w.f.qualname}"))
                    else:
                        res.extend(self.origins(w.f, w.value, {}, depth + 1))
                return res or [("unk", f"the wrapped mapping is held by attribute {a.attr!r}, which is never assigned")]
            finally:
                self._active.discard(key)
        return [("unk", f"the mapping behind the proxy is `{src(a)[:40]}` in {f.qualname}, whose class is not known")]

    # ---------------------------------------------------------------- the class of the wrapped mapping
    def class_verdict(self, fq: str) -> List[Tuple[str, str]]:
        if fq in self._cls:
            return self._cls[fq]
        self._cls[fq] = []  # (a cycle in the bases adds nothing)
        self.classes.add(fq)
        repo, rs = self.ctx.repo, self.ctx.rs
        mod, _, cname = fq.partition(".")
        if mod not in repo.modules or cname not in repo.module(mod).classes:
            self._cls[fq] = [("unk", f"the class {fq} of the wrapped mapping is not found")]
            return self._cls[fq]
        node = repo.cls(fq)
        res: List[Tuple[str, str]] = []
        own = set()
        for g in repo.methods(fq):
            name = g.qualname.rsplit(".", 1)[1]
            if name in _READ_HOOKS:
                own.add(name)
                res.extend(self.hook(g, cname, name))
        for name, v in repo.class_attrs(fq).items():
            if name in _READ_HOOKS:
                own.add(name)
                d = dotted(v)
                s = rs.lookup_dotted(mod, d) if d else None
                g = repo.modules[s.module].funcs.get(s.name) if s is not None and s.kind == "func" else None
                if g is not None:
                    res.extend(self.hook(g, cname, name))
                elif not (isinstance(v, ast.Constant) and v.value is None):
                    res.append(("unk", f"{cname}.{name} is bound to `{src(v)[:40]}`, which is not a function of the package"))
        if node.keywords:
            res.append(("unk", f"class {cname} is created with `{src(node.keywords[0])[:40]}`"))
        for b in node.bases:
            b0 = b.value if isinstance(b, ast.Subscript) else b  # OrderedDict[str, Any]
            d = dotted(b0)
            s = rs.lookup_dotted(mod, d) if d else None
            if s is not None and s.kind == "class":
                res.extend(self.class_verdict(s.fq))
                continue
            names = {d, s.name if s is not None and s.kind == "external" else None}
            if names & _PURE_MAPPINGS:
                res.append(("ok", f"{cname} inherits the reads of {d}, which do not write"))
            elif names & _DEFAULTING and "__missing__" in own:
                res.append(("ok", f"{cname} replaces the storing __missing__ of {d}"))
            elif names & {"Generic", "typing.Generic", "object"}:
                continue
            else:
                res.append(("unk", f"{cname} inherits from `{src(b)[:40]}`, whose read protocol is not known"
                                   + (" (a defaultdict stores the default on a missing key when it has a factory)" if names & _DEFAULTING else "")))
        if not any(k != "ok" for k, _d in res):
            res.append(("ok", f"no read hook of the mapping class {cname} modifies the mapping"))
        self._cls[fq] = res
        return res

    def hook(self, g, cname: str, name: str) -> List[Tuple[str, str]]:
        ps = params(g.node)
        if not ps or ({"staticmethod", "classmethod"} & _decorators(g)) or assignments_to(g.node, ps[0]):
            return [("unk", f"{cname}.{name}: the receiver of the read hook cannot be located")]
        holders = _same_object_names(g, {ps[0]})
        found = [d for _s, _h, d in self.fin.modifications(g, holders)]
        rs = self.ctx.rs
        unk: List[str] = []
        for n in body_walk(g.node):
            if isinstance(n, ast.Call) and isinstance(n.func, ast.Attribute) and n.func.attr in MUTATORS:
                recv = strip_cast(n.func.value)
                if isinstance(recv, ast.Call) and dotted(recv.func) == "super":
                    found.append(f"`{src(n)[:50]}`")
                elif n.args and isinstance(strip_cast(n.args[0]), ast.Name) and strip_cast(n.args[0]).id in holders and dotted(recv):
                    d = dotted(recv)
                    s = rs.lookup_dotted(g.module.name, d)
                    if (s is not None and s.kind in ("class", "external")) or d in _PURE_MAPPINGS | _DEFAULTING:
                        found.append(f"`{src(n)[:50]}`")  # dict.__setitem__(self, k, v)
            elif isinstance(n, (ast.Assign, ast.AugAssign, ast.AnnAssign, ast.Delete)):
                tgts = n.targets if isinstance(n, (ast.Assign, ast.Delete)) else [n.target]
                for t, _v in [p for t0 in tgts for p in _target_pairs(t0, None)]:
                    if isinstance(t, ast.Attribute) and isinstance(strip_cast(t.value), ast.Name) and strip_cast(t.value).id in holders:
                        unk.append(f"`{src(n)[:50]}` in the read hook {cname}.{name} keeps state in an attribute of the mapping; whether later reads depend on it is not decided")
        if found:
            return [("bad", f"{d} in {g.qualname}, a read hook of the class {cname} of the mapping behind the proxy, modifies the mapping: a plain read "
                            f"through the read-only proxy (subscript, `in`, .get, iteration ...) changes what the view holds afterwards") for d in sorted(set(found))[:2]]
        if unk:
            return [("unk", unk[0])]
        return [("ok", f"{cname}.{name} does not modify the mapping")]


def r9(ctx):
    """Reading a view is pure.  A MappingProxyType only blocks the *write* protocol; every read is forwarded to the mapping
    it wraps (`proxy[k]` -> `__getitem__` -> `__missing__`, `in`, `.get`, iteration, len, ==, repr).  So the class of the
    mapping behind every proxy that can become the value of a view must not modify the mapping in any hook of the read
    protocol - otherwise view access is not an observation: a look-up changes len()/keys()/items() of the cached view, the
    views differ from those of a freshly parsed configuration, and whatever iterates the view afterwards (profile
    generation) depends on which look-ups were made before."""
    co = _config(ctx)
    fmap = ctx.repo.func(f"{CONFIG_CLS}.settings_map")
    co.returns(fmap, {})
    for name in VIEWS:
        co.returns(ctx.repo.func(f"{CONFIG_CLS}.{name}"), {})
    for w in co.writes():  # (the cache fills: same provenance walk as R3/R7, idempotent)
        if w.how == "store" and w.value is not None and w.f.module.name == co.mod:
            co.kinds(w.f, w.value, {})
    sites = list(co.proxy_sites)
    for g in ctx.repo.methods(CONFIG_CLS):
        sites.extend((g, c) for c in fn_calls(g.node) if co.is_proxy_ctor(g, c) and not any(c is x for _g, x in sites))
    rp = _ReadPure(ctx, co, _Final(ctx, co))
    text = "reading a view does not modify it"
    per_func: Dict[str, tuple] = {}
    for g, call in sites:
        if co._inlined_away(g):
            continue
        arg = call.args[0] if call.args and not isinstance(call.args[0], ast.Starred) else None
        per_func.setdefault(g.fq, (g, []))[1].extend(rp.origins(g, arg, {}))
    for _fq, (g, res) in sorted(per_func.items()):
        bad = sorted({d for k, d in res if k == "bad"})
        unk = sorted({d for k, d in res if k == "unk"})
        if bad:
            ctx.ob("R9", "ALIAS", g, text, False, "; ".join(bad[:3]), g.node)
        elif unk:
            ctx.undecided("R9", "ALIAS", g, text, "; ".join(unk[:3]), g.node)
        elif not res:
            ctx.undecided("R9", "ALIAS", g, text, "the mapping behind the proxy cannot be located", g.node)
        else:
            ctx.ob("R9", "ALIAS", g, text, True, "; ".join(sorted({d for _k, d in res})[:3]), g.node)
    if not per_func:
        ctx.undecided("R9", "ALIAS", fmap, text, "no MappingProxyType construction was found on the way to a view: the mapping that is read cannot be located", fmap.node)
    ctx.rep.extra["view_mapping_classes"] = sorted(rp.classes)


# ============================================================================================== R8: cache hits are determined
_LOOKUP_METHODS = ("get", "setdefault")


class _Slice:
    """Backward slice of a value inside one function: which parameters may it depend on?

    Graph reachability over def-use edges (the definitions of a local that reach the use: copies, paired tuple targets,
    loop targets, with-targets, augmented assignments), over in-place modifications of the object a local names (item
    stores and mutator calls, through plain copies of the name, that can reach the use on the CFG) and - unless
    `control` is off - over control dependence (the tests of the branch edges that dominate a defining / modifying
    statement, the iterable of an enclosing `for`).  Nothing is evaluated: the result is the set of parameter names
    reached; the receiver parameter is left out (what the configuration itself holds is covered by R1/R3)."""

    def __init__(self, ctx, g, me: str):
        self.ctx, self.g, self.me = ctx, g, me
        self.fv = FuncView.of(g.node)
        a = g.node.args
        self.ps = (set(params(g.node)) | {x.arg for x in (a.vararg, a.kwarg) if x is not None}) - {me}

    def of(self, e: Optional[ast.AST], control: bool = True) -> Set[str]:
        return {x for x in self._reach(e, control) if isinstance(x, str)}

    def state_read(self, e: Optional[ast.AST], control: bool = False) -> Set[str]:
        """The attributes of the receiver the value is computed from."""
        return {x[1] for x in self._reach(e, control) if isinstance(x, tuple)}

    def _reach(self, e: Optional[ast.AST], control: bool) -> set:
        out: set = set()
        if e is not None:
            self._expr(e, control, out, set())
        return out

    def _expr(self, e: ast.AST, control: bool, out: set, seen: set):
        for n in ast.walk(e):
            if isinstance(n, ast.Name) and isinstance(n.ctx, ast.Load) and n.id != self.me and id(n) in self.fv.parent:
                self._name(n, control, out, seen)
            elif isinstance(n, ast.Attribute) and isinstance(n.value, ast.Name) and n.value.id == self.me:
                out.add(("attr", n.attr))

    def _name(self, n: ast.Name, control: bool, out: Set[str], seen: set):
        for st, v in reaching_defs(self.ctx, self.g, n.id, n):
            if st is self.g.node:
                if n.id in self.ps:
                    out.add(n.id)
                continue
            if ("def", id(st), n.id) in seen:
                continue
            seen.add(("def", id(st), n.id))
            if v is not None:
                self._expr(v, control, out, seen)
            elif isinstance(st, (ast.For, ast.AsyncFor)):
                self._expr(st.iter, control, out, seen)
            elif isinstance(st, (ast.With, ast.AsyncWith)):
                for it in st.items:
                    self._expr(it.context_expr, control, out, seen)
            elif isinstance(st, ast.Assign):
                self._expr(st.value, control, out, seen)
            elif isinstance(st, ast.AugAssign):
                self._expr(st.value, control, out, seen)
                for x in ast.walk(st.target):  # ... and the value the name had before
                    if isinstance(x, ast.Name) and x.id == n.id:
                        self._name(x, control, out, seen)
            if control:
                self._control(st, out, seen)
        if assignments_to(self.g.node, n.id):
            self._modifications(n, control, out, seen)

    def _modifications(self, n: ast.Name, control: bool, out: Set[str], seen: set):
        cfg = self.ctx.cfg(self.g)
        ust = self.fv.stmt_of(n)
        holders = _same_object_names(self.g, {n.id})
        for m in body_walk(self.g.node):
            hit = False
            if isinstance(m, ast.Call) and isinstance(m.func, ast.Attribute) and m.func.attr in MUTATORS:
                r = strip_cast(m.func.value)
                hit = isinstance(r, ast.Name) and r.id in holders
            elif isinstance(m, (ast.Assign, ast.AugAssign, ast.AnnAssign, ast.Delete)):
                tgts = m.targets if isinstance(m, (ast.Assign, ast.Delete)) else [m.target]
                for t, _v in [p for t0 in tgts for p in _target_pairs(t0, None)]:
                    b = strip_cast(t.value) if isinstance(t, ast.Subscript) else None
                    hit = hit or (isinstance(b, ast.Name) and b.id in holders)
            if not hit or ("mut", id(m)) in seen:
                continue
            mst = self.fv.stmt_of(m)
            if mst is None or ust is None or not (cfg.has(mst) and cfg.has(ust)):
                continue
            if not (mst is ust or cfg.reaches(cfg.node(mst), cfg.node(ust))):
                continue
            seen.add(("mut", id(m)))
            self._expr(m, control, out, seen)
            if control:
                self._control(mst, out, seen)

    def _control(self, st: ast.AST, out: Set[str], seen: set):
        from csverif.q import dominating_conditions

        s = st if isinstance(st, ast.stmt) else self.fv.stmt_of(st)
        if s is None or ("ctl", id(s)) in seen:
            return
        seen.add(("ctl", id(s)))
        for _t, _pol, test in dominating_conditions(self.ctx, self.g, s):
            if id(test) in self.fv.parent:  # (the mirrored copies are not nodes of the function)
                self._expr(test, True, out, seen)
        for anc in self.fv.ancestors(s):
            if isinstance(anc, (ast.For, ast.AsyncFor)):
                self._expr(anc.iter, True, out, seen)

    def guards(self, stmts, p: str, inner: Optional[ast.AST] = None, cache_attr: Optional[str] = None) -> Set[tuple]:
        """The conditions on the way to `stmts` (branch edges that dominate them; conditional expressions / short circuits
        around `inner` inside its statement) whose operands are computed from parameter p: (text, outcome, definitions
        of the names in it that reach the test).  Tests that look at the cache itself (`key in table`, `entry is None`:
        the hit / miss decision) are not conditions on p and are left out."""
        from csverif.q import dominating_conditions

        found: List[Tuple[ast.AST, bool]] = []
        for st in stmts:
            if st is not None:
                found.extend((test, pol) for _t, pol, test in dominating_conditions(self.ctx, self.g, st) if id(test) in self.fv.parent)
        child = inner
        while child is not None and not isinstance(child, ast.stmt):
            par = self.fv.parent.get(id(child))
            if isinstance(par, ast.IfExp) and child is not par.test:
                found.append((par.test, child is par.body))
            elif isinstance(par, ast.BoolOp) and par.values and child is not par.values[0]:
                i = next((k for k, x in enumerate(par.values) if x is child), 0)
                found.extend((x, isinstance(par.op, ast.And)) for x in par.values[:i])
            child = par
        out: Set[tuple] = set()
        for test, pol in found:
            while isinstance(test, ast.UnaryOp) and isinstance(test.op, ast.Not):
                test, pol = test.operand, not pol
            if p not in self.of(test, control=False) or (cache_attr is not None and cache_attr in self.state_read(test)):
                continue
            defs = set()
            for x in ast.walk(test):
                if isinstance(x, ast.Name) and id(x) in self.fv.parent:
                    defs |= {(x.id, id(d)) for d, _v in reaching_defs(self.ctx, self.g, x.id, x)}
            out.add((src(test), pol, tuple(sorted(defs))))
        return out


class _Access:
    """One access of configuration state that works as a cache: `form` "item" (an entry of a table held by attribute
    `attr`, under `key`) or "slot" (the attribute itself); a store puts `value` there, a hit is a `return` whose value
    may come from there."""

    def __init__(self, form, attr, key, value, node, stmt, ret=None):
        self.form, self.attr, self.key, self.value, self.node, self.stmt, self.ret = form, attr, key, value, node, stmt, ret


def _tables_of(ctx, co: _ConfigObjects, g, e: ast.AST, depth: int = 0) -> Set[str]:
    """Attributes A such that e may denote the object held by `self.A` (directly or through a local bound to it)."""
    e = strip_cast(e)
    if isinstance(e, ast.Attribute) and co.is_self(g, e.value):
        return set() if ctx.rs.property_of(co.cls_fq, e.attr) is not None else {e.attr}
    out: Set[str] = set()
    if isinstance(e, ast.Name) and depth < 4:
        for st, v in reaching_defs(ctx, g, e.id, e):
            if st is not g.node and v is not None:
                for a in _alts(v):
                    out |= _tables_of(ctx, co, g, a, depth + 1)
    return out


def _value_origins(ctx, g, e: ast.AST, seen: set, depth: int = 0) -> List[ast.AST]:
    """The expressions a value may come from, looking through locals (reaching definitions) and conditional forms."""
    out: List[ast.AST] = []
    for a in _alts(e):
        if isinstance(a, ast.Name) and depth < 8:
            for st, v in reaching_defs(ctx, g, a.id, a):
                if st is not g.node and v is not None and id(v) not in seen:
                    seen.add(id(v))
                    out.extend(_value_origins(ctx, g, v, seen, depth + 1))
        else:
            out.append(a)
    return out


def _cache_accesses(ctx, co: _ConfigObjects, g, hits: bool = True) -> Tuple[List[_Access], List[_Access]]:
    """(stores, hits) of function g on its receiver's state."""
    want_hits = hits
    fv = FuncView.of(g.node)
    stores: List[_Access] = []
    hits: List[_Access] = []
    for n in body_walk(g.node):
        if isinstance(n, (ast.Assign, ast.AnnAssign, ast.AugAssign)):
            if isinstance(n, ast.AnnAssign) and n.value is None:
                continue
            tgts = n.targets if isinstance(n, ast.Assign) else [n.target]
            for t, v in [p for t0 in tgts for p in _target_pairs(t0, n.value if not isinstance(n, ast.AugAssign) else None)]:
                v = v if v is not None else n.value
                if isinstance(t, ast.Subscript) and not isinstance(t.slice, ast.Slice):
                    for a in sorted(_tables_of(ctx, co, g, t.value)):
                        stores.append(_Access("item", a, t.slice, v, n, n))
                elif isinstance(t, ast.Attribute) and co.is_self(g, t.value) and ctx.rs.property_of(co.cls_fq, t.attr) is None:
                    stores.append(_Access("slot", t.attr, None, v, n, n))
        elif isinstance(n, ast.Call) and isinstance(n.func, ast.Attribute) and n.func.attr in MUTATORS:
            for a in sorted(_tables_of(ctx, co, g, n.func.value)):
                if n.func.attr == "setdefault" and len(n.args) == 2 and not n.keywords:
                    stores.append(_Access("item", a, n.args[0], n.args[1], n, fv.stmt_of(n)))
                elif n.func.attr not in ("pop", "popitem", "clear", "discard", "remove"):
                    stores.append(_Access("item", a, None, n, n, fv.stmt_of(n)))  # update(...) & co: the key is not located
    for r in returns_of(g) if want_hits else ():
        if r.value is None:
            continue
        for o in _value_origins(ctx, g, r.value, set()):
            if isinstance(o, ast.Call) and isinstance(o.func, ast.Attribute) and o.func.attr in _LOOKUP_METHODS and o.args:
                for a in sorted(_tables_of(ctx, co, g, o.func.value)):
                    hits.append(_Access("item", a, o.args[0], None, o, fv.stmt_of(o), r))
            elif isinstance(o, ast.Subscript) and not isinstance(o.slice, ast.Slice):
                for a in sorted(_tables_of(ctx, co, g, o.value)):
                    hits.append(_Access("item", a, o.slice, None, o, fv.stmt_of(o), r))
            elif isinstance(o, ast.Attribute):
                for a in sorted(_tables_of(ctx, co, g, o)):
                    hits.append(_Access("slot", a, None, None, o, fv.stmt_of(o), r))
    return stores, hits


def _same_constant(vals) -> Optional[bool]:
    """Do all (function, expression, env) bindings denote one constant?  None when one of them is not a constant."""
    got = []
    for _cf, ce, _env in vals:
        try:
            got.append(repr(const_eval(ce)))
        except (NotConst, KeyError, TypeError, ValueError):
            return None
    return len(set(got)) == 1


def r8(ctx):
    """A cache hit is determined by the inputs of the cached value.  Where a method of the configuration keeps a result in
    the configuration (an entry of a table held by an attribute, or an attribute slot) and answers later calls from
    there, every parameter the stored value depends on must either take part in the key - of the store and of the
    look-up - or the look-up must be conditioned on it; otherwise a call is answered with the result computed for
    other arguments, i.e. what an operation returns depends on which operations ran before."""
    from csverif.normalise import baseline

    co = _config(ctx)
    text = "cache hit determined by the inputs of the cached value"
    known = set((baseline().get(co.mod) or {}).get("functions", []))
    memoising = 0
    filled: Dict[str, List[tuple]] = {}   # table attribute -> (function, store) where an entry is stored after construction
    read: Dict[str, List[tuple]] = {}
    judged_attrs: Set[str] = set()
    for g in ctx.repo.methods(CONFIG_CLS):
        ps = params(g.node)
        if not ps or not co.is_self(g, ast.Name(id=ps[0], ctx=ast.Load())) or g.qualname == f"{co.cname}.__init__" or co._inlined_away(g):
            continue
        stores, hits = _cache_accesses(ctx, co, g)
        for s in stores:
            if s.form == "item":
                filled.setdefault(s.attr, []).append((g, s))
        for h in hits:
            if h.form == "item":
                read.setdefault(h.attr, []).append((g, h))
        groups = sorted({(s.form, s.attr) for s in stores} & {(h.form, h.attr) for h in hits})
        if not groups:
            continue
        memoising += 1
        sl = _Slice(ctx, g, ps[0])
        bad: List[str] = []
        unk: List[str] = []
        good: List[str] = []
        for form, attr in groups:
            judged_attrs.add(attr)
            S = [s for s in stores if (s.form, s.attr) == (form, attr)]
            H = [h for h in hits if (h.form, h.attr) == (form, attr)]
            what = f"the table held by attribute {attr!r}" if form == "item" else f"the slot {attr!r}"
            if any(s.key is None for s in S) and form == "item":
                unk.append(f"{what} is filled by `{src(next(s.node for s in S if s.key is None))[:50]}`: the key of the entry cannot be located")
                continue
            deps: Dict[str, _Access] = {}
            for s in S:
                for p in sorted(sl.of(s.value)):
                    deps.setdefault(p, s)
            if not deps:
                good.append(f"the value kept in {what} depends on no input besides the configuration itself")
                continue
            for p, s0 in sorted(deps.items()):
                if form == "item" and all(p in sl.of(s.key) for s in S) and all(p in sl.of(h.key) for h in H):
                    good.append(f"parameter `{p}` takes part in the key of {what}")
                    continue
                hs = [sl.guards([h.stmt, h.ret], p, h.node, attr) for h in H]
                ss = [sl.guards([s.stmt], p, None, attr) for s in S]
                if all(hs):
                    if all(a == b for a in hs for b in ss):
                        good.append(f"parameter `{p}` is not part of the key of {what}, but the entry is stored and looked up under the same conditions on it "
                                    f"({', '.join(sorted(('' if pol else 'not ') + t for t, pol, _d in hs[0]))})")
                    else:
                        unk.append(f"the value stored in {what} depends on parameter `{p}`, which is not part of the key; the look-up and the store are "
                                   f"conditioned on it in different ways, which the rule cannot relate")
                    continue
                if g.qualname not in known and co.sites(g):  # a new helper: only the package's own calls matter
                    vals = co._param_values(g, p, {})
                    same = _same_constant(vals) if vals else None
                    if same:
                        good.append(f"parameter `{p}` is the same constant at every call of {g.qualname}")
                        continue
                    if same is None:
                        unk.append(f"the value stored in {what} depends on parameter `{p}` of the helper {g.qualname}, which is neither part of the key nor a constant at its calls")
                        continue
                h0 = next(h for h, sig in zip(H, hs) if not sig)
                keytxt = f"the key `{src(h0.key)[:40]}`" if h0.key is not None else "no key"
                bad.append(f"`{src(s0.stmt)[:60]}` keeps a value that depends on parameter `{p}`, but `{src(h0.ret)[:40]}` answers from {what} under {keytxt}, "
                           f"which does not involve `{p}`, and no condition on the way to that look-up does either: a call is answered with the result computed "
                           f"for a different `{p}`, so the result depends on which calls were made before")
        if bad:
            ctx.ob("R8", "AGREE", g, text, False, "; ".join(bad[:3]), g.node)
        elif unk:
            ctx.undecided("R8", "AGREE", g, text, "; ".join(unk[:3]), g.node)
        else:
            ctx.ob("R8", "AGREE", g, text, True, "; ".join(sorted(set(good))[:4]), g.node, nontrivial=any("parameter" in x for x in good))
    # a keyed table that one method fills and another one answers from: the two keys are not related across functions
    for attr in sorted(set(filled) & set(read) - judged_attrs):
        g, s = filled[attr][0]
        h_g, h = read[attr][0]
        memoising += 1
        ctx.undecided("R8", "AGREE", g, text, f"the table held by attribute {attr!r} is filled here (`{src(s.stmt)[:50]}`) and read in {h_g.qualname} "
                      f"(`{src(h.ret)[:40]}`): the key of the look-up is not related to the arguments of the fill across functions", g.node)
    ctx.rep.counts["memoising_methods"] = memoising
