"""C11 - The dictionary view reports exactly what the profile says (structural part)."""

from __future__ import annotations

import ast

from csverif import tables
from csverif.astutil import assignments_to, body_walk, compare_parts, const_eval, dotted, fn_calls, NotConst, params, src, statements
from csverif.cfg import ENTRY, EXIT
from csverif.grammar import Grammar
from csverif.q import FuncView, guarded_by, origin

# list_props entries that are dead by construction (one line of reason each)
DEAD_LIST_PROPS = {"stage.transform-x86.header": "stage_transform has no nested block, the path can never be a block stack"}

# builder class -> grammar rule(s) whose alternatives may appear among its children
# (reason: class docstrings and attach sites; the classes' own __name__ is irrelevant because set_config_block splices
# only the children)
BUILDER_RULES = {
    "HttpOptionsBlock": ["http_options", "http_get_client_options"],
    "HttpConfigBlock": ["http_config_options"],
    "HttpStagerBlock": ["http_stager_options"],
    "HttpGetBlock": ["http_get_options"],
    "HttpPostBlock": ["http_post_options"],
    "StageBlock": ["stage_options"],
    "StageTransformBlock": ["stage_transform"],
    "ProcessInjectBlock": ["process_inject_options"],
    "PostExBlock": ["postex_options"],
    "DnsBeaconBlock": ["dns_beacon_options"],
    "HttpBeaconBlock": ["http_beacon_options"],
    "ExecuteOptionsBlock": ["execute_options"],
    "BeaconGateBlock": ["beacon_gate_options"],
}
HELPER_ARITY = {"_enable": 0, "set_option": 1, "_pair": 2, "_header": 2, "_parameter": 2}
HELPER_FIXED_NAME = {"_header": "header", "_parameter": "parameter"}


def _c(node):
    try:
        return const_eval(node) if node is not None else None
    except (NotConst, TypeError):
        return None


def aliases_of(g: Grammar, origins):
    """alias -> set of string arities, over the alternatives of the given origins."""
    out = {}
    for o in origins:
        for r in g.alternatives(o):
            if r.alias and not g.is_block(r):
                out.setdefault(r.alias, set()).add(g.string_arity(r))
    return out


def block_aliases_of(g: Grammar, origins):
    out = {}
    for o in origins:
        for r in g.alternatives(o):
            if r.alias and g.is_block(r):
                out.setdefault(r.alias, set()).update(g.body_origins(r))
    return out


def run(ctx):
    rep = ctx.rep
    rep.explanation = (
        "Static analysis of c2profile.py against the compiled grammar: every list_props entry is a keyword path of the "
        "grammar ending in a list-valued block and the reference data-transform paths are covered; cache coherence of "
        "as_dict by CFG dominance (cached dict returned only under a fresh hash comparison, hash and cache stored together "
        "after the walk); every builder attribute bound to _enable/set_option/_pair names a grammar alias of arity 0/1/2 in "
        "the rule of its block; tree shapes built by set_option / DataTransformBlock equal the grammar's kept symbols."
    )
    rep.not_decided = ["exactness and order of reported values for all profiles", "the token-stream stack machine's behaviour on variants",
                       "as_dict hands out its cache by reference (observation, not armed: the property speaks of modifications of the profile)"]
    rep.trusted_base = ["lark grammar loader", "CPython ast", "reference data-transform path list in csverif/tables.py"]
    g = Grammar(ctx.repo)
    r1(ctx, g)
    r2(ctx)
    r3(ctx, g)
    # builder == parser: a builder-made step carries its argument iff one was given (C13.R8), and every alias of the
    # grammar stands for one keyword (C10.R1) - otherwise a parsed option is reported under another option's name
    from rules import c10, c13

    ctx.import_obligations("R4", c13.r8)
    ctx.import_obligations("R5", c10.r1, g)


def r1(ctx, g):
    f = ctx.repo.func("c2profile.C2Profile.as_dict")
    # the list of list-valued block paths: the list literal tested with `key in <list>` to decide about bytes decoding
    lp_name = None
    for n in body_walk(f.node):
        if isinstance(n, ast.Compare) and isinstance(n.ops[0], ast.In) and isinstance(n.comparators[0], ast.Name):
            d = [v for st, v in assignments_to(f.node, n.comparators[0].id)]
            if len(d) == 1 and isinstance(d[0], (ast.List, ast.Tuple, ast.Set)) and d[0].elts and all(isinstance(_c(e), str) and "." in _c(e) for e in d[0].elts):
                lp_name = n.comparators[0].id
    lp = [v for st, v in assignments_to(f.node, lp_name)] if lp_name else []
    props = list(_c(lp[0])) if len(lp) == 1 and _c(lp[0]) is not None else None
    if not isinstance(props, list):
        ctx.ob("R1", "TABLE", f, "list_props", False, "list_props is not a literal list")
        return
    paths = g.keyword_paths()
    list_bodies = {"data_transform", "execute_options", "stage_transform"}
    for p in props:
        if p in DEAD_LIST_PROPS:
            ctx.ob("R1", "TABLE", f, f"list_props {p}", True, "frozen dead entry: " + DEAD_LIST_PROPS[p], nontrivial=False)
            continue
        body = paths.get(p)
        ok = body is not None and bool(body) and body <= list_bodies
        ctx.ob("R1", "GRAM", f, f"list_props {p}", ok, f"{p!r} is a block path of the grammar={body is not None}; its body is {sorted(body or [])} (must be a list-valued block: {sorted(list_bodies)})")
    need = set(tables.DATA_TRANSFORM_PATHS) | {"process-inject.execute"}
    missing = sorted(need - set(props))
    ctx.ob("R1", "TABLE", f, "list_props covers reference", not missing, f"reference list-valued paths missing from list_props: {missing}")
    for p in sorted(need):
        ctx.ob("R1", "GRAM", "c2profile.lark", f"path {p}", p in paths, f"reference path {p!r} exists in the grammar={p in paths}", nontrivial=False)
    # values under those keys are decoded to bytes
    dec = [c for c in fn_calls(f.node) if dotted(c.func) == "string_token_to_bytes"]
    ok = bool(dec) and all(guarded_by(ctx, f, c, lambda t: True if any(isinstance(op, ast.In) and dotted(r) == lp_name for l, op, r in compare_parts(t)) else None) for c in dec)
    ctx.ob("R1", "AGREE", f, "string_token_to_bytes under `key in list_props`", ok, "list-valued entries are decoded to bytes" if ok else "list_props values are not decoded with string_token_to_bytes")
    # STRING tokens are unquoted by removing exactly the first and the last character, the way the grammar delimits them
    # (and string_token_to_bytes does): [1:-1]; strip()/replace() would eat quotes that belong to the value
    unq = [n for n in body_walk(f.node) if isinstance(n, ast.Subscript) and isinstance(n.slice, ast.Slice) and isinstance(n.value, ast.Call) and dotted(n.value.func) == "str"
           and _c(n.slice.lower) == 1 and _c(n.slice.upper) == -1]
    other = [src(c)[:40] for c in fn_calls(f.node) if isinstance(c.func, ast.Attribute) and c.func.attr in ("strip", "lstrip", "rstrip", "replace", "removeprefix", "removesuffix")]
    ctx.ob("R1", "AGREE", f, "STRING tokens unquoted with [1:-1]", len(unq) >= 2 and not other, f"{len(unq)} `str(token)[1:-1]` sites; other string surgery on tokens: {other}")
    ctx.rep.count("list_props_entries", len(props), floor=8)
    ctx.rep.count("grammar_block_paths", len(paths), floor=30)


def r2(ctx):
    f = ctx.repo.func("c2profile.C2Profile.as_dict")
    cfg = ctx.cfg(f)
    fv = FuncView.of(f.node)
    rets = cfg.return_stmts()
    cached = [r for r in rets if dotted(r.value) == "self._dict_cache"]

    def fresh_hash_eq(t):
        for l, op, r in compare_parts(t):
            if isinstance(op, ast.Eq) and {src(l), src(r)} == {"self._dict_hash", "hash(self.tree)"}:
                return True
            if isinstance(op, ast.NotEq) and {src(l), src(r)} == {"self._dict_hash", "hash(self.tree)"}:
                return False
        return None

    sets_h = [s for s in statements(f.node) if isinstance(s, ast.Assign) and dotted(s.targets[0]) == "self._dict_hash"]
    sets_c = [s for s in statements(f.node) if isinstance(s, ast.Assign) and dotted(s.targets[0]) == "self._dict_cache"]
    for r in cached:
        early = guarded_by(ctx, f, r, fresh_hash_eq)
        after_store = any(cfg.dominates(cfg.node(s), cfg.node(r)) for s in sets_c) and any(cfg.dominates(cfg.node(s), cfg.node(r)) for s in sets_h)
        ctx.ob("R2", "DOM", f, "return self._dict_cache" + (" [early]" if early else " [after recompute]"), bool(early or after_store),
               "cached dictionary returned under `self._dict_hash == hash(self.tree)`" if early else
               "returned after both the hash and the cache were stored" if after_store else "cached dictionary returned without a fresh hash comparison", r)
    ctx.ob("R2", "DOM", f, "returns", bool(cached) and len(cached) == len(rets), f"{len(rets)} returns, {len(cached)} of the cache")
    ok = len(sets_h) == 1 and len(sets_c) == 1 and src(sets_h[0].value) == "hash(self.tree)"
    walk_calls = [c for c in fn_calls(f.node) if isinstance(c.func, ast.Attribute) and c.func.attr == "_reconstruct"]
    w_ok = len(walk_calls) == 1 and any(dotted(n) == "self.tree" for n in ast.walk(walk_calls[0]))
    if ok and w_ok:
        wst = fv.stmt_of(walk_calls[0])
        ok = cfg.dominates(cfg.node(wst), cfg.node(sets_h[0])) and cfg.dominates(cfg.node(wst), cfg.node(sets_c[0]))
        cv = origin(f.node, sets_c[0].value)
        ok = ok and "properties" in src(sets_c[0].value)
    fresh = len(sets_c) == 1 and isinstance(sets_c[0].value, ast.Call) and dotted(sets_c[0].value.func) == "dict" and len(sets_c[0].value.args) == 1
    ctx.ob("R2", "AGREE", f, "cache is a plain dict copy", fresh, "the cached/returned view is dict(<collected properties>): a plain dictionary" if fresh else
           f"the cached view is {src(sets_c[0].value) if sets_c else None}: handing out the collecting defaultdict lets a failed lookup add phantom keys to the view")
    ctx.ob("R2", "AGREE", f, "hash and cache stored together after the walk", bool(ok and w_ok),
           "hash(self.tree) and the walked properties of self.tree are stored together, after the walk" if ok and w_ok else "hash/cache are not stored together after walking self.tree")
    init = ctx.repo.func("c2profile.C2Profile.__init__")
    vals = {dotted(s.targets[0]): s.value for s in statements(init.node) if isinstance(s, ast.Assign)}
    ok = isinstance(vals.get("self._dict_hash"), ast.Constant) and vals["self._dict_hash"].value is None and "self._dict_cache" in vals
    ctx.ob("R2", "AGREE", init, "cache reset in __init__", ok, "a new profile starts with no cached dictionary" if ok else "__init__ does not reset the dictionary cache")
    ft = ctx.repo.func("c2profile.C2Profile.from_text")
    touch = [s for s in statements(ft.node) if isinstance(s, ast.Assign) and (dotted(s.targets[0]) or "").endswith(("_dict_hash", "_dict_cache"))]
    ctx.ob("R2", "AGREE", ft, "from_text leaves the cache key alone", not touch, "from_text replaces the tree without pre-seeding the cache" if not touch else "from_text writes the cache key")
    for other in ctx.repo.methods("c2profile.C2Profile"):
        if other.qualname.split(".")[-1] in ("as_dict", "__init__"):
            continue
        w = [s for s in statements(other.node) if isinstance(s, (ast.Assign, ast.AugAssign)) and any((dotted(t) or "").startswith("self._dict_") for t in (s.targets if isinstance(s, ast.Assign) else [s.target]))]
        if w:
            ctx.ob("R2", "AGREE", other, "writes the dictionary cache", False, f"{other.qualname} writes the dictionary cache outside as_dict", w[0])


def r3(ctx, g):
    n = 0
    for cname, origins in BUILDER_RULES.items():
        attrs = ctx.repo.class_attrs(f"c2profile.{cname}")
        al = aliases_of(g, origins)
        for a, v in attrs.items():
            d = dotted(v) or ""
            if not d.startswith("ConfigBlock."):
                continue
            helper = d.split(".", 1)[1]
            if helper not in HELPER_ARITY:
                continue
            n += 1
            name = HELPER_FIXED_NAME.get(helper, a)
            ar = HELPER_ARITY[helper]
            ok = name in al and ar in al[name]
            ctx.ob("R3", "GRAM", f"c2profile.py::{cname}", f"{a} = ConfigBlock.{helper}", ok,
                   f"builder emits tree {name!r} with {ar} string(s); grammar rule(s) {origins} " + (f"have that alias with arities {sorted(al[name])}" if name in al else "have no such alias"))
        # reverse direction for the blocks that enumerate their options (enable-style lists)
        if cname in ("ExecuteOptionsBlock", "BeaconGateBlock"):
            missing = sorted(set(al) - set(attrs))
            ctx.ob("R3", "GRAM", f"c2profile.py::{cname}", "covers grammar alternatives", not missing, f"grammar aliases of {origins} without a builder attribute: {missing}")
    ctx.rep.count("builder_attributes", n, floor=40)
    # C2Profile.__name__ == "start"; set_option builds option[OPTION, string]
    attrs = ctx.repo.class_attrs("c2profile.C2Profile")
    ctx.ob("R3", "GRAM", "c2profile.py::C2Profile", "__name__", _c(attrs.get("__name__")) == "start" and "start" in g.by_origin, f"root tree name {_c(attrs.get('__name__'))!r} (grammar start rule 'start')")
    so = ctx.repo.func("c2profile.C2Profile.set_option")
    trees = [c for c in fn_calls(so.node) if dotted(c.func) == "Tree"]
    ok = False
    detail = "set_option does not build Tree('option', [Token('OPTION', ..), Tree('string', [Token('STRING', ..)])])"
    opt_rules = [r for r in g.rules if r.tree_name == "option"]
    if trees and opt_rules:
        t = trees[0]
        kids = t.args[1].elts if len(t.args) > 1 and isinstance(t.args[1], ast.List) else []
        shape = []
        for k in kids:
            if isinstance(k, ast.Call) and dotted(k.func) == "Token":
                shape.append((_c(k.args[0]), True))
            elif isinstance(k, ast.Call) and dotted(k.func) == "Tree":
                shape.append((_c(k.args[0]), False))
        ok = _c(t.args[0]) == "option" and tuple(shape) == opt_rules[0].kept
        detail = f"builds option{shape}; grammar `option` keeps {opt_rules[0].kept}"
    ctx.ob("R3", "GRAM", so, "Tree('option', [OPTION, string])", ok, detail)
    base = ctx.repo.func("c2profile.ConfigBlock.set_option")
    trees = [c for c in fn_calls(base.node) if dotted(c.func) == "Tree"]
    ok = len(trees) == 2 and dotted(trees[0].args[0]) == params(base.node)[1] and _c(trees[1].args[0]) == "string" and "Token('STRING'" in src(trees[1])
    srule = [r for r in g.by_origin.get("string", [])]
    ok = ok and len(srule) == 1 and srule[0].kept == (("STRING", True),)
    ctx.ob("R3", "GRAM", base, "Tree(option, [string[STRING]])", ok, "block options are built as <alias>[string[STRING]] like the grammar's `string: STRING`" if ok else "set_option tree shape differs from the grammar")
    scb = ctx.repo.func("c2profile.ConfigBlock.set_config_block")
    ok = any(src(c) == "Tree(option, config_block.tree.children)" for c in fn_calls(scb.node))
    ctx.ob("R3", "AGREE", scb, "Tree(option, config_block.tree.children)", ok, "a child block is spliced under the option's name" if ok else "set_config_block does not splice the child's children under the option name")
    # DataTransformBlock
    dt = ctx.repo.func("c2profile.DataTransformBlock.tree")
    dtr = [r for r in g.by_origin.get("data_transform", [])]
    shape_ok = len(dtr) == 1 and dtr[0].kept == (("steps", False), ("termination", False))
    text = " ".join(src(c) for c in fn_calls(dt.node) if dotted(c.func) == "Tree")
    b_ok = "Tree('data_transform', [Tree('steps', self.steps), Tree('termination', self.termination)])" in text
    ctx.ob("R3", "GRAM", dt, "data_transform[steps, termination]", shape_ok and b_ok, f"grammar data_transform keeps {dtr[0].kept if dtr else None}; builder builds it={b_ok}")
    init = ctx.repo.func("c2profile.DataTransformBlock.__init__")
    tr = aliases_of(g, ["transform_statement"])
    te = aliases_of(g, ["termination_statement"])
    from csverif.q import dominating_conditions
    sets = []
    for c in fn_calls(init.node):
        if dotted(c.func) in ("self.add_step", "self.add_termination") and len(c.args) == 2:
            # the innermost membership test that holds where this call is made names the step set it serves
            mem = [(n, pol) for t, pol, n in dominating_conditions(ctx, init, c) if isinstance(n, ast.Compare) and len(n.ops) == 1 and isinstance(n.ops[0], ast.In) and _c(n.comparators[0])]
            pos = [n for n, pol in mem if pol]
            if pos:
                vals = _c(pos[-1].comparators[0])
                sets.append((set(v.replace("-", "_") for v in vals), dotted(c.func).split(".")[-1], 0 if (isinstance(c.args[1], ast.Constant) and c.args[1].value is None) else 1))
    want_step0 = {a for a, ar in tr.items() if 0 in ar}
    want_term0 = {a for a, ar in te.items() if 0 in ar}
    want_term1 = {a for a, ar in te.items() if 1 in ar}
    got_step0 = set().union(*[s for s, fn, ar in sets if fn == "add_step" and ar == 0]) if sets else set()
    got_term0 = set().union(*[s for s, fn, ar in sets if fn == "add_termination" and ar == 0]) if sets else set()
    got_term1 = set().union(*[s for s, fn, ar in sets if fn == "add_termination" and ar == 1]) if sets else set()
    ctx.ob("R3", "GRAM", init, "step/termination name sets", got_step0 == want_step0 and got_term0 == want_term0 and got_term1 == want_term1,
           f"no-arg steps {sorted(got_step0)} vs grammar {sorted(want_step0)}; no-arg terminations {sorted(got_term0)} vs {sorted(want_term0)}; 1-arg terminations {sorted(got_term1)} vs {sorted(want_term1)}")
    want_step1 = {a for a, ar in tr.items() if 1 in ar}
    ctx.ob("R3", "GRAM", "c2profile.lark::transform_statement", "1-arg steps", want_step1 == {"append", "prepend"}, f"grammar 1-arg transform steps {sorted(want_step1)} (everything else with a value falls through to add_step)")
