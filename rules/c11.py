"""C11 - The dictionary view reports exactly what the profile says (structural part).

The rules locate their subjects by role (the collection tested for membership of a block path, the attribute that is
compared with / assigned the cache key, the tree appended to `self.tree.children`, the parameter whose `.tree` is read, the bound
method that is called)
and evaluate them on facts that hold at a program point (`_facts_at`: dominating branch edges with inlined tests,
conditional expressions, short-circuit operands, comprehension filters), so that spelling, temporaries, early returns,
inverted tests, conditional expressions instead of if/else, hoisted constants and extracted helpers do not matter.

Technique
(numbers refer to the ALLOWED list of RULES_GUIDE.md, "What counts as *static* here".  Nothing in this module evaluates
/repo code on data: no sample inputs, no interpreter, no enumeration of values, no regex matching, no parsing of sample
profiles.  The only "evaluation" is `const_eval` of constant expressions / module-level and class-level constant tables.)
  general  `_facts_at`/`_edge_facts`/`_atoms`: branch edges that dominate a statement (2) with their tests rewritten by
           substituting single-definition temporaries (3) and split into atoms by the propositional identities
           not(a and b) = not a or not b, `x not in S` = not(`x in S`), `x != y` = not(`x == y`), `x is not y` =
           not(`x is y`); the tests stay symbolic, nothing is solved.  `_const`: constant folding of constant expressions
           and of module/class constant tables (6).  `_scope`: resolved callees / call graph (1).
           Grammar views (`keyword_paths`, `_tree_alternatives`, 6): the compiled productions are looked through unit
           productions.  Lemma L3: a production that consists of one nonterminal (`x: y`) writes no token of its own, so the
           keyword paths below x are those below y; `?x: y` leaves no node in the parse tree (lark replaces a one-child `?`
           node by the child) and `_x: y` is spliced into its parent, so the trees that stand for x are those of y.
  R1       1 (membership tests, uses of string_token_to_bytes, slices and str-surgery calls found in the syntax tree),
           6 (the collection of list-valued paths is a constant table, folded; compared completely with the keyword paths
           of the compiled grammar and with the reference table csverif.tables.DATA_TRANSFORM_PATHS), 2+3 (the decode call
           and the unquoting slice are judged on the facts that dominate them).  Lemma L1: `s[1:len(s)-1]` == `s[1:-1]` for
           every sequence s (a negative bound counts from the end; for len(s) == 0 the two bounds are literally equal) -
           both spellings are accepted, the `len` argument must be the sliced expression itself.
  R2       1 (stores to self attributes, roles of the hash/cache attributes, who-may-write over the whole module, callers
           of non-baseline helpers), 2 (reachability of a return of the cache from ENTRY avoiding the fresh-comparison
           edges and the stores, dominance of the stores by the walk, membership of a store in a cycle), 3 (returned local
           related to the cache attribute by its definitions; the stored value's constructor found by substituting
           definitions), 6 (the initial value of the hash attribute is a constant).  Lemma L2: `hash(x)` is an `int`, and a
           constant that is not a number (None, a string) compares unequal to every int - so such an initial value can
           never satisfy `self.<hash attr> == hash(self.tree)`.  The key terms (what is stored into the key attribute, what it is
           compared with) are built by substituting definitions (3): single-definition temporaries, assignment expressions
           `(x := E)`, and - by argument binding - the body `return E` of an expression helper the normaliser left as a function.
           `cache key covers the whole tree` judges those terms structurally: hash(self.tree) covers the tree (lemma L6); a term
           in which every mention of the profile goes through a projection of the lark Tree API that provably drops part of
           the tree - scan_values (lemma L5), len(..), id(..), .data / .meta of the root, hash()/id() of the profile object
           itself when its class defines no __hash__/__eq__ (1) - or that does not mention the profile at all is a violation;
           every other term is undecided.  The projections are a fixed vocabulary of the library, each with a one-line reason
           (`_LOSSY_WHY`); no term is evaluated.
  R3       1 (class attributes bound to helpers, resolved callees, argument binding), 3 (the `Tree(..)` term a helper
           appends to self.tree.children is built by substituting definitions and compared structurally with the grammar
           production's kept symbols), 5 (the alternatives of a conditional callee `self.a if t else self.b` /
           `getattr(self, "a" if t else "b")` and the literal name sets the constructor of DataTransformBlock dispatches
           on - all taken from the analysed code), 6 (aliases, arities, kept symbols of the compiled grammar; complete
           comparison of name sets).  The names a builder class binds (`_class_bindings`) are read off the class body, its class
           decorators and module-level statements: `setattr(<class>, N, V)` / `<class>.N = V` with N a constant or the variable
           of a `for` over a constant collection of strings written in the code (at the decoration site, bound to the factory's
           parameters) - the loop body is looked at once, the variable stands for every element (1, 5, 6); anything else that is
           done with the class is opaque and makes "covers grammar alternatives" undecided instead of violated.
  R4       imported: C13.R8 (rules/c13.py `r8`) - its devices are declared in the Technique section of that module.
  R5       imported: C10.R1 (rules/c10.py `r1`) - 6 only (productions of the compiled grammar grouped and compared).
  R6       builder side of string literals.  Own part: 1 (every `Token("STRING", X)` construction of the module, resolved
           callees, callers of non-baseline helpers with argument binding), 3 (the definitions that reach X are followed
           flow-sensitively to their defining expressions; concatenations / f-strings are split into their parts), 6 (the
           token type is a folded constant).  The text X must be made by the literal encoder `value_to_string`; a text
           that is an input of a baseline builder method with at most constants around it (no call in between) is a
           violation, anything else the rule cannot classify is undecided.
           imported: C12.R1 (rules/c12.py `r1`, the encoder obligations) - its devices and lemmas are declared in the
           Technique section of that module.  Why it is a necessary condition of C11: a builder argument v is put into
           the tree as STRING token value_to_string(v); as_dict reports string_token_to_bytes / [1:-1] of that token, and
           "the same profile parsed from text" has the token the grammar reads from the literal that denotes v - so the
           dictionary view reports the bytes given to the builder, and built == parsed, only if the encoder's literal
           decodes to exactly v and is one well-formed double-quoted STRING.
  R7       decoder side of string literals.  imported: C12.R2 and C12.R3 (rules/c12.py `r2`, `r3`) - devices and lemmas are
           declared in the Technique section of that module (one symbolic iteration of the decoding loop, availability
           typestate, interval / known-bits facts for the appended values).  Why it is a necessary condition of C11: the value
           the view reports under a list-valued path is string_token_to_bytes(token) (R1 checks that this is the decoder used),
           so "transform arguments decoded to bytes" holds only if that decoder appends exactly one byte value per character /
           escape (a value above 255 makes bytes(..) raise and as_dict fail as a whole), consumes exactly the escape, and accepts
           every escape the builder's encoder emits.
  R8       block paths are composed, never parsed back.  1 (calls of join / split / rsplit / partition / rpartition / find /
           rfind / index / rindex / re.split in as_dict and the helpers of its scope), 3 (def-use by name, flow-insensitive:
           a name is a composed text if a definition of it is `S.join(parts)`, an f-string / `+` chain with constant pieces and
           at least two non-constant parts, or a copy / slice / conditional alternative / cut-off piece of one; composed
           arguments are followed into helpers of the scope by argument binding), 6 (the separators are folded constants).
           Lemma L4: S.join is not injective on components that may contain S - the components of a block path are tokens of
           the profile and a variant name is an arbitrary STRING token (`http-get "cdn.example.com" {`), so cutting a composed
           path at an occurrence of S can cut inside a component.  Violated only when every definition of the cut name is a
           composed text or a constant and the cut's separator is a constant related to a separator of the composition;
           otherwise undecided.  (Cutting by position - `text[:-len(last) - 1]` - is not affected.)
  R9       attaching a block: the place gets a node of its own, the block given stays as it was.  1 (the parameters whose `.tree`
           is read - located by role in every function of the module; additions to a children list that hangs off self:
           append / extend / insert / `+=` / item store; attribute and item stores, list-mutator calls and setattr), 3 (flow-
           sensitive reaching definitions relate an added value / a written object to `<parameter>.tree`, `.tree.children`,
           `.tree.data`; the block is followed into package callees by argument binding - a may-alias judgement on access
           paths, copies made by a call cut it), 1 (ConfigBlock.__init__ stores `tree` as an attribute, so `<block>.tree` denotes
           one object per block).  Lemma L7: the name of a block node is the name of the place it is attached at; the grammar has
           the same kind of block at several places (client/server, transform-x86/transform-x64) and one block object may be
           given to several places, so a node shared by the places can carry only one of their names.  Violated when the added
           value may be the given block's own root node, or when a write goes into `<block>.tree` / its children list;
           renaming the given node alone is only reported together with the aliasing; an added value whose origin is not a call
           (a fresh construction) and not the given node is undecided.
  R10      every profile / block owns the tree it reports.  1 (every store into an attribute `tree` - `X.tree = V`, setattr - in the
           functions of the module; resolved callees and their decorators; the module's own bindings of a name, wherever they stand;
           class attributes; stores into / lookups in an object that exists once per process), 3 (flow-sensitive reaching
           definitions give the defining expressions of V; a package callee is followed into the expressions it returns; the
           receiver of `.parse` is followed to a lark `Lark(..)` / `Lark.open(..)` construction).  Each defining expression is
           classified, never evaluated: *own* - a `Tree(..)` construction whose children list is not itself shared, the result of
           `<lark parser>.parse(..)` (trusted base: lark builds a new tree per parse), `deepcopy(..)`, a package function that
           returns one of these on every return; *shared* - the result of a function decorated with a memoiser (functools
           lru_cache / cache and the usual names: for equal arguments it hands out the object it made the first time), a
           module-level or class-level object or an element of / a lookup in one, a parsed tree that the same function also puts
           into such an object, a non-constant parameter default (made once, at definition); anything else is not understood.
           Lemma L8: the builder methods change `self.tree.children` in place and the views read `self.tree`, so two profiles that
           hold one tree object (or one children list) report each other's modifications.  Violated when a defining expression is
           shared, undecided when one is not understood, discharged when all are own.
  R11      every step given to the data-transform builder is added.  1 (the `for` loop over a parameter - through `x or []`,
           `list(x)`, enumerate - whose body calls add_step / add_termination, also through a conditional callee, or appends to the
           lists those methods fill), 2 (CFG of the loop body with the branch edges removed that are infeasible under a named
           assumption about the *form* of the step; a least-fixpoint must-analysis: a node "passes the step over" if every successor
           the assumption leaves open does - both edges of a test it does not decide, both edges of an inner loop; edges into
           exception handlers left out), 5 (the forms: a (statement, argument) pair as a `tuple`, as a `list` - the two builtin
           sequence types a pair comes in, the second one is what json / yaml loaders produce and what from_execute_list of the same
           module accepts - and each statement name the loop compares the step with, taken from the code), 6 (the constants the
           tests compare with).  Tests are evaluated three-valued and only by the data model: isinstance / type() against builtin
           types and the collections.abc classes str, tuple and list are registered with; len() == 2 (the literal's length for a
           name); truthiness; `is None`; equality with / membership in constants (a tuple or list equals no string or number); facts
           are applied to the loop variable only where the loop's binding is the one that reaches (after `option, value = option`
           the name holds something else: unknown).  No step, pair or name is ever fed to the code.  Violated when the next step
           is inevitably reached without an add call, undecided when only through tests the form does not decide, or when the loop /
           the calls are not located (several loops, a normalised copy of the steps, match statements).
  R12      a builder method that is given a list of items adds one statement per item, in the order given.  Subjects, by role: every
           `for` loop (and every comprehension handed to extend / `+=`) of a class method of the module whose body adds a statement to a
           block - an addition to self.tree.children, a call of a package method that adds to the block it is called on (resolved callee,
           1), a call of `getattr(self, ..)` - and whose iterable is rooted in a parameter of the method (the pair helpers behind header /
           parameter / strrep, init_kwargs, from_execute_list, from_beacon_gate_option_strings).  3 (the iterable is followed through
           flow-sensitive reaching definitions to its defining expressions and classified, never evaluated: *given* - the parameter
           through wrappers that keep every element and the order: `x or []`, list / tuple / iter / enumerate, `.items()` / `.copy()` of the
           object given, an identity slice, a comprehension without filter; *lossy* - through a projection of the fixed vocabulary
           `_COLLAPSING` (dict, OrderedDict, set, frozenset, sorted, reversed, dict.fromkeys, Counter, groupby ..., one line of reason
           each), a dict / set comprehension, a slice with a negative step or a constant cut, a local dict / set that starts empty and is
           filled inside a loop over the parameter (one level of relay); anything else rooted in a parameter is not understood),
           2 (facts of dominating branch edges / enclosing conditional expressions: `dict(x)` where isinstance(x, <mapping type>) or
           hasattr(x, "items" | "keys") holds and nothing was assigned to x is a copy of a mapping, which has one entry per key to begin
           with - given; CFG of the loop body for "every item passes an addition": the same least-fixpoint must-analysis as R11 without any
           assumption about the item - violated when the next item is reached without an addition whatever the tests say, or when the edge
           that passes the item over is chosen by a test that reads loop-carried state (a name defined before the loop and assigned /
           changed in place inside it: a `seen` set, a counter), undecided when only through other tests; paths that raise are loud and
           do not count, edges into exception handlers are left out), 6 (slice bounds and insert positions are folded constants).
           Lemma L9: the grammar lets a statement be repeated in a block (two `header "Set-Cookie" ..` lines, a parameter twice, two
           strrep rules for one string), the parser keeps one node per statement in source order and as_dict lists them in that order - so
           the built profile equals the parsed one only if the helper emits one statement per item given, in the order given.
           `insert(<constant>, ..)` into self.tree.children is a violation (statements come out in another order than the calls).

R13  (F27) as_dict reads `.type` on Token items only: for the statement productions of the grammar with two or more keyword literals
     besides `set` (pinned: comment_dns_resolver, `"#" "dns_resolver" string ";"` - keyword literals are plain str in the
     Reconstructor's item stream) every `.type` read on a loop variable over the line is dominated by isinstance(<it>, Token), or
     the lines of those productions are taken out by a test of the first line item against the production's first keyword whose
     branch ends in `continue` and dominates the read; a test of another shape is undecided.  Technique: grammar query, syntax-tree
     query for the reads, facts of dominating branch edges, CFG dominance.
"""

from __future__ import annotations

import ast
import copy

from csverif import tables
from csverif.astutil import assignments_to, bind_args, body_walk, const_eval, dotted, fn_calls, module_env, names_in, NotConst, param_defaults, params, src, statements, strip_cast
from csverif.cfg import ENTRY, EXIT
from csverif.grammar import Grammar
from csverif.q import FuncView, inline, reaching_origins
from csverif.q import reaching_defs as q_reaching_defs

# list_props entries that are dead by construction (one line of reason each)
DEAD_LIST_PROPS = {"stage.transform-x86.header": "stage_transform has no nested block, the path can never be a block stack"}

# builder class -> grammar rule(s) whose alternatives may appear among its children
# (reason: class docstrings and attach sites; the classes' own __name__ is irrelevant because set_config_block splices
# only the children)
BUILDER_RULES = {
    "HttpOptionsBlock": ["http_options", "http_get_client_options"],
    "HttpConfigBlock": ["http_config_options"],
    "HttpStagerBlock": ["http_stager_options"],
    "HttpGetBlock": ["http_get_options"],
    "HttpPostBlock": ["http_post_options"],
    "StageBlock": ["stage_options"],
    "StageTransformBlock": ["stage_transform"],
    "ProcessInjectBlock": ["process_inject_options"],
    "PostExBlock": ["postex_options"],
    "DnsBeaconBlock": ["dns_beacon_options"],
    "HttpBeaconBlock": ["http_beacon_options"],
    "ExecuteOptionsBlock": ["execute_options"],
    "BeaconGateBlock": ["beacon_gate_options"],
}
# fallback only (used when the tree a helper appends cannot be read off its body): helper name -> strings / fixed name
HELPER_ARITY = {"_enable": 0, "set_option": 1, "_pair": 2, "_header": 2, "_parameter": 2}
HELPER_FIXED_NAME = {"_header": "header", "_parameter": "parameter"}

MOD = "c2profile"
TREE = "self.tree"  # the public attribute that holds the profile's parse tree


def _c(node):
    try:
        return const_eval(node) if node is not None else None
    except (NotConst, TypeError):
        return None


def _unit_target(r):
    """The nonterminal a unit production `x: y` stands for (exactly one symbol, a nonterminal, no alias), else None."""
    if r.alias is None and len(r.expansion) == 1 and not r.expansion[0].is_term:
        return r.expansion[0].name
    return None


def _tree_alternatives(g: Grammar, origin, _seen=()):
    """The productions whose trees can stand where `origin` is expected: its own alternatives, with unit productions that
    leave no node of their own in the parse tree (`?x: y` - lark replaces a one-child `?` node by the child; `_x: y` - lark
    splices the children of an underscore rule into the parent) replaced by the alternatives of their target."""
    out = []
    for r in g.alternatives(origin):
        t = _unit_target(r)
        if t is not None and (r.expand1 or origin.startswith("_")) and t not in _seen and t != origin:
            out.extend(_tree_alternatives(g, t, tuple(_seen) + (origin,)))
        else:
            out.append(r)
    return out


def aliases_of(g: Grammar, origins):
    """alias -> set of string arities, over the alternatives of the given origins."""
    out = {}
    for o in origins:
        for r in _tree_alternatives(g, o):
            if r.alias and not g.is_block(r):
                out.setdefault(r.alias, set()).add(g.string_arity(r))
    return out


def block_aliases_of(g: Grammar, origins):
    out = {}
    for o in origins:
        for r in _tree_alternatives(g, o):
            if r.alias and g.is_block(r):
                out.setdefault(r.alias, set()).update(g.body_origins(r))
    return out


def _stream_origins(g: Grammar, origins, _depth=0):
    """The origins whose productions write the tokens where one of `origins` is expected: a production that consists of
    nonterminals only (a unit production `x: y`, with or without `?`) writes no token of its own, so the origin stands for the
    nonterminals it names.  An origin with at least one production that writes a token (keyword, block, terminal) is kept."""
    out = set()
    for o in origins:
        rules = [r for r in g.by_origin.get(o, [])]
        units = [r for r in rules if _unit_target(r) is not None]
        if rules and len(units) == len(rules) and _depth < 6:
            out |= _stream_origins(g, {t for r in units for t in g.expand_star(_unit_target(r))}, _depth + 1)
        else:
            out.add(o)
    return out


def keyword_paths(g: Grammar, start: str = "start"):
    """All block paths 'kw1.kw2...' (the stack of enclosing block keywords the token stream goes through) -> origins of the
    block body.  Like Grammar.keyword_paths, but a body that is named through unit productions (`?a_options: b_options`, two
    equal rules merged) is looked through: such a production adds no token, so the paths are those of its target."""
    out = {}

    def walk(origins, prefix, depth):
        if depth > 6:
            return
        for o in sorted(_stream_origins(g, origins)):
            for r in g.by_origin.get(o, []):
                if r.origin.startswith("__") or not g.is_block(r):
                    continue
                kw = list(r.keywords)
                if not kw:
                    continue
                path = prefix + [kw[0]]
                body = _stream_origins(g, g.body_origins(r) - {"variant", "string"})
                out.setdefault(".".join(path), set()).update(body)
                walk(body, path, depth + 1)

    roots = set()
    for r in g.by_origin.get(start, []):
        roots |= g.body_origins(r)
    walk(roots, [], 0)
    return out


# ---------------------------------------------------------------------------------------------- general helpers
# (private; candidates for hoisting into csverif.q)
_POS_OP = {ast.NotIn: ast.In, ast.NotEq: ast.Eq, ast.IsNot: ast.Is}


def _inl(f, e, stop=frozenset()):
    """`e` with every single-definition temporary of function f substituted (casts stripped)."""
    return strip_cast(inline(f.node, e, stop=frozenset(stop)))


def _atoms(test, pol, out):
    """Decompose `test having truth value pol` into atomic facts (expr, polarity): negations pushed inwards, `and` under
    True / `or` under False split, negative comparison operators (`not in`, `!=`, `is not`) turned into the positive
    operator with the opposite polarity."""
    while isinstance(test, ast.UnaryOp) and isinstance(test.op, ast.Not):
        test, pol = test.operand, not pol
    if isinstance(test, ast.BoolOp) and isinstance(test.op, ast.And) == pol:
        for v in test.values:
            _atoms(v, pol, out)
        return
    if isinstance(test, ast.Compare) and len(test.ops) == 1 and type(test.ops[0]) in _POS_OP:
        test = ast.copy_location(ast.Compare(left=test.left, ops=[_POS_OP[type(test.ops[0])]()], comparators=test.comparators), test)
        pol = not pol
    out.append((test, pol))


def _edge_facts(ctx, f, st, label):
    out = []
    _atoms(_inl(f, st.test), label == "true", out)
    return out


def _facts_at(ctx, f, node):
    """Atomic facts (expr, polarity) known to hold whenever `node` is evaluated: tests of the if/while edges that
    dominate its statement (temporaries inlined), tests of enclosing conditional expressions, earlier operands of
    enclosing `and`/`or`, filters of enclosing comprehensions.  Outer facts come first, the innermost last."""
    cfg = ctx.cfg(f)
    fv = FuncView.of(f.node)
    out = []
    st = fv.stmt_of(node)
    if st is not None and cfg.has(st):
        target = cfg.node(st)
        for n, s in cfg.stmt.items():
            if isinstance(s, (ast.If, ast.While)):
                for label in ("true", "false"):
                    e = cfg.edge_node(s, label)
                    if e != target and e in cfg.g and cfg.dominates(e, target):
                        out.extend(_edge_facts(ctx, f, s, label))
    chain = [node]
    while chain[-1] is not st and id(chain[-1]) in fv.parent:
        chain.append(fv.parent[id(chain[-1])])
    inner = []
    for child, par in zip(chain, chain[1:]):
        here = []
        if isinstance(par, ast.IfExp) and child is not par.test:
            _atoms(_inl(f, par.test), child is par.body, here)
        elif isinstance(par, ast.BoolOp) and child in par.values:
            for v in par.values[: par.values.index(child)]:
                _atoms(_inl(f, v), isinstance(par.op, ast.And), here)
        elif isinstance(par, (ast.ListComp, ast.SetComp, ast.GeneratorExp, ast.DictComp)) and not isinstance(child, ast.comprehension):
            for gen in par.generators:
                for cond in gen.ifs:
                    _atoms(_inl(f, cond), True, here)
        inner = here + inner
    return out + inner


def _const(ctx, f, e):
    """Constant value of expression e of function f: temporaries inlined, module-level constants and class attributes
    (`self.X`, `cls.X`, `Class.X`) looked up; None if it is not a constant."""
    mod = f.module
    e = _inl(f, e)

    class _Attrs(ast.NodeTransformer):
        def visit_Attribute(self, node):
            d = dotted(node)
            if d and d.count(".") == 1:
                head, attr = d.split(".")
                cname = f.cls if head in ("self", "cls") else head if head in mod.classes else None
                if cname:
                    try:
                        v = ctx.repo.class_attrs(f"{mod.name}.{cname}").get(attr)
                    except Exception:
                        v = None
                    if v is not None:
                        return copy.deepcopy(v)
            return self.generic_visit(node)

    e = _Attrs().visit(copy.deepcopy(e))
    try:
        return const_eval(e, module_env(mod))
    except (NotConst, TypeError, KeyError, RecursionError):
        return None


def _baseline_funcs(modname):
    """Qualified names of the functions of the baseline vocabulary (everything else is a helper somebody introduced)."""
    from csverif.normalise import baseline

    return set((baseline().get(modname) or {}).get("functions", []))


def _scope(ctx, f):
    """f and the helpers it calls that are not part of the baseline vocabulary and were left as functions (helpers the
    normaliser could not inline, local closures)."""
    base = _baseline_funcs(f.module.name)
    out, work = [f], [f]
    while work:
        g = work.pop()
        for c in fn_calls(g.node):
            cal = ctx.rs.resolve_call(g, c)
            h = cal.func if cal.kind == "func" else None
            if h is not None and h.module.name == f.module.name and h.qualname not in base and h not in out:
                out.append(h)
                work.append(h)
    return out


def _eq_sides(atom):
    if isinstance(atom, ast.Compare) and len(atom.ops) == 1 and isinstance(atom.ops[0], ast.Eq):
        return atom.left, atom.comparators[0]
    return None


def _self_stores(fn):
    """(statement, attribute, value) for every `self.<attribute> = value` (also as one of several targets or as an
    element of a tuple assignment; value None when it cannot be paired)."""
    out = []
    for s in statements(fn):
        if isinstance(s, ast.Assign):
            pairs = []
            for t in s.targets:
                if isinstance(t, (ast.Tuple, ast.List)):
                    if isinstance(s.value, (ast.Tuple, ast.List)) and len(s.value.elts) == len(t.elts):
                        pairs.extend(zip(t.elts, s.value.elts))
                    else:
                        pairs.extend((te, None) for te in t.elts)
                else:
                    pairs.append((t, s.value))
        elif isinstance(s, ast.AnnAssign) and s.value is not None:
            pairs = [(s.target, s.value)]
        elif isinstance(s, ast.AugAssign):
            pairs = [(s.target, None)]
        else:
            continue
        for t, v in pairs:
            d = dotted(t) or ""
            if isinstance(t, ast.Attribute) and d.startswith("self.") and d.count(".") == 1:
                out.append((s, t.attr, v))
    return out


def _is_call(e, *names):
    return isinstance(e, ast.Call) and (dotted(e.func) or "").split(".")[-1] in names


def _is_tree_hash(e):
    return _is_call(e, "hash") and len(e.args) == 1 and not e.keywords and dotted(e.args[0]) == TREE


def _expand(ctx, f, e, depth=0):
    """`e` with the single-definition temporaries of f substituted and every call of an *expression helper* of the package
    (a function outside the baseline vocabulary whose body is `return E`, possibly after single-definition temporaries, that
    the normaliser left as a function - e.g. because E contains a lambda) replaced by E with the arguments bound to the
    parameters.  An assignment expression `(x := E)` stands for E, and so does a local whose only definition it is.  The term is
    only built, never evaluated."""

    class _Walrus(ast.NodeTransformer):
        def visit_NamedExpr(self, node):
            return self.visit(node.value)

        def visit_Name(self, node):
            if isinstance(node.ctx, ast.Load) and node.id not in params(f.node):
                defs = assignments_to(f.node, node.id)
                if len(defs) == 1 and isinstance(defs[0][0], ast.NamedExpr) and not any(isinstance(x, ast.Name) and x.id == node.id for x in ast.walk(defs[0][1])):
                    return self.visit(copy.deepcopy(defs[0][1]))
            return node

        def visit_Lambda(self, node):
            return node

    e = _inl(f, _Walrus().visit(copy.deepcopy(_inl(f, e))))
    if depth > 3:
        return e
    base = _baseline_funcs(f.module.name)

    class _Calls(ast.NodeTransformer):
        def visit_Lambda(self, node):
            return node

        def visit_Call(self, node):
            node = self.generic_visit(node)
            try:
                cal = ctx.rs.resolve_call(f, node)
            except Exception:
                return node
            h = cal.func if cal.kind == "func" else None
            if h is None or h.module.name != f.module.name or h.qualname in base or h.fq == f.fq:
                return node
            sts = list(statements(h.node))
            rets = [s for s in sts if isinstance(s, ast.Return)]
            if len(rets) != 1 or rets[0].value is None or rets[0] is not h.node.body[-1]:
                return node
            if not all(s is rets[0] or (isinstance(s, ast.Assign) and len(s.targets) == 1 and isinstance(s.targets[0], ast.Name)) or isinstance(s, ast.AnnAssign) for s in sts):
                return node
            method = bool(h.cls) and isinstance(node.func, ast.Attribute) and bool(params(h.node))
            env = dict(bind_args(node, h.node, skip_self=method))
            if method:
                env[params(h.node)[0]] = node.func.value
            if any(v is None for v in env.values()) or set(params(h.node)) - set(env):
                return node
            body = _expand(ctx, h, rets[0].value, depth + 1)

            class _Bind(ast.NodeTransformer):
                def visit_Name(self, n):
                    return copy.deepcopy(env[n.id]) if isinstance(n.ctx, ast.Load) and n.id in env else n

                def visit_Lambda(self, n):
                    shadow = {a.arg for a in n.args.posonlyargs + n.args.args + n.args.kwonlyargs}
                    return n if shadow & set(env) else self.generic_visit(n)

            return ast.copy_location(_Bind().visit(copy.deepcopy(body)), node)

    return _Calls().visit(copy.deepcopy(e))


def _defines(ctx, cname, meth, _seen=()):
    """Does class `cname` of c2profile.py (or a base class written in that module) define method `meth`?"""
    if not cname or cname in _seen or cname not in ctx.repo.module(MOD).classes:
        return False
    if ctx.repo.has_func(f"{MOD}.{cname}.{meth}") or meth in ctx.repo.class_attrs(f"{MOD}.{cname}"):
        return True
    node = ctx.repo.cls(f"{MOD}.{cname}")
    return any(_defines(ctx, dotted(b) or "", meth, tuple(_seen) + (cname,)) for b in node.bases)


# what a cache key says about the tree it is made from (R2)
_LOSSY_WHY = {
    "scan_values": "Tree.scan_values yields only the leaves (tokens) that satisfy the predicate - never a Tree node nor its name (lemma L5), so statements "
                   "without an argument (base64; mask; print; CreateThread; BeaconGate entries ...) and the block structure do not enter the key",
    "len": "a number of elements: two trees of the same size have the same key",
    "id": "the identity of the object: a modification in place (children appended, a node renamed) keeps it",
    "data": "only the name of the root node",
    "meta": "position information, not the content",
    "self": "the profile object has no __hash__/__eq__ of its own: hash()/id() of it is its identity, which modifications of the tree keep",
}


def _key_class(ctx, f, k):
    """What the key term k (already expanded) covers of `self.tree`: ("whole", None) for hash(self.tree) (lark hashes (data, children)
    recursively), ("lossy", [reasons]) when every way the term depends on the profile goes through a projection that provably drops
    part of the tree, ("foreign", [reason]) when the term does not mention the profile at all, else None (not understood)."""
    if _is_tree_hash(k):
        return ("whole", None)
    parent = {}
    for n in ast.walk(k):
        for c in ast.iter_child_nodes(n):
            parent[id(c)] = n
    selfs = [n for n in ast.walk(k) if isinstance(n, ast.Name) and n.id == "self"]
    if not selfs:
        if any(isinstance(n, ast.Name) and n.id not in ("hash", "tuple", "len", "id", "str", "repr", "frozenset") for n in ast.walk(k)):
            return None  # some other name (a parameter, a module-level object): not understood
        return ("foreign", ["the term does not mention the profile"])
    why = []
    for s in selfs:
        p = parent.get(id(s))
        if isinstance(p, ast.Attribute) and p.attr == "tree":
            q = parent.get(id(p))
            if isinstance(q, ast.Attribute) and q.value is p:
                qq = parent.get(id(q))
                if q.attr == "scan_values" and isinstance(qq, ast.Call) and qq.func is q:
                    why.append("scan_values")
                elif q.attr in ("data", "meta"):
                    why.append(q.attr)
                elif q.attr == "children" and _is_call(qq, "len") and isinstance(qq.func, ast.Name) and qq.args == [q]:
                    why.append("len")
                else:
                    return None
            elif isinstance(q, ast.Call) and isinstance(q.func, ast.Name) and q.func.id in ("len", "id") and q.args == [p] and not q.keywords:
                why.append(q.func.id)
            else:
                return None
        elif isinstance(p, ast.Call) and isinstance(p.func, ast.Name) and p.func.id in ("hash", "id") and p.args == [s] and not p.keywords:
            if f.cls is None or _defines(ctx, f.cls, "__hash__") or _defines(ctx, f.cls, "__eq__"):
                return None
            why.append("self")
        else:
            return None
    return ("lossy", sorted(set(why)))


# ---------------------------------------------------------------------------------------------- trees built in code
def _tree_parts(f, e):
    """(data expression, children expression) of a `Tree(data, children)` construction (positional or keyword)."""
    e = _inl(f, e)
    if not _is_call(e, "Tree"):
        return None
    a = list(e.args)
    kw = {k.arg: k.value for k in e.keywords if k.arg}
    data = a[0] if a else kw.get("data")
    kids = a[1] if len(a) > 1 else kw.get("children")
    if data is None or kids is None:
        return None
    return _inl(f, data), _inl(f, kids)


def _kids(f, kids):
    """The child expressions of a literal children list, else None."""
    kids = _inl(f, kids)
    if isinstance(kids, (ast.List, ast.Tuple)) and not any(isinstance(x, ast.Starred) for x in kids.elts):
        return [_inl(f, k) for k in kids.elts]
    return None


def _sym(f, e):
    """A child as the grammar sees it: (name, is_terminal), name None if not a literal."""
    e = _inl(f, e)
    if _is_call(e, "Token"):
        a = e.args[0] if e.args else {k.arg: k.value for k in e.keywords}.get("type")
        return (_c(_inl(f, a)) if a is not None else None, True)
    tp = _tree_parts(f, e)
    if tp is not None:
        return (_c(tp[0]), False)
    return (None, None)


def _is_string_tree(f, e):
    """Tree("string", [Token("STRING", ..)]) - the grammar's `string: STRING`."""
    tp = _tree_parts(f, e)
    if tp is None or _c(tp[0]) != "string":
        return False
    ks = _kids(f, tp[1])
    return ks is not None and len(ks) == 1 and _sym(f, ks[0]) == ("STRING", True)


def _appended(f, receiver_ok):
    """Expressions added to a list `R` with receiver_ok(dotted R): R.append(x), R.extend([x..]), R += [x..]."""
    out = []
    for c in fn_calls(f.node):
        if isinstance(c.func, ast.Attribute) and c.func.attr in ("append", "extend") and len(c.args) == 1 and receiver_ok(dotted(_inl(f, c.func.value))):
            if c.func.attr == "append":
                out.append((c, dotted(_inl(f, c.func.value)), c.args[0]))
            else:
                ks = _kids(f, c.args[0])
                out.extend((c, dotted(_inl(f, c.func.value)), k) for k in ks or [])
    for s in statements(f.node):
        if isinstance(s, ast.AugAssign) and isinstance(s.op, ast.Add) and receiver_ok(dotted(_inl(f, s.target))):
            ks = _kids(f, s.value)
            out.extend((s, dotted(_inl(f, s.target)), k) for k in ks or [])
    return out


def _helper_shape(ctx, f, depth=0):
    """What a builder helper `h(self, option, value)` adds to self.tree.children: (fixed tree name or None when the
    tree is named by the option parameter, number of children, every child is string[STRING]).  None if it cannot be
    read off."""
    ps = params(f.node)
    if len(ps) < 3:
        return None
    app = _appended(f, lambda d: d == TREE + ".children")
    if len(app) == 1:
        tp = _tree_parts(f, app[0][2])
        if tp is None:
            return None
        ks = _kids(f, tp[1])
        if ks is None:
            return None
        strings = all(_is_string_tree(f, k) for k in ks)
        if isinstance(tp[0], ast.Name) and tp[0].id == ps[1]:
            return (None, len(ks), strings)
        if isinstance(_c(tp[0]), str):
            return (_c(tp[0]), len(ks), strings)
        return None
    if app or depth > 2:
        return None
    # delegation: `self.other(<name>, value)`
    dele = []
    for c in fn_calls(f.node):
        cal = ctx.rs.resolve_call(f, c)
        if cal.kind == "func" and cal.func is not None and cal.func.cls and (dotted(c.func) or "").startswith("self.") and len(params(cal.func.node)) >= 3:
            dele.append((c, cal.func))
    if len(dele) != 1:
        return None
    c, h = dele[0]
    sh = _helper_shape(ctx, h, depth + 1)
    if sh is None:
        return None
    if sh[0] is not None:
        return sh
    a = bind_args(c, h.node, skip_self=True).get(params(h.node)[1])
    a = _inl(f, a) if a is not None else None
    if isinstance(a, ast.Name) and a.id == ps[1]:
        return (None, sh[1], sh[2])
    if isinstance(_c(a), str):
        return (_c(a), sh[1], sh[2])
    return None


# ============================================================================================================ run
def run(ctx):
    rep = ctx.rep
    rep.explanation = (
        "Static analysis of c2profile.py against the compiled grammar: every entry of the collection of list-valued block paths "
        "(the constant collection a block path is tested against in as_dict) is a keyword path of the grammar ending in a "
        "list-valued block and the reference data-transform paths are covered; values under those paths are decoded with "
        "string_token_to_bytes and STRING tokens are unquoted with [1:-1] where they are recognised; cache coherence of "
        "as_dict on the CFG (every path to a return of the cached dictionary passes a fresh hash comparison or both stores; "
        "hash and cache stored together after the walk); every builder attribute bound to a ConfigBlock helper names a grammar "
        "alias of the arity the helper's tree has; tree shapes built by set_option / DataTransformBlock equal the grammar's kept symbols; "
        "imported: a builder-made step carries its argument iff one was given (C13.R8) and every tree name/kept-symbol group of the grammar "
        "stands for one keyword sequence (C10.R1); the text of every STRING token built in code is made by the literal encoder value_to_string "
        "(definitions followed flow-sensitively) and that encoder is lossless and well-formed (imported C12.R1: repr-based escaper pinned to the "
        "single-quote style with matching slice constants, double quotes escaped on every path, the literal is the escaped text between two "
        "double quotes) - otherwise the dictionary view of a built profile does not report the value given to the builder and the built tree "
        "differs from the parsed one; the decoder the list-valued entries go through appends exactly one byte value per character / escape, consumes "
        "exactly the escape and accepts what the encoder emits (imported C12.R2/R3) - otherwise `decoded to bytes` fails (or as_dict raises); "
        "a block path text made by joining its components is never searched for the separator to take components off again (a variant name "
        "is an arbitrary STRING and may contain the separator, so the path state must stay a sequence); the cache key of as_dict - the term stored into / compared with the key "
        "attribute, with temporaries, assignment expressions and expression helpers substituted - covers the whole tree (hash(self.tree); a key made of the leaves only, a count, an "
        "identity or the root's name does not see some modification and the stale view stays); a builder method that is given a block adds a node of its own to the parent (not the "
        "block's root node, which would be one object at every place the block is attached to and can carry only one place name) and writes nothing into the given block's tree; the object stored as the tree of a profile / block is made for it (a parse result, a Tree(..) with a children list of its own, a deep copy) - not the result of a memoised function, an entry of a module-level cache or another object that exists once per process, because the builder methods append in place and every holder of that object would report the modification; every step given to the data-transform builder - a statement name, a (statement, argument) pair as a tuple or as a list - passes a call of add_step / add_termination on every path of the constructor's loop that the form of the step leaves open (a step passed over is missing from tree, text and view, while the same profile written as text has it); a builder method that is given a list of items - (name, value) pairs for header / parameter / strrep, keyword arguments, execute / BeaconGate option names - adds its statements in a loop that runs over the items as given (the parameter itself through element- and order-preserving wrappers, not dict(..) / set(..) / sorted(..) / reversed(..) / a dict comprehension / a cutting slice / a dictionary filled per name, which keep one item per name or reorder them) and in which every item passes an addition to the block (no item left out because of the items before it) - a profile may repeat a header, parameter or strrep name, the parsed profile has one statement per line in source order, and the built one must be indistinguishable from it.  Devices: syntax-tree queries, resolved callees and who-may-write checks, CFG dominance "
        "and reachability, facts of dominating branch edges with substituted temporaries (kept symbolic), structural comparison of the "
        "Tree(..) terms built in code with grammar productions, case analysis over the literals the code dispatches on, constant folding "
        "of constant tables.  No code of the package is executed or interpreted on data."
    )
    rep.not_decided = ["exactness and order of reported values for all profiles", "the token-stream stack machine's behaviour on variants",
                       "a cache key that is neither hash(self.tree) nor made through one of the projections the rule knows to be lossy (a digest of the rendered text, "
                       "a generator over iter_subtrees, a modification counter) is undecided; hash collisions of a complete key are not considered",
                       "R9 judges the builder methods that are given a block (a parameter whose .tree is read); sharing of the children *list* between block and parent "
                       "(so that later additions to an attached block show in the profile) is the package's design and is not judged; a node added to the parent that is neither a call result nor the given block's root node is undecided",
                       "as_dict hands out its cache by reference (observation, not armed: the property speaks of modifications of the profile)",
                       "forms the rules cannot locate are reported as undecided: a list-valued path collection that is not a constant table, a cache "
                       "that is not a hash-keyed pair of self attributes, builder helpers whose appended Tree(..) term cannot be read off, "
                       "STRING token texts that are neither a call of value_to_string nor an unencoded input (another encoder, a comprehension variable)",
                       "the stack discipline of the walk beyond R8 (that `}` removes exactly what `{` added) is not decided",
                       "R8 is flow-insensitive by name: a cut of a name that also holds values that are not composed texts, or a cut at a separator that is not a constant, is undecided",
                       "R10 judges where the stored tree object comes from, not what happens to it later (a tree handed to a second profile after the store, a caller that keeps a reference); a tree that comes in through a parameter, a shallow copy, "
                       "or a call the rule cannot resolve is undecided; memoisers are recognised by the decorator names in _MEMO and by lookups in module-/class-level containers only",
                       "R11 decides the two pair forms (exact builtin tuple / list of length two) and the statement names the loop compares with; other sequence types, pairs of another length, and whether the right one of add_step / add_termination is called "
                       "(R3 does the name sets) are not judged; a step list that is copied / normalised before the loop, several loops, or a match statement are undecided",
                       "R12 judges multiplicity and order of the statements a list-taking builder method adds (the iterable of the adding loop, passing over of items, insertion at a fixed position), not that the statement is built from the item of the iteration (R3 / R6 judge the tree shape and the token texts); "
                       "an iterable derived from the parameter through a call the rule does not know, a filtered comprehension, a list relayed through a local list, and items passed over through tests that do not read loop-carried state are undecided; loops over attributes of an object given (from_beacon_config over the settings) and while-loops are not subjects",
                       "builder classes that bind names by means R3 cannot read (metaclass, opaque decorator, dynamic class body): coverage of the grammar alternatives is undecided there"]
    rep.trusted_base = ["lark grammar loader", "CPython ast", "reference data-transform path list in csverif/tables.py",
                        "BUILDER_RULES (builder class -> grammar rules) and DEAD_LIST_PROPS tables in rules/c11.py; HELPER_ARITY fallback for helpers whose tree cannot be read off",
                        "lemma L1: s[1:len(s)-1] == s[1:-1] for every sequence s (a negative bound counts from the end)",
                        "lemma L2: hash(x) is an int and a non-numeric constant (None, str) is unequal to every int",
                        "R4/R5 are decided by rules/c13.py r8 and rules/c10.py r1 (their trusted base applies)",
                        "R6: the encoder obligations are decided by rules/c12.py r1 (its trusted base applies, in particular its lemmas L1/L2 about "
                        "CPython's repr(bytes)); `value_to_string` is the literal encoder of the package (located by its qualified name)",
                        "R7: decided by rules/c12.py r2 and r3 (their trusted base applies: reference escape table csverif.tables.ESCAPES, the lemmas of that module)",
                        "lemma L3: a production consisting of one nonterminal writes no token; `?x: y` / `_x: y` leave no node of their own in the parse tree (lark)",
                        "lemma L4: S.join(parts) does not determine parts when a part may contain S; variant names are arbitrary STRING tokens",
                        "lemma L5 (lark): Tree.scan_values(pred) yields only non-Tree children that satisfy pred, never a Tree node or its name; statements without an argument are Tree nodes without a token child",
                        "lemma L6 (lark): Tree.__hash__ is hash((data, tuple(children))) and Tree.__eq__ compares data and children, recursively - hash(self.tree) depends on every node name and every token, in order",
                        "lemma L7: a block node carries the name of the place it is attached at; the grammar has the same kind of block at several places and a builder call sequence may give one block object to several places",
                        "lemma L8: the builder methods append to self.tree.children in place and as_dict / as_text read self.tree, so profiles that hold one Tree object (or one children list) report each other's modifications",
                        "R10: Lark.parse builds a new Tree per call; functools.lru_cache / functools.cache (and decorators of the names in _MEMO) return the object made for the first call with equal arguments; a parameter default is evaluated once",
                        "R11: a (statement, argument) step is a two-element tuple or list (exact builtin types); isinstance / len / == on those and on str behave as the CPython data model says (str, tuple, list are collections.abc Sequences; a tuple or list equals no string); "
                        "a statement is assumed to be able to continue normally (edges into exception handlers are not used as evidence)",
                        "lemma L9 / R12: the grammar allows a statement to be repeated within a block and the parser keeps one node per statement in source order; dict / set / sorted / reversed / dict.fromkeys / Counter / groupby and slices behave as the CPython documentation says (the `_COLLAPSING` table); "
                        "list / tuple / iter / enumerate / .items() / .copy() keep every element and the order; **kwargs keeps the order of the call (PEP 468); a mapping has one entry per key",
                        "len(x) / id(x) / hash() of an object whose class defines no __hash__ do not change when the object is modified in place (CPython data model)"]
    g = Grammar(ctx.repo)
    r1(ctx, g)
    r2(ctx)
    r3(ctx, g)
    # builder == parser: a builder-made step carries its argument iff one was given (C13.R8), and every alias of the
    # grammar stands for one keyword (C10.R1) - otherwise a parsed option is reported under another option's name
    from rules import c10, c12, c13

    ctx.import_obligations("R4", c13.r8)
    ctx.import_obligations("R5", c10.r1, g)
    # builder == parser, and the view reports what was given to the builder: the STRING tokens of a built tree are made by
    # the literal encoder (own part of R6) and the encoder's literal denotes exactly the given value (C12.R1)
    r6(ctx)
    ctx.import_obligations("R6", c12.r1)
    # the view reports list-valued arguments *decoded to bytes*: the value under a list-valued path is string_token_to_bytes(token)
    # (R1 checks that this is the decoder used), so the decoder's own obligations are obligations of the view (C12.R2), and a
    # value given to the builder comes back only if the decoder accepts everything the encoder emits (C12.R3)
    ctx.import_obligations("R7", c12.r2)
    ctx.import_obligations("R7", c12.r3)
    r8(ctx)
    r9(ctx)
    r10(ctx)
    r11(ctx)
    r12(ctx)
    r13(ctx, g)


# ============================================================================================================= R1
def _path_collection(v):
    """A constant collection of block paths ('a.b' strings)?  -> list of paths."""
    if isinstance(v, dict):
        v = list(v)
    if isinstance(v, (list, tuple, set, frozenset)) and v and all(isinstance(x, str) and "." in x for x in v):
        return list(v) if isinstance(v, (list, tuple)) else sorted(v)
    return None


def _membership(ctx, f, atom):
    """`x in <constant collection of block paths>` -> the paths, else None."""
    if isinstance(atom, ast.Compare) and len(atom.ops) == 1 and isinstance(atom.ops[0], ast.In):
        return _path_collection(_const(ctx, f, atom.comparators[0]))
    return None


def r1(ctx, g):
    f = ctx.repo.func(f"{MOD}.C2Profile.as_dict")
    scope = _scope(ctx, f)
    # the collection of list-valued block paths: the constant collection of 'a.b' strings a value is tested against with
    # `in` / `not in` (a local list, a hoisted module/class constant, a tuple, a frozenset ...)
    props = []
    for h in scope:
        for n in body_walk(h.node):
            if isinstance(n, ast.Compare) and len(n.ops) == 1 and isinstance(n.ops[0], (ast.In, ast.NotIn)):
                got = _path_collection(_const(ctx, h, n.comparators[0]))
                for p in got or []:
                    if p not in props:
                        props.append(p)
    if not props:
        ctx.undecided("R1", "TABLE", f, "list_props", "no membership test of a block path against a constant collection of paths located in as_dict")
        return
    paths = keyword_paths(g)
    list_bodies = {"data_transform", "execute_options", "stage_transform"}
    for p in props:
        if p in DEAD_LIST_PROPS:
            ctx.ob("R1", "TABLE", f, f"list_props {p}", True, "frozen dead entry: " + DEAD_LIST_PROPS[p], nontrivial=False)
            continue
        body = paths.get(p)
        ok = body is not None and bool(body) and body <= list_bodies
        ctx.ob("R1", "GRAM", f, f"list_props {p}", ok, f"{p!r} is a block path of the grammar={body is not None}; its body is {sorted(body or [])} (must be a list-valued block: {sorted(list_bodies)})")
    need = set(tables.DATA_TRANSFORM_PATHS) | {"process-inject.execute"}
    missing = sorted(need - set(props))
    ctx.ob("R1", "TABLE", f, "list_props covers reference", not missing, f"reference list-valued paths missing from list_props: {missing}")
    for p in sorted(need):
        ctx.ob("R1", "GRAM", "c2profile.lark", f"path {p}", p in paths, f"reference path {p!r} exists in the grammar={p in paths}", nontrivial=False)
    # values under those keys are decoded to bytes: every use of string_token_to_bytes (called, or handed to map()) happens
    # where `path in list_props` is known to hold
    refs = []
    for h in scope:
        for n in body_walk(h.node):
            if (isinstance(n, ast.Name) and n.id == "string_token_to_bytes") or (isinstance(n, ast.Attribute) and n.attr == "string_token_to_bytes"):
                refs.append((h, n))
    bad = [src(FuncView.of(h.node).stmt_of(n))[:60] for h, n in refs if not any(pol and _membership(ctx, h, a) for a, pol in _facts_at(ctx, h, n))]
    ok = bool(refs) and not bad
    ctx.ob("R1", "AGREE", f, "string_token_to_bytes under `key in list_props`", ok, "list-valued entries are decoded to bytes" if ok else
           ("the statements of list-valued blocks are not decoded with string_token_to_bytes" if not refs else f"string_token_to_bytes used where the path is not known to be list-valued: {bad}"))
    # STRING tokens are unquoted by removing exactly the first and the last character, the way the grammar delimits them
    # (and string_token_to_bytes does): [1:-1]; strip()/replace() would eat quotes that belong to the value.  Subject: every
    # place that recognises a STRING token (`X.type == "STRING"` holds) - there the text of X must be sliced [1:-1].
    def string_fact(atom):
        s = _eq_sides(atom)
        if s:
            for a, b in (s, s[::-1]):
                if isinstance(a, ast.Attribute) and a.attr == "type" and _c(b) == "STRING":
                    return a.value
        return None

    subjects = {}  # text of the tested token expression -> covered by a [1:-1] site?
    for h in scope:
        for n in body_walk(h.node):
            if isinstance(n, ast.Compare) and len(n.ops) == 1 and isinstance(n.ops[0], (ast.Eq, ast.NotEq)):
                at = []
                _atoms(_inl(h, n), True, at)
                x = string_fact(at[0][0])
                if x is not None:
                    subjects.setdefault((h.fq, src(x)), False)
    surgery = []
    for h in scope:
        for n in body_walk(h.node):
            base = None
            if isinstance(n, ast.Subscript) and isinstance(n.slice, ast.Slice) and _c(n.slice.lower) == 1 and n.slice.step is None and (
                    _c(n.slice.upper) == -1 or (isinstance(n.slice.upper, ast.BinOp) and isinstance(n.slice.upper.op, ast.Sub) and _c(n.slice.upper.right) == 1 and _is_call(n.slice.upper.left, "len")
                                                and len(n.slice.upper.left.args) == 1 and src(_inl(h, n.slice.upper.left.args[0])) == src(_inl(h, n.value)))):  # lemma L1
                base, site = _inl(h, n.value), True
            elif isinstance(n, ast.Call) and isinstance(n.func, ast.Attribute) and n.func.attr in ("strip", "lstrip", "rstrip", "replace", "removeprefix", "removesuffix", "translate"):
                base, site = _inl(h, n.func.value), False
            if base is None:
                continue
            for a, pol in _facts_at(ctx, h, n):
                x = string_fact(a) if pol else None
                if x is not None and names_in(x) & names_in(base):
                    if site:
                        subjects[(h.fq, src(x))] = True
                    else:
                        surgery.append(src(n)[:40])
    if not subjects:
        ctx.undecided("R1", "AGREE", f, "STRING tokens unquoted with [1:-1]", "no place that recognises STRING tokens (`X.type == 'STRING'`) located in as_dict")
    else:
        miss = sorted(x for (_q, x), cov in subjects.items() if not cov)
        ctx.ob("R1", "AGREE", f, "STRING tokens unquoted with [1:-1]", not miss and not surgery,
               f"{len(subjects)} place(s) recognise a STRING token; not followed by a [1:-1] slice of its text: {miss}; other string surgery on a recognised STRING token: {surgery}")
    ctx.rep.count("list_props_entries", len(props), floor=8)
    ctx.rep.count("grammar_block_paths", len(paths), floor=30)


# ============================================================================================================= R2
def r2(ctx):
    f = ctx.repo.func(f"{MOD}.C2Profile.as_dict")
    cfg = ctx.cfg(f)
    fv = FuncView.of(f.node)
    rets = cfg.return_stmts()
    stores = _self_stores(f.node)
    # roles: the hash attribute is the self attribute that is assigned a hash(..) / compared with hash(self.tree); the
    # cache attribute is the other self attribute as_dict stores (and returns)
    # (the key may be computed by an expression helper the normaliser left as a function: `_expand` substitutes its body)
    def X(e):
        return _expand(ctx, f, e)

    compares = []  # (self attribute, the term it is compared with for equality)
    for n in body_walk(f.node):
        if isinstance(n, ast.Compare) and len(n.ops) == 1 and isinstance(n.ops[0], (ast.Eq, ast.NotEq)):
            l, r = _inl(f, n.left), _inl(f, n.comparators[0])
            for a, b in ((l, r), (r, l)):
                if isinstance(a, ast.Attribute) and dotted(a.value) == "self" and not (isinstance(b, ast.Constant)):
                    compares.append((a.attr, X(b)))
    hash_attrs = {a for s, a, v in stores if v is not None and _is_call(X(v), "hash")}
    if not hash_attrs:
        hash_attrs = {a for a, k in compares if _is_call(k, "hash")}
    returned = {r.value.attr for r in rets if isinstance(r.value, ast.Attribute) and dotted(r.value.value) == "self"}
    if not hash_attrs:
        # a key that is not a hash(..) at all: as_dict stores two self attributes, one of them is the dictionary it returns,
        # the other one - compared for equality with a freshly computed term - is the key
        stored_attrs = {a for s, a, v in stores}
        if len(stored_attrs) == 2 and len(stored_attrs & returned) == 1 and (stored_attrs - returned) <= {a for a, _k in compares}:
            hash_attrs = stored_attrs - returned
    cache_attrs = {a for s, a, v in stores if a not in hash_attrs}
    if len(cache_attrs) > 1 and cache_attrs & returned:
        cache_attrs &= returned
    if len(hash_attrs) != 1 or len(cache_attrs) != 1:
        ctx.undecided("R2", "DOM", f, "dictionary cache", f"cannot locate the hash-keyed cache of as_dict (hash attribute candidates {sorted(hash_attrs)}, cache attribute candidates {sorted(cache_attrs)})")
        return
    HA, CA = next(iter(hash_attrs)), next(iter(cache_attrs))
    sets_h = [(s, v) for s, a, v in stores if a == HA]
    sets_c = [(s, v) for s, a, v in stores if a == CA]

    # the key terms: what is stored into the key attribute and what the key attribute is compared with
    key_stored = [(s, X(v)) for s, v in sets_h if v is not None]
    key_compared = [k for a, k in compares if a == HA]

    def fresh(atom):
        """A comparison of the stored key with a freshly computed key: `self.<key> == hash(self.tree)`, or - for another key
        function - equality with the very term that is stored into the key attribute (whether that key function says enough
        about the tree is the obligation `cache key covers the whole tree`, not a matter of control flow)."""
        s = _eq_sides(atom)
        for a, b in ((s, s[::-1]) if s else ()):
            if dotted(a) == f"self.{HA}":
                k = X(b)
                kc = _key_class(ctx, f, k)
                if kc is not None and kc[0] == "whole":
                    return True
                if (kc is None or kc[0] == "lossy") and any(src(k) == src(t) for _s, t in key_stored):
                    return True
        return False

    fresh_edges = []
    for n, s in cfg.stmt.items():
        if isinstance(s, (ast.If, ast.While)):
            for label in ("true", "false"):
                if cfg.edge_node(s, label) in cfg.g and any(pol and fresh(a) for a, pol in _edge_facts(ctx, f, s, label)):
                    fresh_edges.append(cfg.edge_node(s, label))
    hn = [cfg.node(s) for s, _v in sets_h if cfg.has(s)]
    cn = [cfg.node(s) for s, _v in sets_c if cfg.has(s)]

    def is_cache(r):
        v = r.value
        if v is None:
            return False
        if dotted(v) == f"self.{CA}":
            return True
        if isinstance(v, ast.Name):
            for s, sv in sets_c:
                # `self.cache = result = dict(..)` or `result = dict(..); self.cache = result; return result`
                same_stmt = isinstance(s, ast.Assign) and any(isinstance(t, ast.Name) and t.id == v.id for t in s.targets)
                if (same_stmt or (isinstance(sv, ast.Name) and sv.id == v.id)) and cfg.dominates(cfg.node(s), cfg.node(r)):
                    defs = [cfg.node(d) for d, _x in assignments_to(f.node, v.id) if isinstance(d, ast.stmt) and cfg.has(d) and d is not s]
                    if not any(cfg.reaches(cfg.node(s), d) and cfg.reaches(d, cfg.node(r)) for d in defs):
                        return True
        return False

    def cache_reads(r):
        """The statements that read the cache attribute for return r: r itself, or - `result = self.cache ... return result` -
        the definitions of the returned local (all of them must be reads of the cache or of the value stored into it)."""
        if is_cache(r):
            return [r]
        v = r.value
        if isinstance(v, ast.Name) and v.id not in params(f.node):
            defs = assignments_to(f.node, v.id)
            if defs and all(isinstance(d, ast.stmt) and cfg.has(d) and x is not None and (dotted(x) == f"self.{CA}" or any(src(x) == src(sv) for _s, sv in sets_c if sv is not None)) for d, x in defs):
                return [d for d, x in defs if dotted(x) == f"self.{CA}"]
        return None

    reads = {id(r): cache_reads(r) for r in rets}
    cached = [r for r in rets if reads[id(r)] is not None]
    for r in [x for r in cached for x in reads[id(r)]]:
        rn = cfg.node(r)
        early = any(cfg.dominates(e, rn) for e in fresh_edges)
        ok = not cfg.reaches(ENTRY, rn, avoiding=fresh_edges + hn) and not cfg.reaches(ENTRY, rn, avoiding=fresh_edges + cn)
        after = any(cfg.dominates(n, rn) for n in hn) and any(cfg.dominates(n, rn) for n in cn)
        ctx.ob("R2", "DOM", f, "return of the cached dictionary" + (" [early]" if early else " [after recompute]" if after else " [joined]"), ok,
               ("cached dictionary returned under `self.%s == hash(self.tree)`" % HA) if ok and early else
               "every path to this return passes a fresh comparison of the stored hash with hash(self.tree) or stores both the hash and the cache" if ok else
               "cached dictionary can be returned without a fresh hash comparison and without having been recomputed: " + " -> ".join(cfg.witness_path(ENTRY, rn, avoiding=fresh_edges + hn) or cfg.witness_path(ENTRY, rn, avoiding=fresh_edges + cn)), r)
    for r in rets:
        if r not in cached:
            ctx.undecided("R2", "DOM", f, "return of something else than the cached dictionary", f"`{src(r)[:60]}` cannot be related to the cache attribute self.{CA}", r)
    if cached:
        ctx.ob("R2", "DOM", f, "returns", True, f"{len(rets)} returns, {len(cached)} of the cache")
    else:
        ctx.undecided("R2", "DOM", f, "returns", "no return of the cached dictionary located")
    # the collection the walk fills: a local that is subscripted-and-appended / item-assigned
    coll = set()
    for n in body_walk(f.node):
        if isinstance(n, ast.Call) and isinstance(n.func, ast.Attribute) and n.func.attr in ("append", "extend", "add"):
            b = n.func.value  # P[k].append(v) / P.setdefault(k, []).append(v)
            if isinstance(b, ast.Subscript) and isinstance(b.value, ast.Name):
                coll.add(b.value.id)
            elif isinstance(b, ast.Call) and isinstance(b.func, ast.Attribute) and b.func.attr in ("setdefault", "get") and isinstance(b.func.value, ast.Name):
                coll.add(b.func.value.id)
        if isinstance(n, (ast.Assign, ast.AugAssign)):
            for t in (n.targets if isinstance(n, ast.Assign) else [n.target]):
                if isinstance(t, ast.Subscript) and isinstance(t.value, ast.Name):
                    coll.add(t.value.id)
    coll -= set(params(f.node))
    # the cached value is a plain dict (handing out the collecting defaultdict lets a failed lookup add phantom keys)
    for s, v in sets_c:
        val = _inl(f, v, stop=coll) if v is not None else None
        verdict = None
        if val is None:
            pass
        elif _is_call(val, "dict") or isinstance(val, (ast.Dict, ast.DictComp)):
            verdict = True
        else:
            base = val.func.value if isinstance(val, ast.Call) and isinstance(val.func, ast.Attribute) and val.func.attr == "copy" and not val.args else \
                val.args[0] if _is_call(val, "copy", "deepcopy") and len(val.args) == 1 else val
            if isinstance(base, ast.Name):
                defs = [_inl(f, d, stop=coll) for _s, d in assignments_to(f.node, base.id) if d is not None]
                if any(_is_call(d, "defaultdict") for d in defs):
                    verdict = False
                elif defs and all(_is_call(d, "dict", "OrderedDict") or isinstance(d, (ast.Dict, ast.DictComp)) for d in defs):
                    verdict = True
        if verdict is None:
            ctx.undecided("R2", "AGREE", f, "cache is a plain dict copy", f"cannot tell what kind of mapping `{src(v)[:60]}` is", s)
        else:
            ctx.ob("R2", "AGREE", f, "cache is a plain dict copy", verdict, "the cached/returned view is a plain dictionary" if verdict else
                   f"the cached view is {src(v)}: handing out the collecting defaultdict lets a failed lookup add phantom keys to the view", s)
    # hash and cache are stored together, after the walk of self.tree
    walk_calls = [c for c in fn_calls(f.node) if isinstance(c.func, ast.Attribute) and "reconstruct" in c.func.attr]
    if not walk_calls or not sets_h or not sets_c:
        ctx.undecided("R2", "AGREE", f, "hash and cache stored together after the walk", "the Reconstructor walk of the tree (or the stores) not located in as_dict")
    else:
        why = []
        if not all(any(dotted(n) == TREE for n in ast.walk(_inl(f, ast.Tuple(elts=list(c.args) + [k.value for k in c.keywords], ctx=ast.Load())))) for c in walk_calls):
            why.append("the walk is not over self.tree")
        wn = [cfg.node(fv.stmt_of(c)) for c in walk_calls if cfg.has(fv.stmt_of(c))]
        for n in hn + cn:
            if not any(cfg.dominates(w, n) for w in wn):
                why.append(f"`{cfg.describe(n)}` is not preceded by the walk")
            if cfg.in_cycle(n):
                why.append(f"`{cfg.describe(n)}` happens while the walk is still going on")
        # hash fresh => cache fresh: wherever the hash is stored the cache is stored too (before, or inevitably after)
        for n in hn:
            if not any(cfg.dominates(c, n) for c in cn) and cfg.reaches(n, EXIT, avoiding=cn):
                why.append(f"`{cfg.describe(n)}` can be reached/left without storing the cache")
        if coll:
            for s, v in sets_c:
                if v is None or not (names_in(_inl(f, v, stop=coll)) & coll):
                    why.append(f"the cached value `{src(v)}` is not made from the collected properties ({sorted(coll)})")
        ctx.ob("R2", "AGREE", f, "hash and cache stored together after the walk", not why,
               "the cache key and the walked properties of self.tree are stored together, after the walk" if not why else "; ".join(why))
    # the key says everything about the tree: two different trees must (up to hash collisions) have different keys, otherwise
    # a modification that the key does not see leaves the stale view in place
    terms = [("stored", k) for _s, k in key_stored] + [("compared", k) for k in key_compared]
    text = "cache key covers the whole tree"
    if not terms:
        ctx.undecided("R2", "AGREE", f, text, f"no term stored into / compared with self.{HA} located")
    else:
        judged = [(role, k, _key_class(ctx, f, k)) for role, k in terms]
        bad = [(role, k, kc) for role, k, kc in judged if kc is not None and kc[0] != "whole"]
        unknown = sorted({f"{role}: {src(k)[:70]}" for role, k, kc in judged if kc is None})
        if bad:
            ctx.ob("R2", "AGREE", f, text, False, "; ".join(sorted({f"the {role} key `{src(k)[:90]}` does not determine the tree: " + "; ".join(_LOSSY_WHY.get(w, w) for w in kc[1]) for role, k, kc in bad}))
                   + " - a modification the key does not see (as_text() shows it) leaves the cached view in place")
        elif unknown:
            ctx.undecided("R2", "AGREE", f, text, f"cannot tell whether the key determines the whole tree (names of all nodes and all tokens, in order): {unknown}")
        else:
            ctx.ob("R2", "AGREE", f, text, True, f"the key is hash(self.tree) at all {len(terms)} places (lark hashes the name and the children of every node)")
    # a new profile starts without a cached dictionary: the initial hash cannot equal a hash
    init = ctx.repo.func(f"{MOD}.C2Profile.__init__")
    iv = [v for s, a, v in _self_stores(init.node) if a == HA]
    if not iv and HA in ctx.repo.class_attrs(f"{MOD}.C2Profile"):
        iv = [ctx.repo.class_attrs(f"{MOD}.C2Profile")[HA]]
    if not iv or any(v is None or not isinstance(_inl(init, v), ast.Constant) for v in iv):
        ctx.undecided("R2", "AGREE", init, "cache reset in __init__", f"initial value of self.{HA} not located as a constant")
    else:
        ok = all(not isinstance(_inl(init, v).value, (int, float)) or _inl(init, v).value is None for v in iv)
        ctx.ob("R2", "AGREE", init, "cache reset in __init__", ok, "a new profile starts with no cached dictionary" if ok else f"self.{HA} starts as a number that a hash can equal")
    # nobody else writes the cache (resetting the hash to None - invalidation - is harmless)
    def writes(fn):
        out = []
        for s in statements(fn):
            tg = s.targets if isinstance(s, ast.Assign) else [s.target] if isinstance(s, (ast.AugAssign, ast.AnnAssign)) else []
            for t in tg:
                for e in (t.elts if isinstance(t, (ast.Tuple, ast.List)) else [t]):
                    if isinstance(e, ast.Attribute) and e.attr in (HA, CA):
                        v = getattr(s, "value", None)
                        if not (e.attr == HA and isinstance(s, (ast.Assign, ast.AnnAssign)) and isinstance(v, ast.Constant) and v.value is None):
                            out.append(s)
            if isinstance(s, ast.Expr) and _is_call(s.value, "setattr") and len(s.value.args) == 3 and _c(s.value.args[1]) in (HA, CA):
                out.append(s)
        return out

    ft = ctx.repo.func(f"{MOD}.C2Profile.from_text")
    touch = writes(ft.node)
    ctx.ob("R2", "AGREE", ft, "from_text leaves the cache key alone", not touch, "from_text replaces the tree without pre-seeding the cache" if not touch else "from_text writes the cache key")
    mine = {h.fq for h in _scope(ctx, f)}
    for other in ctx.repo.module(MOD).funcs.values():
        if other.fq in (f.fq, init.fq, ft.fq) or other.fq in mine or (other.parent is not None and other.parent.fq == f.fq):
            continue
        w = writes(other.node)
        if w and other.qualname not in _baseline_funcs(MOD):
            # a helper outside the baseline vocabulary that is only ever called from as_dict (or not called at all any
            # more because the normaliser inlined it there) is a part of as_dict
            callers = {g.fq for g in ctx.repo.all_funcs() if g.fq != other.fq for c in fn_calls(g.node)
                       if (lambda cal: cal.kind == "func" and cal.func is not None and cal.func.fq == other.fq)(ctx.rs.resolve_call(g, c))}
            if callers <= mine:
                continue
        if w:
            ctx.ob("R2", "AGREE", other, "writes the dictionary cache", False, f"{other.qualname} writes the dictionary cache outside as_dict", w[0])


# ============================================================================================================= R3
def _resolve_attr_func(ctx, cname, v):
    """The package function a class attribute `name = Class.method` / `name = method` is bound to."""
    d = dotted(v)
    if not d:
        return None
    for fq in (f"{MOD}.{d}", f"{MOD}.{cname}.{d}"):
        if ctx.repo.has_func(fq):
            return ctx.repo.func(fq)
    return None


def _names_of(mod, e, env):
    """The constant strings an iterable expression stands for: a constant collection (module constants folded), or a
    parameter of the decorator factory with the arguments bound to it at the decoration site.  None if not constant."""
    if isinstance(e, ast.Name) and e.id in env:
        v = env[e.id]
        e = ast.Tuple(elts=list(v), ctx=ast.Load()) if isinstance(v, list) else v
    if e is None:
        return None
    try:
        v = const_eval(e, module_env(mod))
    except (NotConst, TypeError, KeyError, RecursionError):
        return None
    if isinstance(v, dict):
        v = list(v)
    if isinstance(v, (list, tuple, set, frozenset)) and all(isinstance(x, str) for x in v):
        return list(v) if isinstance(v, (list, tuple)) else sorted(v)
    return None


def _binds_on(mod, body, subject, env, out, opaque, in_function):
    """Read off what the statements `body` bind on the class held by the name `subject`: `setattr(subject, N, V)` and
    `subject.N = V`, N a constant or the variable of an enclosing `for` over a constant collection of strings (the loop body
    is looked at once, the variable stands for every element).  Anything else the statements do with `subject` is opaque."""

    def mentions(n):
        return any(isinstance(x, ast.Name) and x.id == subject for x in ast.walk(n))

    def value_of(v):
        return env[v.id] if isinstance(v, ast.Name) and v.id in env and isinstance(env[v.id], ast.AST) else v

    def visit(stmts, loopvars):
        for st in stmts:
            if isinstance(st, ast.For) and isinstance(st.target, ast.Name) and not st.orelse:
                if not any(mentions(x) for x in st.body):
                    continue
                names = _names_of(mod, st.iter, env)
                if names is None:
                    opaque.append(f"`for {src(st.target)} in {src(st.iter)[:40]}` binds names that are not constants")
                    continue
                visit(st.body, {**loopvars, st.target.id: names})
                continue
            if isinstance(st, ast.Expr) and _is_call(st.value, "setattr") and len(st.value.args) == 3 and isinstance(st.value.args[0], ast.Name) and st.value.args[0].id == subject:
                n = st.value.args[1]
                names = [_c(n)] if isinstance(_c(n), str) else loopvars.get(n.id) if isinstance(n, ast.Name) else None
                if names is None:
                    opaque.append(f"`{src(st)[:60]}` binds a name that is not a constant")
                else:
                    for x in names:
                        out[x] = value_of(st.value.args[2])
                continue
            if isinstance(st, ast.Assign) and len(st.targets) == 1 and isinstance(st.targets[0], ast.Attribute) and isinstance(st.targets[0].value, ast.Name) and st.targets[0].value.id == subject:
                out[st.targets[0].attr] = value_of(st.value)
                continue
            if in_function and isinstance(st, ast.Return):
                if not (isinstance(st.value, ast.Name) and st.value.id == subject):
                    opaque.append(f"a class decorator returns `{src(st.value)[:40] if st.value is not None else None}` instead of the class it was given")
                continue
            if isinstance(st, (ast.FunctionDef, ast.AsyncFunctionDef, ast.ClassDef)):
                continue
            if in_function and mentions(st):
                opaque.append(f"`{src(st)[:60]}`")

    visit(body, {})


def _class_bindings(ctx, cname):
    """(name -> value expression, opaque) for class `cname` of c2profile.py: the assignments of the class body, the names its
    class decorators bind (`@d` / `@factory(<constants>)`, read off the decorator's body with the factory's parameters bound
    to the arguments of the decoration) and the names module-level statements bind on the class.  `opaque` lists what binds
    names by means the rule cannot read (then absence of a name proves nothing)."""
    mod = ctx.repo.module(MOD)
    node = ctx.repo.cls(f"{MOD}.{cname}")
    out, opaque = {}, []
    for st in node.body:
        if not isinstance(st, (ast.Assign, ast.AnnAssign, ast.FunctionDef, ast.AsyncFunctionDef, ast.Pass)):
            opaque.append(f"`{src(st)[:60]}` in the class body")
    for kw in node.keywords:
        opaque.append(f"class keyword `{kw.arg}`")
    for dec in reversed(node.decorator_list):
        env, fn = {}, None
        if isinstance(dec, ast.Call):
            fac = mod.funcs.get(dotted(dec.func) or "")
            given = []  # positional arguments, `*<literal sequence>` spliced
            for x in dec.args:
                given.extend(x.value.elts if isinstance(x, ast.Starred) and isinstance(x.value, (ast.Tuple, ast.List)) else [x])
            if fac is not None and not any(isinstance(a, ast.Starred) for a in given) and all(k.arg for k in dec.keywords):
                a = fac.node.args
                pos = [x.arg for x in a.posonlyargs + a.args]
                for p, v in zip(pos, given):
                    env[p] = v
                if a.vararg is not None:
                    env[a.vararg.arg] = list(given[len(pos):])
                for k in dec.keywords:
                    env[k.arg] = k.value
                for p, d in param_defaults(fac.node).items():
                    env.setdefault(p, d)
                rets = [s for s in statements(fac.node) if isinstance(s, ast.Return)]
                inner = [s for s in fac.node.body if isinstance(s, (ast.FunctionDef, ast.AsyncFunctionDef))]
                if len(rets) == 1 and isinstance(rets[0].value, ast.Name):
                    fn = next((s for s in inner if s.name == rets[0].value.id), None)
        else:
            f0 = mod.funcs.get(dotted(dec) or "")
            fn = f0.node if f0 is not None else None
        if fn is None or not params(fn):
            opaque.append(f"class decorator `{src(dec)[:60]}`")
            continue
        for p in params(fn):
            env.pop(p, None)
        _binds_on(mod, fn.body, params(fn)[0], env, out, opaque, True)
    out = {**ctx.repo.class_attrs(f"{MOD}.{cname}"), **out}  # decorators run after the class body: what they bind wins
    after = False
    for st in mod.tree.body:
        if st is node:
            after = True
        elif after:
            _binds_on(mod, [st], cname, {}, out, opaque, False)
    return out, opaque


def _str_set(ctx, f, e):
    v = _const(ctx, f, e)
    if isinstance(v, dict):
        v = list(v)
    if isinstance(v, (list, tuple, set, frozenset)) and v and all(isinstance(x, str) for x in v):
        return set(v)
    return None


def _name_set(ctx, f, atom):
    """The set of names a positive fact restricts a value to: `x in (..)`, `x == ".."`, `x == "a" or x in (..)`."""
    if isinstance(atom, ast.Compare) and len(atom.ops) == 1:
        if isinstance(atom.ops[0], ast.In):
            return _str_set(ctx, f, atom.comparators[0])
        if isinstance(atom.ops[0], ast.Eq):
            for a in (atom.left, atom.comparators[0]):
                if isinstance(_c(a), str):
                    return {_c(a)}
    if isinstance(atom, ast.BoolOp) and isinstance(atom.op, ast.Or):
        parts = [_name_set(ctx, f, v) for v in atom.values]
        if all(p is not None for p in parts):
            return set().union(*parts)
    return None


def _callee_alternatives(f, func, extra=()):
    """The bound methods of self an expression in call position may evaluate to, each with the facts under which it is
    chosen: `self.m`, `self.a if t else self.b`, `getattr(self, "a" if t else "b")` (temporaries inlined)."""
    e = _inl(f, func)
    if isinstance(e, ast.IfExp):
        t, fl = [], []
        _atoms(_inl(f, e.test), True, t)
        _atoms(_inl(f, e.test), False, fl)
        return _callee_alternatives(f, e.body, tuple(extra) + tuple(t)) + _callee_alternatives(f, e.orelse, tuple(extra) + tuple(fl))
    if isinstance(e, ast.Attribute) and dotted(e.value) == "self":
        return [(e.attr, list(extra))]
    if _is_call(e, "getattr") and len(e.args) >= 2 and dotted(e.args[0]) == "self":
        n = _inl(f, e.args[1])
        if isinstance(n, ast.IfExp):
            t, fl = [], []
            _atoms(_inl(f, n.test), True, t)
            _atoms(_inl(f, n.test), False, fl)
            out = []
            for br, facts in ((n.body, t), (n.orelse, fl)):
                if isinstance(_c(_inl(f, br)), str):
                    out.append((_c(_inl(f, br)), list(extra) + facts))
            return out
        if isinstance(_c(n), str):
            return [(_c(n), list(extra))]
    return []


def r3(ctx, g):
    n = 0
    for cname, origins in BUILDER_RULES.items():
        attrs, opaque = _class_bindings(ctx, cname)
        al = aliases_of(g, origins)
        for a, v in attrs.items():
            h = _resolve_attr_func(ctx, cname, v)
            if h is None or h.cls is None or len(params(h.node)) != 3:
                continue
            helper = h.qualname.split(".")[-1]
            sh = _helper_shape(ctx, h)
            if sh is None and helper in HELPER_ARITY:
                sh = (HELPER_FIXED_NAME.get(helper), HELPER_ARITY[helper], True)
            text = f"{a} = {h.qualname}"
            if sh is None:
                ctx.undecided("R3", "GRAM", f"c2profile.py::{cname}", text, f"cannot read off the tree {h.qualname} adds to self.tree.children")
                continue
            n += 1
            name = sh[0] or a
            ar = sh[1]
            ok = name in al and ar in al[name] and sh[2]
            ctx.ob("R3", "GRAM", f"c2profile.py::{cname}", text, ok,
                   f"builder emits tree {name!r} with {ar} string(s); grammar rule(s) {origins} " + (f"have that alias with arities {sorted(al[name])}" if name in al else "have no such alias")
                   + ("" if sh[2] else "; a child is not built as string[STRING] (the grammar's `string: STRING`)"))
        # reverse direction for the blocks that enumerate their options (enable-style lists)
        if cname in ("ExecuteOptionsBlock", "BeaconGateBlock"):
            body = ctx.repo.cls(f"{MOD}.{cname}").body
            have = set(attrs) | {st.name for st in body if isinstance(st, (ast.FunctionDef, ast.AsyncFunctionDef))}
            missing = sorted(set(al) - have)
            if missing and opaque:
                ctx.undecided("R3", "GRAM", f"c2profile.py::{cname}", "covers grammar alternatives", f"the class binds names by means the rule cannot read ({'; '.join(opaque)[:160]}); not found as attributes: {missing}")
            else:
                ctx.ob("R3", "GRAM", f"c2profile.py::{cname}", "covers grammar alternatives", not missing, f"grammar aliases of {origins} without a builder attribute: {missing}")
    ctx.rep.count("builder_attributes", n, floor=40)
    # C2Profile.__name__ == "start"; set_option builds option[OPTION, string]
    attrs = ctx.repo.class_attrs(f"{MOD}.C2Profile")
    ctx.ob("R3", "GRAM", "c2profile.py::C2Profile", "__name__", _c(attrs.get("__name__")) == "start" and "start" in g.by_origin, f"root tree name {_c(attrs.get('__name__'))!r} (grammar start rule 'start')")
    so = ctx.repo.func(f"{MOD}.C2Profile.set_option")
    opt_rules = [r for r in g.rules if r.tree_name == "option"]
    app = [(_tree_parts(so, x), x) for _c0, _r, x in _appended(so, lambda d: d == TREE + ".children")]
    app = [(tp, x) for tp, x in app if tp is not None]
    ks = _kids(so, app[0][0][1]) if len(app) == 1 else None
    if ks is None or not opt_rules:
        ctx.undecided("R3", "GRAM", so, "Tree('option', [OPTION, string])", "the tree set_option appends to self.tree.children (with a literal list of children) not located")
    else:
        shape = tuple(_sym(so, k) for k in ks)
        strings_ok = all(_is_string_tree(so, k) for k in ks if _sym(so, k) == ("string", False))
        ok = _c(app[0][0][0]) == "option" and shape == opt_rules[0].kept and strings_ok
        ctx.ob("R3", "GRAM", so, "Tree('option', [OPTION, string])", ok, f"builds {_c(app[0][0][0])}{list(shape)}; grammar `option` keeps {opt_rules[0].kept}" + ("" if strings_ok else "; the string child is not string[STRING]"))
    base = ctx.repo.func(f"{MOD}.ConfigBlock.set_option")
    srule = [r for r in g.by_origin.get("string", [])]
    s_ok = len(srule) == 1 and srule[0].kept == (("STRING", True),)
    sh = _helper_shape(ctx, base)
    if sh is None and not _appended(base, lambda d: d == TREE + ".children"):
        ctx.undecided("R3", "GRAM", base, "Tree(option, [string[STRING]])", "the tree ConfigBlock.set_option appends to self.tree.children not located")
    else:
        ok = sh == (None, 1, True) and s_ok
        ctx.ob("R3", "GRAM", base, "Tree(option, [string[STRING]])", ok, "block options are built as <alias>[string[STRING]] like the grammar's `string: STRING`" if ok else f"set_option tree shape {sh} differs from the grammar (<option>[string[STRING]])")
    # every other helper that builds string children builds them as string[STRING] too (a helper whose shape cannot be read
    # off although it appends a Tree is suspicious only if it is bound somewhere - reported there)
    scb = ctx.repo.func(f"{MOD}.ConfigBlock.set_config_block")
    ps = params(scb.node)
    app = [(_tree_parts(scb, x), x) for _c0, _r, x in _appended(scb, lambda d: d == TREE + ".children")]
    app = [(tp, x) for tp, x in app if tp is not None]
    if len(app) != 1 or len(ps) < 3:
        ctx.undecided("R3", "AGREE", scb, "Tree(option, config_block.tree.children)", "the tree set_config_block appends to self.tree.children not located")
    else:
        data, kids = app[0][0]
        while (_is_call(kids, "list", "tuple") and len(kids.args) == 1) or (isinstance(kids, ast.List) and len(kids.elts) == 1 and isinstance(kids.elts[0], ast.Starred)):
            kids = _inl(scb, kids.args[0] if isinstance(kids, ast.Call) else kids.elts[0].value)
        ok = isinstance(data, ast.Name) and data.id == ps[1] and dotted(kids) == f"{ps[2]}.tree.children"
        ctx.ob("R3", "AGREE", scb, "Tree(option, config_block.tree.children)", ok, "a child block is spliced under the option's name" if ok else f"set_config_block appends Tree({src(data)}, {src(kids)}): not the child's children under the option name")
    # DataTransformBlock: tree == data_transform[steps[<list add_step fills>], termination[<list add_termination fills>]]
    dt = ctx.repo.func(f"{MOD}.DataTransformBlock.tree")
    dtr = [r for r in g.by_origin.get("data_transform", [])]
    shape_ok = len(dtr) == 1 and dtr[0].kept == (("steps", False), ("termination", False))
    fills = {}
    for role, meth in (("steps", "add_step"), ("termination", "add_termination")):
        m = ctx.repo.func(f"{MOD}.DataTransformBlock.{meth}")
        app = _appended(m, lambda d: bool(d) and d.startswith("self.") and d.count(".") == 1)
        got = {r for _c0, r, x in app if _tree_parts(m, x) is not None} or {r for _c0, r, x in app}
        fills[role] = next(iter(got)) if len(got) == 1 else None
    found = None
    for r in [s for s in statements(dt.node) if isinstance(s, ast.Return) and s.value is not None]:
        tp = _tree_parts(dt, r.value)
        for k in (_kids(dt, tp[1]) or []) if tp else []:
            tp2 = _tree_parts(dt, k)
            if tp2 is not None and _c(tp2[0]) == "data_transform":
                found = _kids(dt, tp2[1])
    if found is None or None in fills.values() or not dtr:
        ctx.undecided("R3", "GRAM", dt, "data_transform[steps, termination]", f"the Tree('data_transform', [..]) returned by DataTransformBlock.tree (or the lists add_step/add_termination fill: {fills}) not located")
    else:
        got = []
        for k in found:
            tp = _tree_parts(dt, k)
            got.append((_c(tp[0]), dotted(tp[1])) if tp else (None, None))
        want = [(name, fills.get(name)) for name, _t in dtr[0].kept]
        b_ok = got == want
        ctx.ob("R3", "GRAM", dt, "data_transform[steps, termination]", shape_ok and b_ok, f"grammar data_transform keeps {dtr[0].kept}; builder builds {got}, lists filled by add_step/add_termination: {fills}")
    init = ctx.repo.func(f"{MOD}.DataTransformBlock.__init__")
    tr = aliases_of(g, ["transform_statement"])
    te = aliases_of(g, ["termination_statement"])
    sets = []
    for c in fn_calls(init.node):
        for meth, extra in _callee_alternatives(init, c.func):
            if meth not in ("add_step", "add_termination"):
                continue
            m = ctx.repo.func(f"{MOD}.DataTransformBlock.{meth}")
            mp = params(m.node)
            if len(mp) < 3:
                continue
            arg = bind_args(c, m.node, skip_self=True).get(mp[2])
            if arg is None:
                continue
            # the innermost positive restriction of a name to a constant set that holds where this call is made names the
            # step set it serves
            pos = [_name_set(ctx, init, a) for a, pol in _facts_at(ctx, init, c) + list(extra) if pol]
            pos = [p for p in pos if p]
            if pos:
                sets.append((set(v.replace("-", "_") for v in pos[-1]), meth, 0 if _c(_inl(init, arg)) is None and isinstance(_inl(init, arg), ast.Constant) else 1))
    want = {("add_step", 0): {a for a, ar in tr.items() if 0 in ar}, ("add_termination", 0): {a for a, ar in te.items() if 0 in ar}, ("add_termination", 1): {a for a, ar in te.items() if 1 in ar},
            ("add_step", 1): {a for a, ar in tr.items() if 1 in ar}}
    label = {("add_step", 0): "no-arg steps", ("add_termination", 0): "no-arg terminations", ("add_termination", 1): "1-arg terminations", ("add_step", 1): "1-arg steps"}
    wrong, unlocated, detail = [], [], []
    for key, w in want.items():
        here = [s for s, fn, ar in sets if (fn, ar) == key]
        got = set().union(*here) if here else set()
        if key == ("add_step", 1) and not here:
            continue  # steps with an argument are the fall-through case: no positive restriction needed (checked if there is one)
        detail.append(f"{label[key]} {sorted(got)} vs grammar {sorted(w)}")
        if not here and w:
            unlocated.append(label[key])
        elif got != w:
            wrong.append(label[key])
    if wrong or not unlocated:
        ctx.ob("R3", "GRAM", init, "step/termination name sets", not wrong, "; ".join(detail))
    else:
        ctx.undecided("R3", "GRAM", init, "step/termination name sets", f"no add_step/add_termination call under a membership test located for: {unlocated}; " + "; ".join(detail))
    want_step1 = {a for a, ar in tr.items() if 1 in ar}
    ctx.ob("R3", "GRAM", "c2profile.lark::transform_statement", "1-arg steps", want_step1 == {"append", "prepend"}, f"grammar 1-arg transform steps {sorted(want_step1)} (everything else with a value falls through to add_step)")


# ============================================================================================================= R6
ENCODER = "value_to_string"
# calls that only re-arrange the elements of what they are given (an iterable of raw values stays an iterable of raw values)
_REARRANGE = {"items", "list", "tuple", "sorted", "reversed", "enumerate", "zip", "iter"}


def _token_args(f, c):
    """(type expression, text expression) of a `Token(type, value)` construction, else None."""
    if not _is_call(c, "Token"):
        return None
    kw = {k.arg: k.value for k in c.keywords if k.arg}
    a = list(c.args)
    tp = a[0] if a else kw.get("type", kw.get("type_"))
    tx = a[1] if len(a) > 1 else kw.get("value")
    if tp is None or tx is None or any(isinstance(x, ast.Starred) for x in a):
        return None
    return tp, tx


def _text_class(ctx, f, e, at, enc, depth=0):
    """How the text expression e (evaluated at node `at` of function f) is made, over all definitions that reach it:
    a set over {"enc" (a call of the literal encoder), "const", "raw" (an input of f - a parameter of a baseline function or an
    element of one - with no call applied), "dead" (a parameter of a non-baseline helper without callers), None (not understood)}."""
    out = set()
    if depth > 4:
        return {None}
    fv = FuncView.of(f.node)

    def sub(x, d=1):
        # a sub-expression is judged where it stands (the origins keep their node identity)
        return _text_class(ctx, f, x, x if fv.stmt_of(x) is not None else at, enc, depth + d)

    for o in reaching_origins(ctx, f, e, at):
        if isinstance(o, ast.Constant):
            out.add("const")
        elif isinstance(o, ast.Call):
            cal = ctx.rs.resolve_call(f, o)
            out.add("enc" if cal.kind == "func" and cal.func is not None and cal.func.fq == enc.fq else None)
        elif isinstance(o, ast.Name):
            if o.id in params(f.node):
                out |= _param_class(ctx, f, o.id, enc, depth)
            else:
                out.add(None)
        elif isinstance(o, (ast.For, ast.AsyncFor)):
            # the element of an iterable: raw if the iterable is (a re-arrangement of) raw values
            calls = [c for c in ast.walk(o.iter) if isinstance(c, ast.Call)]
            if all((dotted(c.func) or "").split(".")[-1] in _REARRANGE for c in calls):
                inner = set()
                for n in ast.walk(o.iter):
                    if isinstance(n, ast.Name) and isinstance(n.ctx, ast.Load) and n.id not in _REARRANGE:
                        inner |= _text_class(ctx, f, n, o, enc, depth + 1)
                out |= inner if inner and inner <= {"raw", "const"} else {None}
            else:
                out.add(None)
        elif isinstance(o, ast.IfExp):
            # either alternative may be the text (the test stays symbolic)
            out |= sub(o.body) | sub(o.orelse)
        elif isinstance(o, (ast.JoinedStr, ast.BinOp, ast.FormattedValue)):
            # concatenation / formatting: constants around a value do not encode it
            parts = o.values if isinstance(o, ast.JoinedStr) else [o.value] if isinstance(o, ast.FormattedValue) else [o.left, o.right] if isinstance(o.op, (ast.Add, ast.Mod)) else None
            if parts is None:
                out.add(None)
                continue
            got = set()
            for p in parts:
                for q in (p.elts if isinstance(p, ast.Tuple) else [p]):
                    got |= sub(q)
            if None in got or "enc" in got:
                out.add(None)  # an encoded text with something around it: not a form the rule knows
            else:
                out |= got
        else:
            out.add(None)
    return out


def _param_class(ctx, f, name, enc, depth):
    """A parameter of a function of the baseline vocabulary (the builder API) is the caller's value: raw.  A parameter of a helper
    somebody introduced is whatever its callers in the package pass."""
    if f.qualname in _baseline_funcs(f.module.name):
        return {"raw"}
    out = set()
    for g in ctx.repo.all_funcs():
        for c in fn_calls(g.node):
            cal = ctx.rs.resolve_call(g, c)
            if cal.kind == "func" and cal.func is not None and cal.func.fq == f.fq:
                a = bind_args(c, f.node, skip_self=bool(f.cls) and isinstance(c.func, ast.Attribute)).get(name)
                out |= _text_class(ctx, g, a, c, enc, depth + 1) if a is not None else {None}
    # no call left in the package: the normaliser inlined the helper into its call sites (where its tokens are judged)
    return out or {"dead"}


def r6(ctx):
    """Every STRING token built in code carries the text the literal encoder makes of the given value."""
    if not ctx.repo.has_func(f"{MOD}.{ENCODER}"):
        ctx.undecided("R6", "TAINT", f"{MOD}.py", "STRING token text made by the literal encoder", f"the literal encoder {ENCODER} not located")
        return
    enc = ctx.repo.func(f"{MOD}.{ENCODER}")
    n = 0
    for f in ctx.repo.module(MOD).funcs.values():
        sites = []
        for c in fn_calls(f.node):
            ta = _token_args(f, c)
            if ta is not None and _c(_inl(f, ta[0])) == "STRING":
                sites.append((c, ta[1]))
        if not sites:
            continue
        n += len(sites)
        dead = 0
        raw, unknown = [], []
        for c, tx in sites:
            got = _text_class(ctx, f, tx, c, enc)
            if "raw" in got:
                raw.append(src(tx)[:40])
            elif None in got or not got:
                unknown.append(src(tx)[:40])
            elif "dead" in got:
                dead += 1
        text = "STRING token text made by the literal encoder"
        if dead == len(sites):
            continue  # a helper outside the baseline vocabulary that nobody calls any more
        if raw:
            ctx.ob("R6", "TAINT", f, text, False, f"{len(sites)} STRING token(s) built; the given value reaches the token text without passing {ENCODER} "
                   f"(no quoting/escaping: the built token is not the literal the parser reads for that value): {sorted(set(raw))}", sites[0][0])
        elif unknown:
            ctx.undecided("R6", "TAINT", f, text, f"{len(sites)} STRING token(s) built; cannot tell how the text is made: {sorted(set(unknown))}", sites[0][0])
        else:
            ctx.ob("R6", "TAINT", f, text, True, f"{len(sites)} STRING token(s) built, each from {ENCODER}(<value>) (or a constant text) on every definition that reaches it")
    ctx.rep.count("string_tokens_built", n, floor=8)


# ============================================================================================================= R8
# str methods that look for a separator inside a text (and so take a composed text apart again)
_CUTTERS = {"split", "rsplit", "partition", "rpartition", "find", "rfind", "index", "rindex"}


def _flat_add(e):
    if isinstance(e, ast.BinOp) and isinstance(e.op, ast.Add):
        return _flat_add(e.left) + _flat_add(e.right)
    return [e]


def _composed(ctx, f, e, tainted, depth=0):
    """The separators of the composed text `e` stands for - a text made by putting non-constant parts together with constant
    separators (`S.join(parts)`, an f-string, a `+` chain), a copy / a slice / a conditional alternative / a piece cut off such
    a text - or None when e is not known to be one.  `tainted`: local name -> separators (flow-insensitive)."""
    if e is None or depth > 6:
        return None

    def sub(x):
        return _composed(ctx, f, x, tainted, depth + 1)

    def union(parts):
        got = [p for p in parts if p]
        return set().union(*got) if got else None

    if isinstance(e, ast.Name):
        return tainted.get(e.id)
    if isinstance(e, ast.IfExp):
        return union([sub(e.body), sub(e.orelse)])
    if isinstance(e, ast.Call) and isinstance(e.func, ast.Attribute) and e.func.attr == "join" and len(e.args) == 1 and not e.keywords:
        sep = _const(ctx, f, e.func.value)
        if isinstance(sep, str) and sep and _c(e.args[0]) is None:  # (not `_const`: a list that is filled later is not its initial value)
            inner = union([tainted.get(n.id) for n in ast.walk(e.args[0]) if isinstance(n, ast.Name)])
            return {sep} | (inner or set())
        return None
    if isinstance(e, ast.Call) and isinstance(e.func, ast.Attribute) and e.func.attr in _CUTTERS | {"strip", "lstrip", "rstrip", "removeprefix", "removesuffix"}:
        return sub(e.func.value)  # what is cut off a composed text is (part of) a composed text
    if _is_call(e, "str") and len(e.args) == 1:
        return sub(e.args[0])
    if isinstance(e, ast.Subscript):
        return sub(e.value)
    if isinstance(e, (ast.JoinedStr, ast.BinOp)):
        parts = e.values if isinstance(e, ast.JoinedStr) else _flat_add(e) if isinstance(e.op, ast.Add) else None
        if parts is None:
            return None
        consts = {p.value for p in parts if isinstance(p, ast.Constant) and isinstance(p.value, str) and p.value}
        dyn = [p.value if isinstance(p, ast.FormattedValue) else p for p in parts if not isinstance(p, ast.Constant)]
        inner = union([sub(p) for p in dyn])
        if consts and len(dyn) >= 2:
            return consts | (inner or set())
        return inner
    return None


def _taint_composed(ctx, f, seed=None):
    tainted = dict(seed or {})
    for _round in range(6):
        before = {k: set(v) for k, v in tainted.items()}
        for s in statements(f.node):
            if isinstance(s, ast.Assign):
                pairs = [(t, s.value) for t in s.targets]
            elif isinstance(s, ast.AnnAssign) and s.value is not None:
                pairs = [(s.target, s.value)]
            elif isinstance(s, ast.AugAssign) and isinstance(s.op, ast.Add):
                pairs = [(s.target, s.value)]
            else:
                continue
            for t, v in pairs:
                got = _composed(ctx, f, v, tainted)
                if not got:
                    continue
                for n in (t.elts if isinstance(t, (ast.Tuple, ast.List)) else [t]):
                    n = n.value if isinstance(n, ast.Starred) else n
                    if isinstance(n, ast.Name):
                        tainted.setdefault(n.id, set()).update(got)
        if tainted == before:
            break
    return tainted


def r8(ctx):
    """A block path is composed of its components and never parsed back: the components are tokens of the profile, a variant
    name among them is an arbitrary STRING, so a text made by joining components with a separator does not determine the
    components (join is not injective).  Looking for the separator in such a text to take a component off is therefore wrong
    for some profile (`http-get "cdn.example.com" { .. }`) - the path state must be kept as a sequence."""
    f = ctx.repo.func(f"{MOD}.C2Profile.as_dict")
    scope = _scope(ctx, f)
    text = "block paths are composed from their components, never taken apart at the separator"
    seeds = {h.fq: {} for h in scope}
    bad, und, n_composed = [], [], 0

    def only_composed(h, e, tainted):
        """Flow-insensitive taint by name: the verdict `violated` needs every definition of the cut name to be a composed
        text (or a constant, e.g. the empty initial path); a name that also holds something else is not located."""
        if not isinstance(e, ast.Name):
            return True
        for st, v in assignments_to(h.node, e.id):
            if v is None and isinstance(st, ast.Assign):
                v = st.value  # tuple unpacking of the pieces of a cut
            if v is None or not (isinstance(v, ast.Constant) or _composed(ctx, h, v, tainted)):
                return False
        return True

    for _pass in range(2):  # second pass: with the composed texts the helpers of the scope are handed
        bad, und, n_composed = [], [], 0
        for h in scope:
            tainted = _taint_composed(ctx, h, seeds[h.fq])
            fv = FuncView.of(h.node)
            for n in body_walk(h.node):
                is_join = isinstance(n, ast.Call) and isinstance(n.func, ast.Attribute) and n.func.attr == "join"
                if (is_join or isinstance(n, (ast.JoinedStr, ast.BinOp))) and not isinstance(fv.parent.get(id(n)), ast.BinOp) and _composed(ctx, h, n, {}):
                    n_composed += 1  # a composition site
                if not isinstance(n, ast.Call):
                    continue
                # a composed text handed to a helper of the scope stays a composed text there
                cal = ctx.rs.resolve_call(h, n)
                if cal.kind == "func" and cal.func is not None and cal.func in scope and cal.func.fq != h.fq:
                    for p, a in bind_args(n, cal.func.node, skip_self=bool(cal.func.cls) and isinstance(n.func, ast.Attribute)).items():
                        got = _composed(ctx, h, a, tainted) if a is not None else None
                        if got:
                            seeds[cal.func.fq].setdefault(p, set()).update(got)
                cut = arg = None
                if isinstance(n.func, ast.Attribute) and n.func.attr in _CUTTERS:
                    cut, arg = n.func.value, (n.args[0] if n.args else next((k.value for k in n.keywords if k.arg in ("sep", "sub")), None))
                    whitespace = arg is None  # split() without a separator cuts at whitespace
                elif (dotted(n.func) or "") in ("re.split", "re.findall", "re.finditer") and len(n.args) >= 2:
                    cut, whitespace = n.args[1], False
                if cut is None:
                    continue
                seps = _composed(ctx, h, cut, tainted)
                if not seps:
                    continue
                where = src(fv.stmt_of(n) or n)[:70]
                c = _const(ctx, h, arg) if arg is not None else None
                if whitespace:
                    hit = any(ch.isspace() for sp in seps for ch in sp)
                elif arg is None:
                    hit = True  # a regular expression over the composed text
                elif isinstance(c, str) and c:
                    hit = any(c in sp or sp in c for sp in seps)
                else:
                    und.append(where)
                    continue
                if hit:
                    (bad if only_composed(h, cut, tainted) or cut.id in seeds[h.fq] else und).append(where)
    if bad:
        ctx.ob("R8", "TAINT", f, text, False, "a text composed of path components (joined with " + "/".join(sorted({repr(x) for x in _all_seps(ctx, scope, seeds)})) + ") is searched for the separator to "
               f"take components off again: {sorted(set(bad))} - a component may contain the separator (a variant name is an arbitrary STRING token, e.g. 'cdn.example.com'), so the cut "
               "can fall inside a component and the path of everything that follows is wrong")
    elif und:
        ctx.undecided("R8", "TAINT", f, text, f"a name that may hold a composed path text is cut, but the separator is not a constant or the name also holds other values: {sorted(set(und))}")
    elif not n_composed:
        ctx.undecided("R8", "TAINT", f, text, "no composition of a block path (join / f-string / concatenation with a constant separator) located in as_dict")
    else:
        ctx.ob("R8", "TAINT", f, text, True, f"{n_composed} composed path text(s); none of them is searched for its separator (split/partition/find/index/re.split): the path state is kept as a sequence of components")


def _all_seps(ctx, scope, seeds):
    out = set()
    for h in scope:
        for v in _taint_composed(ctx, h, seeds[h.fq]).values():
            out |= v
        for n in body_walk(h.node):
            got = _composed(ctx, h, n, {}) if isinstance(n, ast.Call) else None
            out |= got or set()
    return out


# ============================================================================================================= R9
def _block_params(ctx, f):
    """Parameters of f (not self/cls) that stand for a block: some `X.tree` in f has the parameter among the origins of X."""
    ps = params(f.node)
    own = ps[0] if f.cls and ps and ps[0] in ("self", "cls") else None
    out = set()
    for n in body_walk(f.node):
        if isinstance(n, ast.Attribute) and n.attr == "tree" and isinstance(strip_cast(n.value), ast.Name):
            for o in reaching_origins(ctx, f, n.value, n):
                if isinstance(o, ast.Name) and o.id in ps and o.id != own:
                    out.add(o.id)
    return out


def _attach_scan(ctx, f, rooted, found, seen, depth=0):
    """Look at function f in which the parameters `rooted` (name -> "block" | "node" | "kids") stand for a block that is given
    to f / the root node of its tree / the children list of that node.  Records in found[f.fq]: the values f adds to a
    children list of self (classified as the given block's own root node, a fresh construction, or unknown), the writes that
    go into the given block's tree, and follows the block into package callees by argument binding."""
    rec = found.setdefault(f.fq, {"f": f, "alias": [], "fresh": 0, "unknown": [], "mut": [], "renames": []})
    fv = FuncView.of(f.node)

    def kinds(e, at, d=0):
        e = strip_cast(e) if e is not None else None
        out = set()
        if e is None or d > 8:
            return out
        if isinstance(e, ast.Name):
            for o in reaching_origins(ctx, f, e, at):
                if isinstance(o, ast.Name):
                    if o.id in rooted and o.id in params(f.node):
                        out.add(rooted[o.id])
                elif isinstance(o, ast.expr) and o is not e:
                    out |= kinds(o, o if fv.stmt_of(o) is not None else at, d + 1)
        elif isinstance(e, ast.Attribute):
            for k in kinds(e.value, at, d + 1):
                nxt = {("block", "tree"): "node", ("node", "children"): "kids", ("node", "data"): "name"}.get((k, e.attr))
                if nxt:
                    out.add(nxt)
        elif isinstance(e, ast.IfExp):
            out = kinds(e.body, at, d + 1) | kinds(e.orelse, at, d + 1)
        elif isinstance(e, ast.NamedExpr):
            out = kinds(e.value, at, d + 1)
        return out

    def text(n):
        return src(fv.stmt_of(n) or n)[:70]

    # values added to a children list that hangs off self
    def own_children(r):
        d = dotted(_inl(f, r)) or ""
        return d.startswith("self.") and d.endswith(".children")

    added = [(c, x) for c, _r, x in _appended(f, lambda d: bool(d) and d.startswith("self.") and d.endswith(".children"))]
    for c in fn_calls(f.node):
        if isinstance(c.func, ast.Attribute) and c.func.attr == "insert" and len(c.args) == 2 and own_children(c.func.value):
            added.append((c, c.args[1]))
    for s in statements(f.node):
        if isinstance(s, ast.Assign):
            for t in s.targets:
                if isinstance(t, ast.Subscript) and not isinstance(t.slice, ast.Slice) and own_children(t.value):
                    added.append((s, s.value))
    for at, x in added:
        ks = kinds(x, at)
        if "node" in ks:
            rec["alias"].append(text(at))
        elif all(isinstance(o, ast.Call) for o in reaching_origins(ctx, f, strip_cast(x), at)):
            rec["fresh"] += 1
        else:
            rec["unknown"].append(text(at))
    # writes into the tree of the block given
    for n in body_walk(f.node):
        if isinstance(n, (ast.Assign, ast.AugAssign, ast.AnnAssign, ast.Delete)):
            tgts = n.targets if isinstance(n, (ast.Assign, ast.Delete)) else [n.target]
            for t in tgts:
                for tt in (t.elts if isinstance(t, (ast.Tuple, ast.List)) else [t]):
                    if isinstance(tt, ast.Attribute):
                        base = kinds(tt.value, n)
                        if ("block" in base and tt.attr == "tree") or ("node" in base and tt.attr == "children"):
                            rec["mut"].append(text(n))
                        elif "node" in base and tt.attr == "data":
                            rec["renames"].append(text(n))
                    elif isinstance(tt, ast.Subscript) and "kids" in kinds(tt.value, n):
                        rec["mut"].append(text(n))
        elif isinstance(n, ast.Call):
            if isinstance(n.func, ast.Attribute) and n.func.attr in _LIST_MUTATORS and "kids" in kinds(n.func.value, n):
                rec["mut"].append(text(n))
            elif _is_call(n, "setattr") and isinstance(n.func, ast.Name) and len(n.args) == 3:
                base, name = kinds(n.args[0], n), _c(_inl(f, n.args[1]))
                if ("block" in base and name == "tree") or ("node" in base and name == "children") or (base & {"block", "node"} and not isinstance(name, str)):
                    rec["mut"].append(text(n))
                elif "node" in base and name == "data":
                    rec["renames"].append(text(n))
            # the block handed on to a function of the package
            cal = ctx.rs.resolve_call(f, n)
            h = cal.func if cal.kind == "func" else None
            if h is not None and h.module.name == f.module.name and depth < 4:
                method = bool(h.cls) and isinstance(n.func, ast.Attribute)
                for q, a in bind_args(n, h.node, skip_self=method).items():
                    for k in (kinds(a, n) if a is not None else set()) - {"name"}:
                        if (h.fq, q, k) not in seen:
                            seen.add((h.fq, q, k))
                            _attach_scan(ctx, h, {q: k}, found, seen, depth + 1)


# list methods that change the list they are called on
_LIST_MUTATORS = {"append", "extend", "insert", "pop", "remove", "clear", "sort", "reverse", "__setitem__", "__delitem__", "__iadd__"}


def r9(ctx):
    """Attaching a block to a parent: the place gets a node of its own and the block that is given stays as it was.  The name of
    a block node is the name of the *place* (client / server, transform-x86 / transform-x64 ...), and the grammar has the same
    kind of block at several places; a builder call sequence may hand one block object to several places.  If the node stored
    in the parent is the block's own root node, all those places hold one object and the name written last is the name of all
    of them; if attaching changes the statements of the block, the second place gets other statements than the first - in both
    cases the built profile is not the profile the same calls describe when written as text."""
    where = f"{MOD}.py::ConfigBlock"
    stored = ctx.repo.has_func(f"{MOD}.ConfigBlock.__init__") and any(a == "tree" for _s, a, _v in _self_stores(ctx.repo.func(f"{MOD}.ConfigBlock.__init__").node))
    found, seen = {}, set()
    for f in ctx.repo.module(MOD).funcs.values():
        for p in sorted(_block_params(ctx, f)):
            if (f.fq, p, "block") not in seen:
                seen.add((f.fq, p, "block"))
                _attach_scan(ctx, f, {p: "block"}, found, seen)
    sites = sum(len(r["alias"]) + r["fresh"] + len(r["unknown"]) for r in found.values())
    if not stored or not sites:
        ctx.undecided("R9", "ALIAS", where, "a block is attached through a node of its own", "no builder method that is given a block (a parameter whose `.tree` is read) and adds a node to self.tree.children located"
                      if stored else "ConfigBlock.__init__ does not store the block's tree as an attribute: cannot tell which object `<block>.tree` denotes")
        if not stored:
            return
    for fq in sorted(found):
        r = found[fq]
        f = r["f"]
        if r["alias"] or r["fresh"] or r["unknown"]:
            t = "a block is attached through a node of its own"
            if r["alias"]:
                ctx.ob("R9", "ALIAS", f, t, False, f"the node added to the parent is the root node of the block given, not a new one: {sorted(set(r['alias']))}"
                       + (f" (renamed in place: {sorted(set(r['renames']))})" if r["renames"] else "") + " - every place the same block object is attached to holds that one object, "
                       "so the place name written last (transform-x64 after transform-x86, server after client) names all of them and the built tree / text / dictionary view differ from the parsed profile")
            elif r["unknown"]:
                ctx.undecided("R9", "ALIAS", f, t, f"cannot tell what is added to the parent: {sorted(set(r['unknown']))}")
            else:
                ctx.ob("R9", "ALIAS", f, t, True, f"{r['fresh']} node(s) added to the parent, each a new object made at the attachment (the children list may be shared, the node that carries the place name is not)")
        ctx.ob("R9", "ALIAS", f, "the block given is left as it was", not r["mut"],
               "no write goes into the tree of the block that is given" if not r["mut"] else
               f"attaching changes the statements of the block that is given: {sorted(set(r['mut']))} - the same block object attached a second time contributes other statements than the first time")


# ============================================================================================================ R10
# decorators that make a function hand out the object it made for equal arguments again (functools and the usual names)
_MEMO = {"lru_cache", "cache", "cached", "memoize", "memoized", "memoise", "memoised", "cachedmethod"}
_CONTAINER_CALLS = {"dict", "list", "set", "OrderedDict", "defaultdict", "WeakValueDictionary", "LRUCache", "ChainMap", "deque"}
_LOOKUPS = {"get", "setdefault", "__getitem__"}
_STORERS = {"setdefault", "append", "add", "update", "__setitem__", "insert", "extend"}


def _module_bindings(mod):
    """Module-level name -> list of the expressions it is bound to (None for a binding that is not a plain expression), wherever
    the binding stands in the module's own scope (a plain statement, inside `with` / `if` / `try` / `for`)."""
    out = {}

    def names(t):
        return [n.id for n in ast.walk(t) if isinstance(n, ast.Name)]

    def visit(stmts):
        for st in stmts:
            if isinstance(st, (ast.FunctionDef, ast.AsyncFunctionDef, ast.ClassDef)):
                continue
            if isinstance(st, ast.Assign):
                for t in st.targets:
                    if isinstance(t, ast.Name):
                        out.setdefault(t.id, []).append(st.value)
                    elif isinstance(t, (ast.Tuple, ast.List)):
                        for n in names(t):
                            out.setdefault(n, []).append(None)
            elif isinstance(st, ast.AnnAssign) and isinstance(st.target, ast.Name) and st.value is not None:
                out.setdefault(st.target.id, []).append(st.value)
            elif isinstance(st, (ast.With, ast.AsyncWith)):
                for it in st.items:
                    for n in names(it.optional_vars) if it.optional_vars is not None else []:
                        out.setdefault(n, []).append(None)
            elif isinstance(st, (ast.For, ast.AsyncFor)):
                for n in names(st.target):
                    out.setdefault(n, []).append(None)
            for field in ("body", "orelse", "finalbody"):
                visit(getattr(st, field, None) or [])
            for h in getattr(st, "handlers", None) or []:
                visit(h.body)

    visit(mod.tree.body)
    return out


def _is_lark_construction(e):
    d = dotted(e.func) if isinstance(e, ast.Call) else None
    return bool(d) and ("." + d + ".").find(".Lark.") >= 0


def _is_container_construction(e):
    return isinstance(e, (ast.Dict, ast.List, ast.Set, ast.DictComp, ast.ListComp, ast.SetComp)) or (isinstance(e, ast.Call) and (dotted(e.func) or "").split(".")[-1] in _CONTAINER_CALLS)


def _memo_decorator(h):
    for d in h.node.decorator_list:
        name = (dotted(d.func if isinstance(d, ast.Call) else d) or "").split(".")[-1]
        if name in _MEMO:
            return name
    return None


class _Own:
    """Where the object stored as a profile's / block's tree comes from (R10): per defining expression that reaches the store one
    of ("fresh", why), ("shared", why), (None, why - not understood).  Terms are only classified, never evaluated."""

    def __init__(self, ctx):
        self.ctx = ctx
        self.glob = {}

    def bindings(self, mod):
        if mod.name not in self.glob:
            self.glob[mod.name] = _module_bindings(mod)
        return self.glob[mod.name]

    def global_object(self, f, e):
        """`e` names an object that exists once per process: a module-level name (not a local, not a parameter) or an attribute of
        the class (`self.X` / `cls.X` / `Class.X` with X bound in a class body).  -> (description, binding expressions) or None."""
        if isinstance(e, ast.Name):
            if e.id in params(f.node) or assignments_to(f.node, e.id):
                return None
            b = self.bindings(f.module).get(e.id)
            return (f"the module-level object `{e.id}`", b) if b is not None else None
        d = dotted(e) or ""
        if isinstance(e, ast.Attribute) and d.count(".") == 1:
            head, attr = d.split(".")
            cname = f.cls if head in ("self", "cls") else head if head in f.module.classes else None
            if cname and attr != "tree":
                try:
                    v = self.ctx.repo.class_attrs(f"{f.module.name}.{cname}").get(attr)
                except Exception:
                    v = None
                if v is not None and not any(a == attr for g in f.module.funcs.values() if g.cls == cname for _s, a, _v in _self_stores(g.node)):
                    return (f"the class-level object `{d}`", [v])
        return None

    def is_parser(self, f, e, depth=0):
        """The receiver of a `.parse(..)` call is a lark parser: a lark construction, a module-level name all of whose bindings are
        lark constructions, or the result of a package function that returns such a thing (memoised or not - the parser may be one
        object, each parse makes a new tree: trusted base)."""
        e = strip_cast(e)
        if _is_lark_construction(e):
            return True
        g = self.global_object(f, e) if isinstance(e, ast.Name) else None
        if g is not None:
            return bool(g[1]) and all(b is not None and _is_lark_construction(b) for b in g[1])
        if isinstance(e, ast.Name):
            os_ = reaching_origins(self.ctx, f, e, e)
            return bool(os_) and all(o is not e and self.is_parser(f, o, depth + 1) for o in os_) if depth < 3 else False
        if isinstance(e, ast.Call) and depth < 3:
            cal = self.ctx.rs.resolve_call(f, e)
            h = cal.func if cal.kind == "func" else None
            if h is not None:
                rets = [r for r in statements(h.node) if isinstance(r, ast.Return) and r.value is not None]
                return bool(rets) and all(self.is_parser(h, r.value, depth + 1) for r in rets)
        return False

    def kept_globally(self, f, made):
        """Is the object the call `made` creates also put into an object that exists once per process (a hand-made cache)?"""
        ctx = self.ctx

        def is_made(v, at):
            v = strip_cast(v)
            return v is made or (isinstance(v, ast.Name) and any(o is made for o in reaching_origins(ctx, f, v, at)))

        for s in statements(f.node):
            if isinstance(s, ast.Assign):
                for t in s.targets:
                    base = t.value if isinstance(t, (ast.Subscript, ast.Attribute)) else None
                    g = self.global_object(f, base) if base is not None else None
                    if g is not None and is_made(s.value, s.value):
                        return g[0]
        for c in fn_calls(f.node):
            if isinstance(c.func, ast.Attribute) and c.func.attr in _STORERS:
                g = self.global_object(f, c.func.value)
                if g is not None and any(is_made(a, c) for a in list(c.args) + [k.value for k in c.keywords]):
                    return g[0]
        return None

    def classify(self, f, e, at, depth=0):
        ctx = self.ctx
        if e is None or depth > 4:
            return [(None, "not followed further")]
        fv = FuncView.of(f.node)
        out = []

        def sub(x):
            return self.classify(f, x, x if fv.stmt_of(x) is not None else at, depth + 1)

        for o in reaching_origins(ctx, f, e, at):
            o = strip_cast(o)
            if isinstance(o, ast.IfExp):
                out += sub(o.body) + sub(o.orelse)
            elif isinstance(o, ast.NamedExpr):
                out += sub(o.value)
            elif isinstance(o, ast.BoolOp):
                for v in o.values:
                    out += sub(v)
            elif isinstance(o, ast.Call):
                out.append(self.classify_call(f, o, depth))
            elif isinstance(o, (ast.Name, ast.Attribute)):
                g = self.global_object(f, o)
                if g is not None:
                    out.append(("shared", f"{g[0]}: one object for every profile made this way"))
                elif isinstance(o, ast.Name) and o.id in params(f.node):
                    dflt = param_defaults(f.node).get(o.id)
                    if dflt is not None and not isinstance(dflt, ast.Constant):
                        out.append(("shared", f"the default value `{src(dflt)[:40]}` of parameter `{o.id}` is made once, when the function is defined"))
                    else:
                        out.append((None, f"parameter `{o.id}`"))
                else:
                    out.append((None, f"`{src(o)[:40]}`"))
            elif isinstance(o, ast.Subscript):
                g = self.global_object(f, strip_cast(o.value))
                if g is not None:
                    out.append(("shared", f"an element of {g[0]}: what is looked up there is handed out to every profile that looks it up"))
                else:
                    out.append((None, f"`{src(o)[:40]}`"))
            else:
                out.append((None, f"`{src(o)[:40]}`"))
        return out

    def classify_call(self, f, o, depth):
        ctx = self.ctx
        name = (dotted(o.func) or "").split(".")[-1]
        if name == "deepcopy" and len(o.args) >= 1:
            return ("fresh", "a deep copy")
        if name == "Tree" and not isinstance(o.func, ast.Attribute) or (dotted(o.func) or "") in ("lark.Tree", "lark.tree.Tree"):
            kw = {k.arg: k.value for k in o.keywords if k.arg}
            kids = o.args[1] if len(o.args) > 1 else kw.get("children")
            if kids is not None:
                for tag, why in self.classify(f, kids, kids if FuncView.of(f.node).stmt_of(kids) is not None else o, depth + 1):
                    if tag == "shared":
                        return ("shared", "the children list of the new node is " + why)
            return ("fresh", "a Tree(..) made at the store")
        if isinstance(o.func, ast.Attribute) and o.func.attr == "parse" and self.is_parser(f, o.func.value):
            kept = self.kept_globally(f, o)
            if kept:
                return ("shared", f"the tree the parser made is also kept in {kept} (and found there by the next caller)")
            return ("fresh", "the result of a parse (lark makes a new tree per parse)")
        if isinstance(o.func, ast.Attribute) and o.func.attr in _LOOKUPS:
            g = self.global_object(f, strip_cast(o.func.value))
            if g is not None and g[1] and all(b is not None and _is_container_construction(b) for b in g[1]):
                return ("shared", f"looked up in {g[0]}: what is kept there is handed out to every profile that looks it up")
        if isinstance(o, ast.Call) and isinstance(o.func, (ast.List, ast.ListComp)):
            return (None, f"`{src(o)[:40]}`")
        try:
            cal = ctx.rs.resolve_call(f, o)
        except Exception:
            return (None, f"`{src(o)[:40]}`")
        h = cal.func if cal.kind == "func" else None
        if h is not None and h.module.name == f.module.name:
            memo = _memo_decorator(h)
            if memo:
                return ("shared", f"{h.qualname} is memoised (@{memo}): for equal arguments it hands out the very object it made the first time")
            rets = [r for r in statements(h.node) if isinstance(r, ast.Return) and r.value is not None]
            if rets and depth < 4:
                got = [x for r in rets for x in self.classify(h, r.value, r.value, depth + 1)]
                for tag, why in got:
                    if tag == "shared":
                        return ("shared", f"{h.qualname} returns " + why)
                if all(tag == "fresh" for tag, _w in got):
                    return ("fresh", f"{h.qualname} returns a new object on every path")
        return (None, f"`{src(o)[:40]}`")


def _tree_stores(f):
    """(statement, object expression, value expression) for every store into an attribute `tree`: `X.tree = V` (also as one of
    several targets), `setattr(X, "tree", V)`."""
    out = []
    for s in statements(f.node):
        if isinstance(s, (ast.Assign, ast.AnnAssign)) and s.value is not None:
            for t in (s.targets if isinstance(s, ast.Assign) else [s.target]):
                if isinstance(t, ast.Attribute) and t.attr == "tree":
                    out.append((s, t.value, s.value))
                elif isinstance(t, (ast.Tuple, ast.List)) and isinstance(s.value, (ast.Tuple, ast.List)) and len(t.elts) == len(s.value.elts):
                    out.extend((s, te.value, ve) for te, ve in zip(t.elts, s.value.elts) if isinstance(te, ast.Attribute) and te.attr == "tree")
        elif isinstance(s, ast.Expr) and _is_call(s.value, "setattr") and isinstance(s.value.func, ast.Name) and len(s.value.args) == 3 and _c(s.value.args[1]) == "tree":
            out.append((s, s.value.args[0], s.value.args[2]))
    return out


def r10(ctx):
    """Every profile (and block) owns the tree it reports.  All builder methods change `self.tree.children` in place and the views
    (as_dict, as_text, tree) read `self.tree`; so if the object stored as the tree of one profile is also the tree of another one
    (or is kept somewhere it is handed out from again), a modification of one profile shows in the views of the other - a profile
    then reports statements that are not written in its text, and its view changes although it was not modified."""
    own = _Own(ctx)
    text = "the tree stored into a profile is an object of its own"
    n = 0
    for f in ctx.repo.module(MOD).funcs.values():
        stores = _tree_stores(f)
        if not stores:
            continue
        shared, unknown, fresh = [], [], []
        for s, _x, v in stores:
            for tag, why in own.classify(f, v, v):
                (shared if tag == "shared" else fresh if tag == "fresh" else unknown).append(f"`{src(s)[:60]}`: {why}")
        n += len(stores)
        if shared:
            ctx.ob("R10", "ALIAS", f, text, False, "; ".join(sorted(set(shared))) + " - the builder methods append to self.tree.children in place, so a modification of one profile "
                   "shows in the dictionary view, the text and the tree of every other profile that holds the same object (and of profiles made later the same way)", stores[0][0])
        elif unknown:
            ctx.undecided("R10", "ALIAS", f, text, f"cannot tell where the stored object comes from: {sorted(set(unknown))}", stores[0][0])
        else:
            ctx.ob("R10", "ALIAS", f, text, True, f"{len(stores)} store(s), each of a new object: {sorted(set(fresh))}")
    # the initial tree: made per instance in the constructor (not a class-level object the instances share)
    where = f"{MOD}.py::ConfigBlock"
    init = ctx.repo.func(f"{MOD}.ConfigBlock.__init__") if ctx.repo.has_func(f"{MOD}.ConfigBlock.__init__") else None
    if init is None or not any(dotted(x) == "self" for _s, x, _v in _tree_stores(init)):
        cls_tree = ctx.repo.class_attrs(f"{MOD}.ConfigBlock").get("tree") if "ConfigBlock" in ctx.repo.module(MOD).classes else None
        if isinstance(cls_tree, ast.Call):
            ctx.ob("R10", "ALIAS", where, "every block starts with a tree of its own", False, f"the tree is the class-level object `{src(cls_tree)[:50]}`, shared by all instances that do not replace it")
        else:
            ctx.undecided("R10", "ALIAS", where, "every block starts with a tree of its own", "no store of self.tree located in ConfigBlock.__init__")
    ctx.rep.count("tree_stores", n, floor=2)


# ============================================================================================================ R11
# what isinstance(x, T) says for an object whose type is exactly one of the builtin types below (CPython data model; the abstract
# classes are those of collections.abc / typing that str, tuple and list are registered with)
_BUILTIN_TYPES = {"str", "bytes", "bytearray", "dict", "set", "frozenset", "int", "float", "bool", "complex", "tuple", "list", "memoryview", "range", "type"}
_ABC_OF_SEQUENCES = {"Sequence", "Iterable", "Sized", "Collection", "Container", "Reversible", "object"}
_UNKNOWN = object()


def _type_names(e):
    if isinstance(e, ast.Name):
        return [e.id]
    if isinstance(e, ast.Attribute):
        return [e.attr]
    if isinstance(e, ast.Tuple):
        parts = [_type_names(x) for x in e.elts]
        return None if any(p is None for p in parts) else [n for p in parts for n in p]
    if isinstance(e, ast.BinOp) and isinstance(e.op, ast.BitOr):  # X | Y
        l, r = _type_names(e.left), _type_names(e.right)
        return None if l is None or r is None else l + r
    return None


def _is_instance(kind, names):
    """isinstance(<object of exact builtin type `kind`>, <the types named>) - None when a name is not in the vocabulary."""
    if names is None:
        return None
    if kind in names or set(names) & _ABC_OF_SEQUENCES:
        return True
    if "MutableSequence" in names and kind == "list":
        return True
    if all(n in _BUILTIN_TYPES or n == "MutableSequence" for n in names):
        return False
    return None


def _form_truth(ctx, f, test, var, form):
    """Three-valued truth of `test` (temporaries already substituted) when the name `var` holds a step of the given form:
    ("pair", "tuple" | "list") - a two-element sequence of that builtin type; ("name", L) - the string L.  Only what follows from
    the form by the data model is decided (type tests, len, truthiness, identity with None, equality with / membership in
    constants); everything else is None (unknown).  Nothing is executed: the only values compared are constants of the code."""
    kind = form[1] if form[0] == "pair" else "str"

    def is_var(e):
        return isinstance(e, ast.Name) and e.id == var

    def value(e):
        """A known value of a sub-expression under the form, else _UNKNOWN."""
        e = strip_cast(e)
        if is_var(e):
            return form[1] if form[0] == "name" else _UNKNOWN
        if _is_call(e, "len") and isinstance(e.func, ast.Name) and len(e.args) == 1 and is_var(strip_cast(e.args[0])):
            return 2 if form[0] == "pair" else len(form[1])
        if any(is_var(n) for n in ast.walk(e)):
            return _UNKNOWN
        if isinstance(e, ast.Constant):
            return e.value
        v = _const(ctx, f, e)
        return v if v is not None else _UNKNOWN

    def ev(e):
        e = strip_cast(e)
        if isinstance(e, ast.UnaryOp) and isinstance(e.op, ast.Not):
            v = ev(e.operand)
            return None if v is None else not v
        if isinstance(e, ast.BoolOp):
            vals = [ev(v) for v in e.values]
            if isinstance(e.op, ast.And):
                return False if any(v is False for v in vals) else True if all(v is True for v in vals) else None
            return True if any(v is True for v in vals) else False if all(v is False for v in vals) else None
        if is_var(e):
            return True if form[0] == "pair" else bool(form[1])
        if isinstance(e, ast.Call) and isinstance(e.func, ast.Name) and e.func.id == "isinstance" and len(e.args) == 2 and not e.keywords and is_var(strip_cast(e.args[0])):
            return _is_instance(kind, _type_names(_inl(f, e.args[1])))
        if isinstance(e, ast.Compare) and len(e.ops) == 1:
            l, op, r = strip_cast(e.left), e.ops[0], strip_cast(e.comparators[0])
            # type(x) is T / type(x) == T / type(x) in (T, ..)
            for a, b in ((l, r), (r, l)):
                if _is_call(a, "type") and isinstance(a.func, ast.Name) and len(a.args) == 1 and is_var(strip_cast(a.args[0])):
                    names = _type_names(_inl(f, b))
                    if names is None or not all(n in _BUILTIN_TYPES for n in names):
                        return None
                    if isinstance(op, (ast.Is, ast.Eq, ast.In)) and (a is l or not isinstance(op, ast.In)):
                        return kind in names
                    if isinstance(op, (ast.IsNot, ast.NotEq, ast.NotIn)) and (a is l or not isinstance(op, ast.NotIn)):
                        return kind not in names
                    return None
            if isinstance(op, (ast.Is, ast.IsNot)):
                for a, b in ((l, r), (r, l)):
                    if is_var(a) and isinstance(b, ast.Constant) and b.value is None:
                        return isinstance(op, ast.IsNot)
                return None
            lv, rv = value(l), value(r)
            if form[0] == "pair" and (is_var(l) or is_var(r)):
                other = rv if is_var(l) else lv
                if other is _UNKNOWN:
                    return None
                if isinstance(op, (ast.Eq, ast.NotEq)) and isinstance(other, (str, bytes, int, float, type(None))):
                    return isinstance(op, ast.NotEq)  # a tuple / list is equal to no string, number or None
                if isinstance(op, (ast.In, ast.NotIn)) and is_var(l) and isinstance(other, (list, tuple, set, frozenset, dict)) and all(isinstance(x, (str, bytes, int, float, type(None))) for x in other):
                    return isinstance(op, ast.NotIn)
                return None
            if lv is _UNKNOWN or rv is _UNKNOWN:
                return None
            try:
                if isinstance(op, ast.Eq):
                    return lv == rv
                if isinstance(op, ast.NotEq):
                    return lv != rv
                if isinstance(op, (ast.In, ast.NotIn)) and isinstance(rv, (list, tuple, set, frozenset, dict)):
                    return (lv in rv) == isinstance(op, ast.In)
                if isinstance(lv, int) and isinstance(rv, int):
                    if isinstance(op, ast.Lt):
                        return lv < rv
                    if isinstance(op, ast.LtE):
                        return lv <= rv
                    if isinstance(op, ast.Gt):
                        return lv > rv
                    if isinstance(op, ast.GtE):
                        return lv >= rv
            except TypeError:
                return None
        return None

    return ev(test)


def _steps_loops(ctx, f, sink_attrs):
    """The `for` loops of f over (a parameter of f) whose body adds to the block: (loop, element name, sink statements)."""
    fv = FuncView.of(f.node)
    cfg = ctx.cfg(f)
    ps = [p for p in params(f.node) if p not in ("self", "cls")]

    def from_param(e, at, d=0):
        e = strip_cast(e)
        if d > 5:
            return False
        if isinstance(e, ast.Name):
            os_ = reaching_origins(ctx, f, e, at)
            return bool(os_) and all((o is e and e.id in ps) if isinstance(o, ast.Name) else (o is not e and from_param(o, o if fv.stmt_of(o) is not None else at, d + 1)) for o in os_)
        if isinstance(e, ast.BoolOp) and isinstance(e.op, ast.Or):
            return from_param(e.values[0], at, d + 1) and all(isinstance(v, (ast.List, ast.Tuple)) and not v.elts or (isinstance(v, ast.Constant) and not v.value) for v in e.values[1:])
        if isinstance(e, ast.IfExp):
            alts = [x for x in (e.body, e.orelse) if not ((isinstance(x, (ast.List, ast.Tuple)) and not x.elts) or (isinstance(x, ast.Constant) and not x.value))]
            return len(alts) == 1 and from_param(alts[0], at, d + 1)
        if _is_call(e, "list", "tuple", "iter") and isinstance(e.func, ast.Name) and len(e.args) == 1 and not e.keywords:
            return from_param(e.args[0], at, d + 1)
        return False

    sinks = []
    for c in fn_calls(f.node):
        if any(m in ("add_step", "add_termination") for m, _x in _callee_alternatives(f, c.func)):
            sinks.append(c)
    sinks += [c for c, r, _x in _appended(f, lambda d: d in sink_attrs)]
    out, problems = [], []
    for loop in [s for s in statements(f.node) if isinstance(s, ast.For)]:
        inside = {id(n) for n in ast.walk(loop)}
        mine = [c for c in sinks if id(c) in inside]
        if not mine:
            continue
        it, tgt = strip_cast(loop.iter), loop.target
        if _is_call(it, "enumerate") and isinstance(it.func, ast.Name) and it.args and isinstance(tgt, ast.Tuple) and len(tgt.elts) == 2:
            it, tgt = strip_cast(it.args[0]), tgt.elts[1]
        if not isinstance(tgt, ast.Name) or not from_param(it, loop.iter):
            problems.append(f"`for {src(loop.target)} in {src(loop.iter)[:40]}` is not a loop over the steps given (a parameter), element by element")
            continue
        sts = [fv.stmt_of(c) if not isinstance(c, ast.stmt) else c for c in mine]
        if any(s is None or not cfg.has(s) for s in sts) or not cfg.has(loop):
            problems.append("an add_step / add_termination call stands in a statement the control-flow graph does not model")
            continue
        out.append((loop, tgt.id, sts))
    return out, problems


def r11(ctx):
    """Every step that is given to the data-transform builder is added to the block.  The builder takes a list of steps; a step is
    a statement name (a string the constructor dispatches on) or a (statement, argument) pair - a two-element sequence, as a tuple or
    as a list (what json / yaml loaders make of a pair; ExecuteOptionsBlock.from_execute_list of the same module accepts both).  The
    text of the same profile has one statement per step, so a step the constructor passes over without calling add_step /
    add_termination is missing from the built tree, text and dictionary view."""
    import networkx as nx

    cname = "DataTransformBlock"
    if cname not in ctx.repo.module(MOD).classes:
        ctx.undecided("R11", "EXIT", f"{MOD}.py", "every step given to the data-transform builder is added", f"class {cname} not located")
        return
    # the lists the tree property wraps
    sink_attrs = set()
    for meth in ("add_step", "add_termination"):
        if ctx.repo.has_func(f"{MOD}.{cname}.{meth}"):
            m = ctx.repo.func(f"{MOD}.{cname}.{meth}")
            sink_attrs |= {r for _c0, r, _x in _appended(m, lambda d: bool(d) and d.startswith("self.") and d.count(".") == 1)}
    located = 0
    for f in [g for g in ctx.repo.module(MOD).funcs.values() if g.cls == cname and g.qualname.split(".")[-1] not in ("add_step", "add_termination")]:
        loops, problems = _steps_loops(ctx, f, sink_attrs)
        for p in problems:
            located += 1
            ctx.undecided("R11", "EXIT", f, "every step given to the data-transform builder is added", p)
        if len(loops) > 1:
            ctx.undecided("R11", "EXIT", f, "every step given to the data-transform builder is added", f"{len(loops)} loops over the steps add to the block: which of them is responsible for a step is not located")
            located += 1
            continue
        for loop, var, sink_stmts in loops:
            located += 1
            cfg = ctx.cfg(f)
            inside = {id(n) for n in ast.walk(loop)}
            src_n, targets = cfg.edge_node(loop, "iter"), [cfg.node(loop), EXIT]
            sink_nodes = {cfg.node(s) for s in sink_stmts}
            # the statement names the constructor dispatches on: literals the element is compared with / tested for membership in
            names = []
            for n in ast.walk(loop):
                if isinstance(n, ast.Compare) and len(n.ops) == 1 and isinstance(n.left, ast.Name) and n.left.id == var:
                    rd = q_reaching_defs(ctx, f, var, n)
                    if not rd or not all(d is loop for d, _v in rd):
                        continue  # the name holds something else there (the first element of an unpacked pair ...)
                    v = _const(ctx, f, n.comparators[0])
                    vs = [v] if isinstance(v, str) else list(v) if isinstance(v, (list, tuple, set, frozenset, dict)) else []
                    if isinstance(n.ops[0], (ast.In, ast.NotIn, ast.Eq, ast.NotEq)):
                        names += [x for x in vs if isinstance(x, str) and x not in names]
            forms = [("pair", "tuple"), ("pair", "list")] + [("name", x) for x in sorted(names)]
            results = {}
            for form in forms:
                dg = cfg.g.copy()
                maybe = set()
                for node, st in cfg.stmt.items():
                    if id(st) not in inside or st is loop:
                        continue
                    if isinstance(st, ast.ExceptHandler):
                        maybe |= {(p, node) for p in cfg.g.predecessors(node)}
                    elif isinstance(st, (ast.For, ast.AsyncFor)):
                        maybe |= {(node, s) for s in cfg.g.successors(node)}
                    elif isinstance(st, (ast.If, ast.While)):
                        # the facts are about the element the loop binds: they hold for the name only where that binding is the one that reaches
                        rd = q_reaching_defs(ctx, f, var, st.test)
                        mentions = any(isinstance(x, ast.Name) and x.id == var for x in ast.walk(_inl(f, st.test, stop={var})))
                        v = _form_truth(ctx, f, _inl(f, st.test, stop={var}), var, form) if (not mentions or (rd and all(d is loop for d, _v in rd))) else None
                        t, fl = cfg.edge_node(st, "true"), cfg.edge_node(st, "false")
                        if v is True and dg.has_edge(node, fl):
                            dg.remove_edge(node, fl)
                        elif v is False and dg.has_edge(node, t):
                            dg.remove_edge(node, t)
                        elif v is None:
                            maybe |= {(node, s) for s in (t, fl) if dg.has_edge(node, s)}
                handler_edges = {e for e in maybe if isinstance(cfg.stmt.get(e[1]), ast.ExceptHandler)}
                may = dg.copy()
                may.remove_nodes_from(sink_nodes)
                # must-analysis (least fixpoint): the next step is reached without an add call from a node if it is from *every*
                # successor the form leaves open (both edges of a test the form does not decide, both edges of an inner loop);
                # edges into exception handlers are left out (the normal continuation of a statement is taken to be possible)
                dg.remove_edges_from([e for e in handler_edges if dg.has_edge(*e)])
                drops = set(t for t in targets if t in dg)
                changed = True
                while changed:
                    changed = False
                    for node in dg.nodes:
                        if node in drops or node in sink_nodes or node == cfg.node(loop):
                            continue
                        succ = list(dg.successors(node))
                        if succ and all(x in drops for x in succ):
                            drops.add(node)
                            changed = True
                witness = None
                if src_n in drops:
                    witness, cur, seen_w = [], src_n, set()
                    while cur not in targets and cur not in seen_w:
                        seen_w.add(cur)
                        if cur in cfg.stmt:
                            witness.append(cfg.describe(cur))
                        cur = next(iter(dg.successors(cur)))
                if witness is not None:
                    results[form] = ("violated", witness)
                elif any(src_n in may and tg in may and nx.has_path(may, src_n, tg) for tg in targets):
                    results[form] = ("undecided", None)
                else:
                    results[form] = ("ok", None)
            for kind in ("tuple", "list"):
                verdict, witness = results[("pair", kind)]
                text = f"a (statement, argument) step given as a {kind} is added to the block"
                if verdict == "violated":
                    ctx.ob("R11", "EXIT", f, text, False, f"for a two-element {kind} the tests of the loop body are decided by its type and length alone, and the next step is reached without a call of "
                           f"add_step / add_termination: {' -> '.join(witness)[:300]} - the step is passed over silently and is missing from the built tree, text and dictionary view "
                           "(the same profile written as text has it)", loop)
                elif verdict == "undecided":
                    ctx.undecided("R11", "EXIT", f, text, "a path through the loop body that passes no add_step / add_termination call exists only through tests the form of the step does not decide", loop)
                else:
                    ctx.ob("R11", "EXIT", f, text, True, f"every path through the loop body that a two-element {kind} can take passes a call of add_step / add_termination")
            bad = sorted(x for (k, x), (verdict, _w) in results.items() if k == "name" and verdict == "violated")
            und = sorted(x for (k, x), (verdict, _w) in results.items() if k == "name" and verdict == "undecided")
            text = "a statement name the constructor dispatches on is added to the block"
            if not names:
                ctx.undecided("R11", "EXIT", f, text, "no comparison of the step with constant statement names located in the loop")
            elif bad:
                ctx.ob("R11", "EXIT", f, text, False, f"given as a string, these names reach the next step without a call of add_step / add_termination: {bad}", loop)
            elif und:
                ctx.undecided("R11", "EXIT", f, text, f"not decided by the name alone: {und}", loop)
            else:
                ctx.ob("R11", "EXIT", f, text, True, f"each of {sorted(names)} given as a string passes a call of add_step / add_termination on every path")
    if not located:
        ctx.undecided("R11", "EXIT", f"{MOD}.py::{cname}", "every step given to the data-transform builder is added", "no loop over the steps given (a parameter) that calls add_step / add_termination located")


# ============================================================================================================= R12
# projections that keep neither every element nor the order of what they are given (fixed vocabulary of the builtins / the standard
# library, one line of reason each; nothing is evaluated)
_COLLAPSING = {
    "dict": "dict(..) keeps one entry per name: of several pairs with one name only the position of the first and the value of the last remain",
    "OrderedDict": "OrderedDict(..) keeps one entry per name: of several pairs with one name only the position of the first and the value of the last remain",
    "defaultdict": "a dictionary keeps one entry per name",
    "fromkeys": "dict.fromkeys(..) keeps one entry per element",
    "Counter": "a Counter keeps one entry per element",
    "set": "set(..) keeps one element per value and has no order of its own",
    "frozenset": "frozenset(..) keeps one element per value and has no order of its own",
    "sorted": "sorted(..) puts the items into another order than the one given",
    "reversed": "reversed(..) yields the items back to front",
    "unique_everseen": "drops every repeated element",
    "groupby": "itertools.groupby merges neighbouring elements with one key into one group",
}
_COLLAPSING_HOMES = ("collections", "itertools", "more_itertools", "builtins", "dict", "OrderedDict")  # `collections.OrderedDict(..)`, `dict.fromkeys(..)`
_MAPPING_MAKERS = ("dict", "OrderedDict")
_MAPPING_TYPES = {"dict", "Mapping", "MutableMapping", "OrderedDict", "defaultdict", "ChainMap"}
_AS_GIVEN_CALLS = ("list", "tuple", "iter", "enumerate")
_GROWERS = ("add", "append", "extend", "update", "insert", "setdefault", "appendleft", "discard", "remove", "pop", "clear")


def _all_params(fn):
    a = fn.args
    return [p for p in params(fn) + [x.arg for x in (a.vararg, a.kwarg) if x is not None] if p not in ("self", "cls")]


def _is_empty_const(x):
    return (isinstance(x, (ast.List, ast.Tuple, ast.Dict)) and not getattr(x, "elts", getattr(x, "keys", None))) or (isinstance(x, ast.Constant) and not x.value) \
        or (_is_call(x, "list", "tuple", "dict") and isinstance(x.func, ast.Name) and not x.args and not x.keywords)


def _mapping_fact(ctx, f, node, arg):
    """Is `arg` (a parameter that nothing has been assigned to) known to be a mapping where `node` is evaluated?  Facts of the dominating
    branch edges / enclosing conditional expressions: isinstance(arg, <mapping types>) or hasattr(arg, "items" | "keys") holds."""
    arg = strip_cast(arg)
    if not isinstance(arg, ast.Name):
        return False
    rd = q_reaching_defs(ctx, f, arg.id, node)
    if not rd or not all(st is f.node for st, _v in rd):
        return False
    for atom, pol in _facts_at(ctx, f, node):
        if not (pol and isinstance(atom, ast.Call) and isinstance(atom.func, ast.Name) and len(atom.args) == 2 and not atom.keywords):
            continue
        subject = strip_cast(atom.args[0])
        if not (isinstance(subject, ast.Name) and subject.id == arg.id):
            continue
        if atom.func.id == "isinstance":
            names = _type_names(atom.args[1])
            if names and set(names) <= _MAPPING_TYPES:
                return True
        if atom.func.id == "hasattr" and _c(atom.args[1]) in ("items", "keys"):
            return True
    return False


def _empty_container(v):
    """"dict" / "set" / "list" for the construction of an empty container of that kind, else None."""
    v = strip_cast(v)
    if isinstance(v, ast.Dict) and not v.keys:
        return "dict"
    if isinstance(v, (ast.List, ast.Tuple)) and not v.elts:
        return "list"
    if isinstance(v, ast.Call) and not v.keywords:
        name = (dotted(v.func) or "").split(".")[-1]
        if name in ("dict", "OrderedDict") and not v.args or name == "defaultdict" and len(v.args) <= 1:
            return "dict"
        if name in ("set",) and not v.args:
            return "set"
        if name in ("list", "deque") and not v.args:
            return "list"
    return None


def _relay_class(ctx, f, name, kind, ps, depth):
    """A local container that starts empty and is filled inside a loop over the items given (one level of relay): a dictionary filled by
    name / a set keeps one entry per name ("lossy"); a list filled item by item is not followed further ("unknown"); a container that no
    loop over a parameter fills is not what the rule talks about ("other")."""
    out = set()
    for loop in [s for s in statements(f.node) if isinstance(s, (ast.For, ast.AsyncFor))]:
        fills = False
        for st in loop.body:
            for n in ast.walk(st):
                if isinstance(n, ast.Subscript) and isinstance(n.ctx, ast.Store) and isinstance(n.value, ast.Name) and n.value.id == name:
                    fills = True
                elif isinstance(n, ast.Call) and isinstance(n.func, ast.Attribute) and n.func.attr in _GROWERS and isinstance(n.func.value, ast.Name) and n.func.value.id == name:
                    fills = True
        if not fills:
            continue
        inner = _given_class(ctx, f, loop.iter, loop, ps, frozenset(id(x) for b in loop.body for x in ast.walk(b)), depth + 1)
        if all(s == "other" for s, _w in inner):
            continue
        out |= {(s, w) for s, w in inner if s not in ("given", "other")}
        if kind in ("dict", "set"):
            out.add(("lossy", f"the items are first collected in the {kind} `{name}`, filled inside `for {src(loop.target)[:30]} in {src(loop.iter)[:30]}`: a {kind} keeps one entry per name"
                     + (" (the position of the first, the value of the last)" if kind == "dict" else "")))
        else:
            out.add(("unknown", f"the items are first collected in the list `{name}`; how it is filled is not followed"))
    return out or {("other", "")}


def _given_class(ctx, f, e, at, ps, skip=frozenset(), depth=0):
    """How the iterable `e` (evaluated at statement/expression `at` of f) relates to the items a caller gave: a set of (status, reason):
    "given"   - a parameter of f itself, possibly through wrappers that keep every element and the order (`x or []`, list / tuple / iter /
                enumerate, `.items()` / `.copy()` of the object given, an identity slice, a comprehension without a filter);
    "lossy"   - through a projection of `_COLLAPSING`, a dict / set comprehension, a reversing or cutting slice;
    "unknown" - rooted in a parameter, through something the rule does not know;
    "other"   - not rooted in a parameter of f (a local collection, an attribute of an object given: not what this rule talks about).
    Definitions are followed flow-sensitively (reaching definitions); `skip` are statements whose definitions do not count (the body of the
    loop whose iterable is judged: the iterable is evaluated once, before the first iteration)."""
    e = strip_cast(e)
    if depth > 8:
        return {("unknown", "definitions nested too deeply")}

    def sub(x, where=None):
        return _given_class(ctx, f, x, where if where is not None else at, ps, skip, depth + 1)

    def through(inner, status, why):
        """the verdict of a wrapper of `inner`"""
        return {("other", "")} if all(s == "other" for s, _w in inner) else ({(s, w) for s, w in inner if s != "given" and s != "other"} | {(status, why)})

    if isinstance(e, ast.Name):
        rd = [(st, v) for st, v in q_reaching_defs(ctx, f, e.id, at) if id(st) not in skip]
        if not rd:
            return {("given", "") if e.id in ps and not assignments_to(f.node, e.id) else ("other", "")}  # *args / **kwargs
        out = set()
        for st, v in rd:
            if st is f.node:
                out.add(("given", "") if e.id in ps else ("other", ""))
            elif v is None:
                out.add(("other", ""))  # a loop variable, an unpacked element, a with-target ...
            elif _empty_container(v) is not None:
                out |= _relay_class(ctx, f, e.id, _empty_container(v), ps, depth)
            else:
                out |= sub(v, st)
        return out
    if isinstance(e, ast.NamedExpr):
        return sub(e.value)
    if isinstance(e, ast.BoolOp) and isinstance(e.op, ast.Or) and all(_is_empty_const(v) for v in e.values[1:]):
        return sub(e.values[0])
    if isinstance(e, ast.IfExp):
        alts = [x for x in (e.body, e.orelse) if not _is_empty_const(x)]
        out = set()
        for x in alts:
            out |= sub(x)
        return out or {("other", "")}
    if isinstance(e, ast.Starred):
        return sub(e.value)
    if isinstance(e, ast.Call):
        name = (dotted(e.func) or "").split(".")[-1] if dotted(e.func) else (e.func.attr if isinstance(e.func, ast.Attribute) else None)
        first = e.args[0] if e.args else None
        if isinstance(e.func, ast.Name) and name in _AS_GIVEN_CALLS and first is not None and len(e.args) == 1 and not e.keywords:
            return sub(first)
        if isinstance(e.func, ast.Attribute) and name in ("items", "copy") and not e.args and not e.keywords:
            return sub(e.func.value)
        known_home = isinstance(e.func, ast.Name) or (isinstance(e.func, ast.Attribute) and (dotted(e.func.value) or "").split(".")[-1] in _COLLAPSING_HOMES)
        if name in _COLLAPSING and first is not None and known_home:
            inner = sub(first)
            if name in _MAPPING_MAKERS and len(e.args) == 1 and not e.keywords and _mapping_fact(ctx, f, e, first):
                return inner  # a copy of a mapping has the entries of the mapping, in its order
            return through(inner, "lossy", f"`{src(e)[:60]}`: {_COLLAPSING[name]}")
        inner = set()
        for x in list(e.args) + [k.value for k in e.keywords] + ([e.func.value] if isinstance(e.func, ast.Attribute) else []):
            inner |= sub(x)
        return through(inner or {("other", "")}, "unknown", f"`{src(e)[:60]}` is not a call the rule knows")
    if isinstance(e, (ast.DictComp, ast.SetComp)):
        inner = set()
        for gen in e.generators:
            inner |= sub(gen.iter)
        what = "a dict comprehension keeps one entry per key" if isinstance(e, ast.DictComp) else "a set comprehension keeps one element per value and has no order of its own"
        return through(inner, "lossy", f"`{src(e)[:60]}`: {what}")
    if isinstance(e, (ast.ListComp, ast.GeneratorExp)):
        inner = set()
        for gen in e.generators:
            inner |= sub(gen.iter)
        if len(e.generators) == 1 and not e.generators[0].ifs:
            return inner
        return through(inner, "unknown", f"`{src(e)[:60]}` filters or combines the items")
    if isinstance(e, ast.Subscript) and isinstance(e.slice, ast.Slice):
        inner = sub(e.value)
        lo, hi, step = (None if b is None else _const(ctx, f, b) if _const(ctx, f, b) is not None else _UNKNOWN for b in (e.slice.lower, e.slice.upper, e.slice.step))
        if _UNKNOWN in (lo, hi, step):
            return through(inner, "unknown", f"the slice `{src(e)[:60]}` has a bound that is not a constant")
        if isinstance(step, int) and step < 0:
            return through(inner, "lossy", f"`{src(e)[:60]}`: a slice with a negative step yields the items back to front")
        if (isinstance(lo, int) and lo != 0) or hi is not None or step not in (None, 1):
            return through(inner, "lossy", f"`{src(e)[:60]}`: the slice leaves out items of a list that is long enough")
        return inner
    if any(n in ps for n in names_in(e)):
        inner = set()
        for n in ast.walk(e):
            if isinstance(n, ast.Name) and n.id in ps:
                inner |= sub(n)
        if isinstance(e, ast.Attribute) or (isinstance(e, ast.Subscript) and not isinstance(e.slice, ast.Slice)):
            return {("other", "")}  # a part of an object given, not the items given
        return through(inner, "unknown", f"`{src(e)[:60]}` is not an expression the rule knows")
    return {("other", "")}


def _adds_to_block(ctx, h, _memo={}):
    """Does the package function h add a node to `self.tree.children` (itself, or by delegating to a helper that does)?"""
    key = (id(ctx), h.fq)
    if key not in _memo:
        _memo[key] = False  # recursion guard
        _memo[key] = bool(h.cls) and (bool(_appended(h, lambda d: d == TREE + ".children")) or _helper_shape(ctx, h) is not None)
    return _memo[key]


def _statement_sinks(ctx, f):
    """The places of f where a statement is added to a block: (node, description) - additions to `self.tree.children` (append / extend /
    += / insert), calls of package methods that add to the block they are called on, calls of an attribute of the block looked up by name
    (`getattr(self, option)(..)`)."""
    out = [(c, "addition to the children of the block") for c, _r, _x in _appended(f, lambda d: d == TREE + ".children")]
    seen = {id(c) for c, _d in out}
    for c in fn_calls(f.node):
        if id(c) in seen:
            continue
        if isinstance(c.func, ast.Attribute) and c.func.attr in ("insert", "extend") and dotted(_inl(f, c.func.value)) == TREE + ".children":
            out.append((c, "addition to the children of the block"))
            continue
        cal = ctx.rs.resolve_call(f, c)
        if cal.kind == "func" and cal.func is not None and cal.func.module.name == f.module.name and cal.func is not f and _adds_to_block(ctx, cal.func):
            out.append((c, f"call of {cal.func.qualname}"))
            continue
        if isinstance(c.func, ast.Name):
            os_ = reaching_origins(ctx, f, c.func, c)
            if os_ and all(_is_call(o, "getattr") and isinstance(o.func, ast.Name) and o.args and dotted(strip_cast(o.args[0])) == "self" for o in os_):
                out.append((c, "call of a builder attribute of the block looked up by name"))
    for s in statements(f.node):
        if isinstance(s, ast.AugAssign) and isinstance(s.op, ast.Add) and dotted(_inl(f, s.target)) == TREE + ".children" and id(s) not in seen:
            out.append((s, "addition to the children of the block"))
    return out


def _loop_carried(ctx, f, loop):
    """Names whose value at the start of an iteration may come from an earlier iteration: defined before the loop and assigned, or changed
    in place by a method call / item store, inside it."""
    inside = [n for st in loop.body for n in ast.walk(st)]
    changed = set()
    for n in inside:
        if isinstance(n, (ast.Assign, ast.AugAssign, ast.AnnAssign)):
            for t in (n.targets if isinstance(n, ast.Assign) else [n.target]):
                for x in ast.walk(t):
                    if isinstance(x, ast.Name):
                        changed.add(x.id)
        elif isinstance(n, ast.NamedExpr) and isinstance(n.target, ast.Name):
            changed.add(n.target.id)
        elif isinstance(n, ast.Call) and isinstance(n.func, ast.Attribute) and n.func.attr in _GROWERS and isinstance(n.func.value, ast.Name):
            changed.add(n.func.value.id)
    own = {x.id for x in ast.walk(loop.target) if isinstance(x, ast.Name)}
    body_ids = {id(n) for n in inside}
    out = set()
    for name in changed - own:
        rd = q_reaching_defs(ctx, f, name, loop)
        if any(id(st) not in body_ids and st is not loop for st, _v in rd):
            out.add(name)
    return out


def r12(ctx):
    """A builder method that is given a list of items ((name, value) pairs for header / parameter / strrep, option names, steps) adds one
    statement per item, in the order given.  The text of the same profile has one statement per item, in that order, and the grammar lets a
    name be repeated (two `header "Set-Cookie" ..` lines, the same parameter twice, two strrep rules for one string) - so a built profile is
    the parsed one, and its dictionary view lists what was given, only if the loop that adds the statements runs over the items *as given*:
    not over a projection that keeps one item per name or reorders them, and without passing an item over."""
    import networkx as nx

    mod = ctx.repo.module(MOD)
    located = 0
    for f in [g for g in mod.funcs.values() if g.cls]:
        sinks = _statement_sinks(ctx, f)
        if not sinks:
            continue
        ps = _all_params(f.node)
        fv = FuncView.of(f.node)
        cfg = ctx.cfg(f)
        # additions at a fixed position
        for c, _d in sinks:
            if isinstance(c, ast.Call) and isinstance(c.func, ast.Attribute) and c.func.attr == "insert" and len(c.args) == 2:
                pos = _inl(f, c.args[0])
                text = "a statement is added at the end of the block"
                if _is_call(pos, "len") and len(pos.args) == 1 and dotted(_inl(f, pos.args[0])) == TREE + ".children":
                    ctx.ob("R12", "LOOP", f, text, True, "insert(len(children), ..) is append")
                elif isinstance(_const(ctx, f, pos), int):
                    ctx.ob("R12", "LOOP", f, text, False, f"`{src(c)[:70]}` puts the statement at the fixed position {_const(ctx, f, pos)} of the block: statements come out in another order than the "
                           "builder calls / the items were given in (the text of the same profile has them in the order written)", c)
                else:
                    ctx.undecided("R12", "LOOP", f, text, f"the position `{src(pos)[:40]}` of the insertion is not understood", c)
        if not ps:
            continue
        sink_ids = {id(c) for c, _d in sinks}
        subjects = []  # (kind, node, iterable, at, filters)
        for loop in [s for s in statements(f.node) if isinstance(s, (ast.For, ast.AsyncFor))]:
            if any(id(n) in sink_ids for st in loop.body for n in ast.walk(st)):
                subjects.append(("loop", loop, loop.iter, loop, None))
        for c, _d in sinks:
            arg = c.args[0] if isinstance(c, ast.Call) and c.args else c.value if isinstance(c, ast.AugAssign) else None
            comp = _inl(f, arg) if arg is not None else None
            if isinstance(comp, (ast.ListComp, ast.GeneratorExp)) and not (isinstance(c, ast.Call) and c.func.attr == "append"):
                subjects.append(("comprehension", c, comp.generators[0].iter, fv.stmt_of(c) if not isinstance(c, ast.stmt) else c, comp))
        for kind, node, it, at, comp in subjects:
            skip = frozenset(id(st) for b in node.body for st in ast.walk(b)) if kind == "loop" else frozenset()
            cls_ = _given_class(ctx, f, it, at, ps, skip)
            stati = {s for s, _w in cls_}
            if stati <= {"other"}:
                continue  # not a loop over items given to this function
            located += 1
            text = "the statements are added for the items as given (each of them, in their order)"
            lossy = sorted(w for s, w in cls_ if s == "lossy")
            unknown = sorted(w for s, w in cls_ if s == "unknown")
            if lossy:
                ctx.ob("R12", "LOOP", f, text, False, f"the {kind} that adds the statements does not run over the items given but over a projection of them - {lossy[0]} - so for a list that "
                       "repeats a name (two Set-Cookie headers, the same parameter twice, two strrep rules for one string: all of them legal in a profile) statements are missing or come in another order, "
                       "while the same profile parsed from text has one statement per item in the order written: tree, text and dictionary view differ", node)
            elif unknown or "other" in stati:
                ctx.undecided("R12", "LOOP", f, text, f"the iterable `{src(it)[:50]}` is derived from a parameter in a way the rule does not understand" + (f": {unknown[0]}" if unknown else ""), node)
            else:
                ctx.ob("R12", "LOOP", f, text, True, f"the {kind} runs over the parameter itself (through wrappers that keep every element and the order)")
            # every item passes an addition
            text = "every item given passes an addition to the block"
            if kind == "comprehension":
                if len(comp.generators) == 1 and not comp.generators[0].ifs:
                    ctx.ob("R12", "EXIT", f, text, True, "a comprehension without a filter makes one node per item")
                else:
                    ctx.undecided("R12", "EXIT", f, text, "the comprehension has a filter or several generators", node)
                continue
            loop = node
            inside = {id(n) for n in ast.walk(loop)}
            mine = [c for c, _d in sinks if id(c) in inside]
            sts = [c if isinstance(c, ast.stmt) else fv.stmt_of(c) for c in mine]
            if not cfg.has(loop) or any(s is None or not cfg.has(s) for s in sts):
                ctx.undecided("R12", "EXIT", f, text, "an addition stands in a statement the control-flow graph does not model", loop)
                continue
            sink_nodes = {cfg.node(s) for s in sts}
            head, src_n = cfg.node(loop), cfg.edge_node(loop, "iter")
            inner_loops = [n for st in loop.body for n in ast.walk(st) if isinstance(n, (ast.For, ast.AsyncFor, ast.While))]
            inner_ids = {id(x) for l in inner_loops for x in ast.walk(l)}
            breaks = {cfg.node(n) for st in loop.body for n in ast.walk(st) if isinstance(n, ast.Break) and id(n) not in inner_ids and cfg.has(n)}
            targets = {head, EXIT} | breaks
            dg = cfg.g.copy()
            # the normal continuation of a statement is taken to be possible: edges into exception handlers are no evidence
            dg.remove_edges_from([(p, n) for n, st in cfg.stmt.items() if isinstance(st, ast.ExceptHandler) for p in list(cfg.g.predecessors(n))])
            for b in breaks:
                dg.remove_edges_from(list(dg.out_edges(b)))
            drops = set(targets)
            changed = True
            while changed:
                changed = False
                for n in dg.nodes:
                    if n in drops or n in sink_nodes:
                        continue
                    succ = list(dg.successors(n))
                    if succ and all(x in drops for x in succ):
                        drops.add(n)
                        changed = True
            may = dg.copy()
            may.remove_nodes_from(sink_nodes)

            def passes_over(n):
                return n in may and any(t in may and nx.has_path(may, n, t) for t in targets)

            if src_n in drops:
                ctx.ob("R12", "EXIT", f, text, False, "the next item (or the end of the method) is reached from the start of an iteration without an addition to the block, whatever the tests of the loop body say: "
                       "items given are passed over silently and are missing from the built tree, text and dictionary view", loop)
                continue
            if not passes_over(src_n):
                ctx.ob("R12", "EXIT", f, text, True, "every path through the loop body that ends normally passes an addition to the block (paths that raise are loud, not silent)")
                continue
            carried = _loop_carried(ctx, f, loop)
            guilty = None
            for n, st in cfg.stmt.items():
                if id(st) in inside and st is not loop and isinstance(st, (ast.If, ast.While)):
                    names = names_in(_inl(f, st.test, stop=carried)) & carried
                    if names and any(passes_over(cfg.edge_node(st, lab)) for lab in ("true", "false")) and not all(passes_over(cfg.edge_node(st, lab)) for lab in ("true", "false")):
                        guilty = (st, sorted(names))
                        break
            if guilty:
                ctx.ob("R12", "EXIT", f, text, False, f"whether an item is added is decided by `{src(guilty[0].test)[:60]}`, which reads {guilty[1]} - state the loop carries over from the items before: "
                       "an item is left out because of what was given earlier (a repeated name, a count), while the text of the same profile has one statement per item", guilty[0])
            else:
                ctx.undecided("R12", "EXIT", f, text, "a path through the loop body that passes no addition exists, through tests the rule does not decide", loop)
    if not located:
        ctx.undecided("R12", "LOOP", f"{MOD}.py", "the statements are added for the items as given (each of them, in their order)", "no loop over a parameter that adds statements to a block located")


# ============================================================================================================= R13
def r13(ctx, g: Grammar):
    """as_dict reads `.type` only on Token objects.  The walk of as_dict runs over the Reconstructor's item stream, in which the kept
    terminals of a statement are lark Tokens and its keyword literals are plain str (no `.type`).  A statement production with two or more
    keyword literals besides `set` (on the pinned grammar: `"#" "dns_resolver" string ";"`, the statement DnsBeaconBlock / from_beacon_config
    build for SETTING_DNSRESOLVER) gives a line of three or more items whose last two include a keyword - the shape the header / parameter
    branch takes for a (name, value) pair.  So either every `.type` read on a line element is dominated by `isinstance(<it>, Token)`, or the
    lines of those productions are taken out (a test of the first line item against the production's first keyword whose branch continues
    with the next item and that dominates the read) - otherwise the dictionary view of a built profile raises AttributeError where the same
    profile parsed from its text (there the statement is a comment) has a view (F27)."""
    f = ctx.repo.func(f"{MOD}.C2Profile.as_dict")
    cfg = ctx.cfg(f)
    fv = FuncView.of(f.node)
    prods = []
    for r in g.rules:
        kws = [k for k in r.keywords if k != "set"]
        if ";" in r.filtered and len(kws) >= 2 and r.kept:
            prods.append((r, kws))
    text = "`.type` is read on Token items only"
    if not prods:
        ctx.ob("R13", "AGREE", f, text, True, "the grammar has no statement production with two keyword literals besides `set`: every line of three or more items ends in two Tokens")
        return
    reads = []
    for n in ast.walk(f.node):
        if isinstance(n, ast.Attribute) and n.attr == "type" and isinstance(n.ctx, ast.Load) and isinstance(n.value, ast.Name):
            guarded = False
            for e, pol in _facts_at(ctx, f, n):
                if pol and _is_call(e, "isinstance") and len(e.args) == 2 and dotted(e.args[0]) == n.value.id:
                    guarded = True
            if not guarded:
                reads.append(n)
    names = ", ".join(f"{r.tree_name} ({' '.join(k)} ..)" for r, k in prods)
    if not reads:
        ctx.ob("R13", "AGREE", f, text, True, f"every `.type` read in as_dict is dominated by an isinstance test of its receiver; productions with keyword items: {names}")
        return
    for n in reads:
        st = fv.stmt_of(n)
        # the receiver must be an element of the line for the read to be a subject
        loop = None
        cur = st
        while cur is not None and id(cur) in fv.parent:
            cur = fv.parent[id(cur)]
            if isinstance(cur, ast.For) and isinstance(cur.target, ast.Name) and cur.target.id == n.value.id:
                loop = cur
                break
        if loop is None or not isinstance(loop.iter, (ast.Name, ast.Subscript)):
            ctx.undecided("R13", "AGREE", f, text, f"`{src(n)}` is not guarded by isinstance and its receiver is not the variable of a loop over (a slice of) the line", n)
            continue
        for r, kws in prods:
            skip = None
            shaped = False
            for s_ in statements(f.node):
                if not isinstance(s_, ast.If):
                    continue
                hit = False
                for c in ast.walk(_inl(f, s_.test)):
                    if isinstance(c, ast.Compare) and len(c.ops) == 1 and isinstance(c.ops[0], (ast.Eq, ast.In)):
                        l, rr = c.left, c.comparators[0]
                        if isinstance(c.ops[0], ast.Eq) and not isinstance(l, ast.Subscript):
                            l, rr = rr, l  # `"#" == line[0]`
                        if isinstance(l, ast.Subscript) and _c(l.slice) == 0:
                            vals = [_c(rr)] if isinstance(c.ops[0], ast.Eq) else [_c(x) for x in getattr(rr, "elts", [])]
                            if kws[0] in vals:
                                hit = True
                if hit:
                    skip = s_
                    if s_.body and isinstance(s_.body[-1], ast.Continue) and cfg.has(s_) and cfg.has(st) and cfg.dominates(cfg.node(s_), cfg.node(st)):
                        shaped = True
                        break
            if shaped:
                ctx.ob("R13", "AGREE", f, text, True, f"lines of `{r.tree_name}` ({' '.join(kws)} ..) are taken out by `{src(skip.test)}` (continues with the next item, dominates `{src(n)}`)", skip)
            elif skip is not None:
                ctx.undecided("R13", "AGREE", f, text, f"a test of the first line item against `{kws[0]}` exists (`{src(skip.test)}`) but it does not end in `continue` / does not dominate `{src(n)}`", skip)
            else:
                ctx.ob("R13", "AGREE", f, text, False,
                       f"`{src(n)}` is read on every item of `{src(loop.iter)}` without an isinstance test, and the statement `{r.tree_name}` ({' '.join(kws)} <string>;) - built by "
                       f"set_option(\"{r.tree_name}\", ..) / from_beacon_config - gives a line whose item `{kws[-1]}` is a plain str: as_dict raises AttributeError for a built profile "
                       f"while the same profile parsed from its text has a view", n)
