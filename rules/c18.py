"""C18 - PE artifacts and the deduced version are reported correctly (structural part)."""

from __future__ import annotations

import ast
import datetime
import re

from csverif import tables
from csverif.absint import SymPoly, sympoly
from csverif.astutil import assignments_to, body_walk, compare_parts, const_eval, dotted, fn_calls, is_const, kwarg, module_env, NotConst, params, src, statements
from csverif.cursor import CursorWalk
from csverif.q import FuncView, dominating_conditions, guarded_by, origin, raise_class

VERSION_RE = re.compile(r"^Cobalt Strike (\d+)\.(\d+)(?:\.(\d+))? \((\w{3}) (\d{2}), (\d{4})\)$")
MONTHS = {m: i + 1 for i, m in enumerate(["Jan", "Feb", "Mar", "Apr", "May", "Jun", "Jul", "Aug", "Sep", "Oct", "Nov", "Dec"])}


def _c(node, env=None):
    try:
        return const_eval(node, env) if node is not None else None
    except (NotConst, TypeError):
        return None


def run(ctx):
    rep = ctx.rep
    rep.explanation = (
        "Static analysis of pe.py / version.py / BeaconConfig.version: PE structure layouts computed from PE_DEF (cstruct "
        "little-endian) compared with the PE/COFF reference for every field the code reads; a symbolic file-position "
        "typestate (polynomials over the local names) checks that in each pe.find_* function the DOS header, signature, file "
        "header, optional header, section table and export directory are parsed at the position the format prescribes; "
        "sibling agreement of find_mz_offset / find_architecture; the two version tables checked completely (shape of every "
        "value with an independent regex and date parser, monotone in key order, contiguous releases); version precedence."
    )
    rep.not_decided = ["unusual images (SizeOfOptionalHeader != struct size, overlapping sections)", "timestamp -> release truth of each table row"]
    rep.trusted_base = ["CPython ast", "C-definition parser", "PE/COFF reference layout in csverif/tables.py", "SymPoly normal form"]
    rep.exhaustive = True
    r1(ctx)
    r2(ctx)
    r3(ctx)
    r4(ctx)
    r5(ctx)
    r6(ctx)


def r1(ctx):
    cd = ctx.cdefs("pe").get("pestruct")
    if cd is None:
        ctx.rep.error("anchor vanished: pestruct")
        return
    ctx.ob("R1", "TABLE", "pe.py::pestruct", "endianness", cd.endian == "<", f"pestruct endianness {cd.endian!r} (PE is little-endian)")
    for name, (size, fields) in tables.PE_LAYOUT.items():
        s = cd.struct(name)
        ok = s.static_size == size
        bad = {}
        for fn, (off, width) in fields.items():
            fl = s.field(fn)
            if fl is None or fl.offset != off or fl.size != width:
                ok = False
                bad[fn] = (fl.offset if fl else None, fl.size if fl else None)
        ctx.ob("R1", "TABLE", f"pe.py::PE_DEF::{name}", "layout", ok, f"size {s.static_size} (reference {size}); fields differing from the reference (offset,width): {bad}")
    for k, v in tables.PE_DEFINES.items():
        ctx.ob("R1", "TABLE", "pe.py::PE_DEF::#define", k, cd.defines.get(k) == v, f"{k} = {cd.defines.get(k)} (reference {v})", nontrivial=False)
    e = cd.struct("IMAGE_DOS_HEADER").field("e_lfanew")
    ctx.ob("R1", "TABLE", "pe.py::PE_DEF::IMAGE_DOS_HEADER", "e_lfanew signed", e is not None and e.signed, "e_lfanew is a signed LONG (the `> 0` constraint matters)")


def _sub(poly, mapping):
    """Substitute atoms by polys."""
    if poly is None:
        return None
    out = SymPoly()
    for mon, coef in poly.terms.items():
        term = SymPoly.const(coef)
        for a in mon:
            term = term * mapping.get(a, SymPoly.atom(a))
        out = out + term
    return out


def r2(ctx):
    funcs = {
        "pe.find_mz_offset": ("scan", False),
        "pe.find_architecture": ("scan", False),
        "pe.find_compile_stamps": ("found", True),
        "pe.find_magic_pe": ("found", True),
        "pe.find_stage_prepend_append": ("found", False),
    }
    total = 0
    for fq, (base_kind, has_sig) in funcs.items():
        f = ctx.repo.func(fq)
        fh = params(f.node)[0]
        sites = CursorWalk(ctx, f, fh).run()
        # the image base: for the scanners `start_offset + <range loop variable>`, for the others the value returned by
        # find_mz_offset - discovered by role, not by name
        if base_kind == "scan":
            lv = [dotted(s2.target) for s2 in statements(f.node) if isinstance(s2, ast.For) and isinstance(s2.iter, ast.Call) and dotted(s2.iter.func) == "range"]
            B = SymPoly.atom(params(f.node)[1]) + SymPoly.atom(lv[0]) if lv else None
        else:
            mz = [dotted(s2.targets[0]) for s2 in statements(f.node) if isinstance(s2, ast.Assign) and isinstance(s2.value, ast.Call) and ctx.rs.resolve_call(f, s2.value).fq == "pe.find_mz_offset"]
            B = SymPoly.atom(mz[0]) if mz else None
        if B is None:
            ctx.ob("R2", "CURSOR", f, "image base", False, "cannot identify the image base (scan variable / find_mz_offset result)")
            continue
        L = None
        dos = [s for s in sites if s.kind == "parse" and s.what.endswith("IMAGE_DOS_HEADER")]
        if len(dos) != 1:
            ctx.ob("R2", "CURSOR", f, "IMAGE_DOS_HEADER", False, f"{len(dos)} DOS header parses")
            continue
        total += 1
        d = dos[0]
        ctx.ob("R2", "CURSOR", f, "IMAGE_DOS_HEADER @ base", d.pos == B, f"DOS header parsed at {d.pos}; required {B}", d.node)
        L = SymPoly.atom(f"{d.var}.e_lfanew")
        for s in sites:
            if s is d:
                continue
            if s.kind == "parse":
                total += 1
                nm = s.what.replace("_IMAGE", "IMAGE").lstrip("_")
                if nm == "uint32":
                    want = B + L
                    label = "PE signature"
                elif nm == "IMAGE_FILE_HEADER":
                    want = B + L + SymPoly.const(4)
                    label = "IMAGE_FILE_HEADER"
                    fvar = s.var
                elif nm.startswith("IMAGE_OPTIONAL_HEADER"):
                    want = B + L + SymPoly.const(24)
                    label = nm
                    ovar = s.var
                elif nm == "IMAGE_SECTION_HEADER":
                    want = B + L + SymPoly.const(24) + SymPoly.atom(f"sizeof({ovar})")
                    label = "section table"
                    cnt_ok = s.count == f"{fvar}.NumberOfSections"
                    ctx.ob("R2", "CURSOR", f, "section count", cnt_ok, f"parses {s.count} section headers; required {fvar}.NumberOfSections", s.node)
                elif nm == "IMAGE_EXPORT_DIRECTORY":
                    # base + (export_rva - sec.VirtualAddress) + sec.PointerToRawData
                    p = s.pos
                    ex = _expand_local(f, p)
                    want = None
                    label = "export directory"
                    ok, detail = _export_offset_ok(ctx, f, ex, B)
                    ctx.ob("R2", "CURSOR", f, "IMAGE_EXPORT_DIRECTORY position", ok, detail, s.node)
                    continue
                else:
                    continue
                ctx.ob("R2", "CURSOR", f, f"{label} position", s.pos == want, f"{label} parsed at {s.pos}; required {want}", s.node)
            elif s.kind == "read" and has_sig and s.what == "4" and fq == "pe.find_magic_pe":
                total += 1
                ctx.ob("R2", "CURSOR", f, "PE magic position", s.pos == B + L, f"PE magic read at {s.pos}; required {B + L}", s.node)
    ctx.rep.count("pe_parse_sites", total, floor=16)


def _expand_local(f, poly):
    """Expand atoms that are single-definition locals with a polynomial value."""
    if poly is None:
        return None
    mapping = {}
    for a in poly.atoms():
        if "." in a or "(" in a:
            continue
        defs = [v for st, v in assignments_to(f.node, a)]
        if len(defs) == 1 and defs[0] is not None and a not in params(f.node):
            p = sympoly(defs[0])
            if p is not None:
                mapping[a] = p
    return _sub(poly, mapping)


def _export_offset_ok(ctx, f, ex, B):
    if ex is None:
        return False, "export directory position is not tracked"
    # find the section alias and the rva holder from the atoms
    atoms = sorted(ex.atoms())
    rva = [a for a in atoms if a.endswith(".VirtualAddress")]
    raw = [a for a in atoms if a.endswith(".PointerToRawData")]
    if len(raw) != 1 or len(rva) != 2:
        return False, f"export directory parsed at {ex}: not base + (rva - section.VirtualAddress) + section.PointerToRawData"
    sec = raw[0].rsplit(".", 1)[0]
    exp = [a for a in rva if not a.startswith(sec + ".")]
    if len(exp) != 1:
        return False, f"export directory parsed at {ex}"
    want = B + SymPoly.atom(exp[0]) - SymPoly.atom(f"{sec}.VirtualAddress") + SymPoly.atom(raw[0])
    ok = ex == want
    # the chosen section contains the rva: sec.VA <= rva < sec.VA + sec.VirtualSize  (through `ds = section`)
    holder = exp[0].rsplit(".", 1)[0]
    hd = [v for st, v in assignments_to(f.node, holder)]
    dd_ok = len(hd) == 1 and isinstance(hd[0], ast.Subscript) and src(hd[0].value).endswith(".DataDirectory") and src(hd[0].slice).endswith("IMAGE_DIRECTORY_ENTRY_EXPORT")
    secdefs = [v for st, v in assignments_to(f.node, sec) if not (isinstance(v, ast.Constant) and v.value is None)]
    chosen = False
    for st, v in assignments_to(f.node, sec):
        if isinstance(v, ast.Name):
            lv = v.id
            chosen = guarded_by(ctx, f, st, lambda t, lv=lv: True if src(t) in (
                f"{lv}.VirtualAddress <= {exp[0]} < {lv}.VirtualAddress + {lv}.VirtualSize",) else None)
    return ok and dd_ok and chosen, f"export directory at {ex} (required {want}); rva from DataDirectory[EXPORT]={dd_ok}; section chosen by VA <= rva < VA + VirtualSize={chosen}"


def r3(ctx):
    a, b = ctx.repo.func("pe.find_mz_offset"), ctx.repo.func("pe.find_architecture")

    def shape(f):
        out = {}
        out["range"] = [src(s.iter) for s in statements(f.node) if isinstance(s, ast.For)]
        out["seeks"] = [src(c) for c in fn_calls(f.node) if isinstance(c.func, ast.Attribute) and c.func.attr == "seek"]
        out["lfanew"] = [src(s.test) for s in statements(f.node) if isinstance(s, ast.If) and "e_lfanew" in src(s.test)]
        out["start"] = [src(v) for st, v in assignments_to(f.node, "start_offset") if v is not None]
        out["eof"] = [src(h.type) for s in statements(f.node) if isinstance(s, ast.Try) for h in s.handlers]
        return out

    sa, sb = shape(a), shape(b)
    ctx.ob("R3", "AGREE", a, "find_mz_offset ~ find_architecture", sa == sb, "both scanners use the same range, seeks, e_lfanew constraint, start handling and EOF handling" if sa == sb else f"siblings differ: {sa} vs {sb}")
    # the magic bytes (e_magic, PE signature) are customisable artifacts that are *reported*: a candidate header is judged
    # by e_lfanew and Machine only, never by its magic
    from csverif.q import inline as _inl
    for f in (a, b):
        svars = {dotted(s2.targets[0]) for s2 in statements(f.node) if isinstance(s2, ast.Assign) and isinstance(s2.value, ast.Call) and ctx.rs.resolve_call(f, s2.value).kind == "struct"}
        tested = sorted({n.attr for s2 in statements(f.node) if isinstance(s2, (ast.If, ast.While)) for n in ast.walk(_inl(f.node, s2.test, stop=frozenset(svars))) if isinstance(n, ast.Attribute) and dotted(n.value) in svars}
                        | {n.attr for s2 in ast.walk(f.node) if isinstance(s2, (ast.IfExp, ast.Assert)) for n in ast.walk(s2.test) if isinstance(n, ast.Attribute) and dotted(n.value) in svars})
        extra = [t for t in tested if t not in ("e_lfanew", "Machine")]
        ctx.ob("R3", "AGREE", f, "candidate judged by e_lfanew and Machine only", bool(svars) and not extra,
               f"header fields tested: {tested}" + ("" if not extra else f"; {extra} must not filter candidates (a stage with customised magic would not be located)"), f.node)
    lf_ok = False
    for s2 in statements(a.node):
        if isinstance(s2, ast.If) and "e_lfanew" in src(s2.test):
            from csverif.astutil import conjuncts as _cj
            parts = [tr for cj in _cj(s2.test) for tr in compare_parts(cj)]
            gt0 = any(isinstance(op, ast.Gt) and (dotted(l) or "").endswith(".e_lfanew") and _c(r) == 0 for l, op, r in parts)
            ltm = any(isinstance(op, ast.Lt) and (dotted(l) or "").endswith(".e_lfanew") and dotted(r) == "maxrange" for l, op, r in parts)
            lf_ok = gt0 and ltm
    ctx.ob("R3", "AGREE", a, "e_lfanew constraint", lf_ok, f"constraint {sa['lfanew']} (required 0 < e_lfanew < maxrange)")
    # machine mapping in find_architecture
    m = {}
    for st in statements(b.node):
        if isinstance(st, ast.If):
            for l, op, r in compare_parts(st.test):
                if isinstance(op, ast.Eq) and (dotted(l) or "").endswith(".Machine"):
                    rets = [s for s in st.body if isinstance(s, ast.Return)]
                    if rets:
                        m[(dotted(r) or "").split(".")[-1]] = _c(rets[0].value)
    ctx.ob("R3", "TABLE", b, "machine -> architecture", m == {"IMAGE_FILE_MACHINE_AMD64": "x64", "IMAGE_FILE_MACHINE_I386": "x86"}, f"mapping {m}")
    # accepted machines in find_mz_offset
    acc = []
    for n in body_walk(a.node):
        if isinstance(n, ast.Compare) and isinstance(n.ops[0], ast.In) and (dotted(n.left) or "").endswith(".Machine"):
            acc = sorted((dotted(e) or "").split(".")[-1] for e in n.comparators[0].elts)
    ctx.ob("R3", "TABLE", a, "accepted machines", acc == ["IMAGE_FILE_MACHINE_AMD64", "IMAGE_FILE_MACHINE_I386"], f"find_mz_offset accepts {acc}")
    # 64-bit optional header exactly on AMD64
    for fq in ("pe.find_compile_stamps", "pe.find_stage_prepend_append"):
        f = ctx.repo.func(fq)
        ok = False
        for c in fn_calls(f.node):
            cal = ctx.rs.resolve_call(f, c)
            if cal.kind == "struct" and cal.struct[2].endswith("IMAGE_OPTIONAL_HEADER64"):
                conds = [t for t, pol, n in dominating_conditions(ctx, f, c) if pol]
                ok = any(t.endswith(".Machine == pestruct.IMAGE_FILE_MACHINE_AMD64") for t in conds)
        ok32 = False
        for c in fn_calls(f.node):
            cal = ctx.rs.resolve_call(f, c)
            if cal.kind == "struct" and cal.struct[2].endswith("IMAGE_OPTIONAL_HEADER"):
                conds = dominating_conditions(ctx, f, c)
                ok32 = any((not pol and t.endswith(".Machine == pestruct.IMAGE_FILE_MACHINE_AMD64")) for t, pol, n in conds)
        ctx.ob("R3", "AGREE", f, "optional header selection", ok and ok32, f"64-bit optional header under Machine == AMD64={ok}; 32-bit one only when it is not AMD64={ok32}")


def r4(ctx):
    mod = ctx.repo.module("version")
    env = module_env(mod)
    for name, floor in (("MAX_ENUM_TO_VERSION", 18), ("PE_EXPORT_STAMP_TO_VERSION", 53)):
        node = ctx.repo.const(f"version.{name}")
        if not isinstance(node, ast.Dict):
            ctx.ob("R4", "TABLE", f"version.py::{name}", "literal", False, "table is not a dict literal")
            continue
        rows = []
        keys_seen = set()
        for k, v in zip(node.keys, node.values):
            kk, vv = _c(k, env), _c(v, env)
            dup = kk in keys_seen
            keys_seen.add(kk)
            m = VERSION_RE.match(vv) if isinstance(vv, str) else None
            ok = m is not None and isinstance(kk, int) and not dup
            date = None
            ver = None
            if m:
                try:
                    date = datetime.date(int(m.group(6)), MONTHS[m.group(4)], int(m.group(5)))
                    ver = tuple(int(x) for x in m.groups()[:3] if x is not None)
                except (KeyError, ValueError):
                    ok = False
            ctx.rep.ob("R4", "TABLE", f"version.py::{name}::{kk!r}", ok and date is not None,
                       f"{kk!r} -> {vv!r}: " + ("well-formed" if ok and date else "does not match 'Cobalt Strike M.m[.p] (Mon DD, YYYY)' / duplicate key / invalid date"), "dissect/cobaltstrike/version.py", getattr(k, "lineno", 0))
            if ok and date:
                rows.append((kk, ver, date, vv))
        ctx.rep.count(f"{name}_rows", len(rows), floor=floor)
        rows.sort(key=lambda r: r[0])
        mono = True
        bad = []
        for (k1, v1, d1, s1), (k2, v2, d2, s2) in zip(rows, rows[1:]):
            if (v1, d1) > (v2, d2) or d1 > d2:
                mono = False
                bad.append((k1, s1, k2, s2))
        ctx.ob("R4", "TABLE", f"version.py::{name}", "monotone", mono, "sorted by key, (version, date) never decreases" if mono else f"later keys map to earlier releases: {bad[:3]}")
        # contiguity: keys of one release string are contiguous
        order = [r[3] for r in rows]
        seen, last, contig = set(), None, True
        for s in order:
            if s != last and s in seen:
                contig = False
            seen.add(s)
            last = s
        ctx.ob("R4", "TABLE", f"version.py::{name}", "contiguous releases", contig, "keys that map to one release are contiguous" if contig else "a release string reappears after another release")
        # version text <-> date agreement inside one table: same version tuple => same date
        by_ver = {}
        for k, ver, date, s in rows:
            by_ver.setdefault((ver, s.split(" (")[0]), set()).add(date)
    # cross-table: a version that appears in both tables has the same date text... (May 02 vs May 04 2019 are distinct builds)


def r5(ctx):
    f = ctx.repo.func("beacon.BeaconConfig.version")
    cfg = ctx.cfg(f)
    rets = cfg.return_stmts()
    shape = {}
    for r in rets:
        v = r.value
        if isinstance(v, ast.Call):
            conds = dominating_conditions(ctx, f, r)
            under = [(t, pol) for t, pol, n in conds if t == "self.pe_export_stamp"]
            shape[dotted(v.func)] = (src(v.args[0]) if v.args else None, under)
    a = shape.get("BeaconVersion.from_pe_export_stamp")
    b = shape.get("BeaconVersion.from_max_setting_enum")
    ok = a is not None and b is not None and a[0] == "self.pe_export_stamp" and a[1] == [("self.pe_export_stamp", True)] and b[0] == "self.max_setting_enum" and ("self.pe_export_stamp", True) not in b[1]
    ctx.ob("R5", "DOM", f, "version precedence", ok, "export stamp decides when present, otherwise the highest setting index" if ok else f"precedence is {shape}")
    for meth, table, arg in (("from_pe_export_stamp", "PE_EXPORT_STAMP_TO_VERSION", None), ("from_max_setting_enum", "MAX_ENUM_TO_VERSION", None)):
        g = ctx.repo.func(f"version.BeaconVersion.{meth}")
        gets = [c for c in fn_calls(g.node) if isinstance(c.func, ast.Attribute) and c.func.attr == "get"]
        p = params(g.node)[1]
        ok = len(gets) == 1 and dotted(gets[0].func.value) == table and dotted(gets[0].args[0]) == p and _c(gets[0].args[1] if len(gets[0].args) > 1 else None) == "Unknown"
        ctx.ob("R5", "AGREE", g, f"{table}.get({p}, 'Unknown')", ok, "looks up its own table with default 'Unknown'" if ok else f"lookup is {[src(c) for c in gets]}")
    init = ctx.repo.func("version.BeaconVersion.__init__")
    rx = _c(ctx.repo.class_attrs("version.BeaconVersion").get("REGEX_VERSION"))
    groups = re.findall(r"\?P<(\w+)>", rx or "")
    ctx.ob("R5", "TABLE", "version.py::BeaconVersion.REGEX_VERSION", "named groups", groups == ["major", "minor", "patch", "date"], f"named groups {groups}")
    try:
        rc = re.compile(rx)
        sample_ok = rc.match("Cobalt Strike 4.7.1 (Sep 16, 2022)").groupdict() == {"major": "4", "minor": "7", "patch": "1", "date": "Sep 16, 2022"} and rc.match("Cobalt Strike 3.4 (Jul 29, 2016)").group("patch") is None
    except Exception:
        sample_ok = False
    ctx.ob("R5", "TABLE", "version.py::BeaconVersion.REGEX_VERSION", "pattern", sample_ok, "the version regex separates major/minor/optional patch/date")
    from csverif.astutil import find_match, pmatch
    mv = next((dotted(s2.targets[0]) for s2 in statements(init.node) if isinstance(s2, ast.Assign) and isinstance(s2.value, ast.Call) and dotted(s2.value.func) in ("re.match", "re.fullmatch")), "m")
    t3 = any(find_match("(int($m.group('major')), int($m.group('minor')), int($m.group('patch')))", s2, {"m": mv}) for s2 in statements(init.node) if isinstance(s2, ast.Assign))
    t2 = any(find_match("(int($m.group('major')), int($m.group('minor')))", s2, {"m": mv}) for s2 in statements(init.node) if isinstance(s2, ast.Assign))
    def _unnot(t):
        while isinstance(t, ast.UnaryOp) and isinstance(t.op, ast.Not):
            t = t.operand
        return t
    pg = any(isinstance(s2, ast.If) and pmatch("$m.group('patch')", _unnot(s2.test), {"m": mv}) is not None for s2 in statements(init.node))
    dt = any(find_match("datetime.datetime.strptime($m.group('date'), '%b %d, %Y')", s2, {"m": mv}) for s2 in statements(init.node) if isinstance(s2, ast.Assign))
    ctx.ob("R5", "AGREE", init, "tuple/date from the named groups", t3 and t2 and pg and dt, f"3-tuple with patch={t3}; 2-tuple without={t2}; arity decided by the patch group={pg}; date parsed from the date group with '%b %d, %Y'={dt}")


def r6(ctx):
    f = ctx.repo.func("pe.find_stage_prepend_append")
    fh = params(f.node)[0]
    sites = CursorWalk(ctx, f, fh).run()
    mz = next((dotted(s2.targets[0]) for s2 in statements(f.node) if isinstance(s2, ast.Assign) and isinstance(s2.value, ast.Call) and ctx.rs.resolve_call(f, s2.value).fq == "pe.find_mz_offset"), "mz_offset")
    finals = [r for r in statements(f.node) if isinstance(r, ast.Return) and isinstance(r.value, ast.Tuple) and len(r.value.elts) == 2 and all(isinstance(e, ast.Name) for e in r.value.elts)]
    PRE, APP = (finals[-1].value.elts[0].id, finals[-1].value.elts[1].id) if finals else ("prepend", "append")
    pre = [s for s in sites if s.kind == "read" and s.what == mz]
    ok = len(pre) == 1 and pre[0].pos == SymPoly.const(0) and pre[0].var == PRE and guarded_by(ctx, f, pre[0].node, lambda t: True if any(isinstance(op, ast.Gt) and dotted(l) == mz and _c(r) == 0 for l, op, r in compare_parts(t)) else None)
    ctx.ob("R6", "CURSOR", f, "prepend = bytes [0, mz_offset)", bool(ok), "prepend is read from offset 0 for mz_offset bytes when the image does not start the file" if ok else "prepend read is not fh.seek(0); fh.read(mz_offset) under mz_offset > 0")
    ap = [s for s in sites if s.kind == "read" and s.var == APP]
    SZ = None
    if len(ap) == 1 and ap[0].pos is not None:
        rest = ap[0].pos - SymPoly.atom(mz)
        if len(rest.terms) == 1 and len(rest.atoms()) == 1:
            SZ = next(iter(rest.atoms()))
    sz = {src(v) for st, v in assignments_to(f.node, SZ) if v is not None} if SZ else set()
    aug = [s for s in statements(f.node) if isinstance(s, ast.AugAssign) and dotted(s.target) == SZ]
    ok = len(ap) == 1 and SZ is not None and any(x.endswith(".SizeOfHeaders") for x in sz) and len(aug) == 1 and src(aug[0].value).endswith(".SizeOfRawData") and isinstance(aug[0].op, ast.Add)
    ctx.ob("R6", "CURSOR", f, "append position", bool(ok), f"append read at {ap[0].pos if ap else None}; required mz_offset + SizeOfHeaders + sum(SizeOfRawData)")
    g = ctx.repo.func("pe.find_magic_mz")
    from csverif.astutil import pmatch
    rets = [s for s in statements(g.node) if isinstance(s, ast.Return) and isinstance(s.value, ast.Subscript)]
    m = pmatch("$d[:$p]", rets[0].value) if len(rets) == 1 else None
    ok = m is not None
    finds = [c for c in fn_calls(g.node) if isinstance(c.func, ast.Attribute) and c.func.attr == "find"]
    ok = ok and sorted(dotted(c.args[0]) or "" for c in finds) == ["DOSHEADER_X64", "DOSHEADER_X86"] and all(dotted(c.func.value) == m["d"] for c in finds)
    ok = ok and all(any(c is x for c in finds) or isinstance(v, ast.IfExp) for st, v in assignments_to(g.node, m["p"]) for x in [origin(g.node, v)] if v is not None) if ok else ok
    env = module_env(ctx.repo.module("pe"))
    stubs = (_c(ctx.repo.const("pe.DOSHEADER_X64"), env), _c(ctx.repo.const("pe.DOSHEADER_X86"), env))
    ok = ok and stubs == (bytes.fromhex("554889e54881"), bytes.fromhex("e8000000005b"))
    ctx.ob("R6", "AGREE", g, "magic_mz = prefix before the stub", ok, f"returns the bytes before the first known DOS stub ({[s.hex() if s else None for s in stubs]})" if ok else "magic_mz is not data[:pos] of the known stub byte strings")
